"""Translated fragments for C03 (Python `ast` -> lean/Mouette/Generated/C03.lean), re-extracted on every run.

Sites
  guards   linear.py / surface.py / volume.py : the `_Connectivity` hierarchy, every method -> event lists
           (guard / read / call / write / writeNone), `__init__`, `clear`, public alphabet
  adjTable volume.py: _compute_adjacent_cell   `f0,f1,f2,f3 = self.face_id(v1,v3,v2), ...`
  subFace  volume.py: _compute_cell_adj        `for i in range(4): F = C[:i] + C[i+1:]`
  orient   volume.py: _extract_surface_boundary  and  border.py: extract_boundary_of_volume
           `if det_3x3(pA-pD,pB-pD,pC-pD)>0: (A,B,C) else: (A,C,B)`
  completed mesh_data.py: _complete_faces_from_cells, _generate_cell_faces (tetra rows; read-only, owned by C02)
"""
import ast

from .. import translate as T
from ..translate import TranslateError

HIER = [  # concrete class first
    ("mouette/mesh/datatypes/volume.py", "VolumeMesh._Connectivity", "SurfaceMesh._Connectivity"),
    ("mouette/mesh/datatypes/surface.py", "SurfaceMesh._Connectivity", "PolyLine._Connectivity"),
    ("mouette/mesh/datatypes/linear.py", "PolyLine._Connectivity", None),
]
# history alphabet: the FULL public API of the volume connectivity (every public method of the hierarchy after
# override resolution: volume.py, then the inherited surface.py and linear.py accessors, and `clear`)


def _is_self_attr(node):
    return isinstance(node, ast.Attribute) and isinstance(node.value, ast.Name) and node.value.id == "self"


def _is_super_call(node):
    """super().m(...) -> m"""
    if (isinstance(node, ast.Call) and isinstance(node.func, ast.Attribute) and isinstance(node.func.value, ast.Call)
            and isinstance(node.func.value.func, ast.Name) and node.func.value.func.id == "super"):
        return node.func.attr
    return None


def _base_name(cls):
    if not cls.bases: return None
    b = cls.bases[0]
    parts = []
    while isinstance(b, ast.Attribute):
        parts.append(b.attr); b = b.value
    if isinstance(b, ast.Name): parts.append(b.id)
    return ".".join(reversed(parts))


def _is_none_test(test):
    """`self.X is None` -> X"""
    if (isinstance(test, ast.Compare) and len(test.ops) == 1 and isinstance(test.ops[0], ast.Is)
            and _is_self_attr(test.left) and isinstance(test.comparators[0], ast.Constant)
            and test.comparators[0].value is None):
        return test.left.attr
    return None


class _Events(ast.NodeVisitor):
    """events of one method body in evaluation order (branches over-approximated: everything executes)"""

    def __init__(self, level, resolve, caches, synth, props=()):
        self.level, self.resolve, self.caches, self.synth, self.props = level, resolve, caches, synth, set(props)
        self.ev = []

    def visit_Try(self, node):
        # `try: <body> except Exception: ...` : a failing read inside the body is caught, so it is not an event
        catches_all = any(h.type is None or (isinstance(h.type, ast.Name) and h.type.id in ("Exception", "BaseException"))
                          for h in node.handlers)
        if not catches_all:
            for st in node.body: self.visit(st)
        for h in node.handlers:
            for st in h.body: self.visit(st)
        for st in node.orelse + node.finalbody: self.visit(st)

    def visit_If(self, node):
        x = _is_none_test(node.test)
        if x is not None and x in self.caches and not node.orelse and len(node.body) == 1:
            st = node.body[0]
            if isinstance(st, ast.Expr) and isinstance(st.value, ast.Call) and _is_self_attr(st.value.func) \
                    and not st.value.args and not st.value.keywords:
                self.ev.append(("guard", x, self.resolve(st.value.func.attr, -1))); return
            if isinstance(st, ast.Assign) and len(st.targets) == 1 and _is_self_attr(st.targets[0]) \
                    and st.targets[0].attr == x and not any(_is_self_attr(n) for n in ast.walk(st.value)):
                self.ev.append(("guard", x, self.synth(x))); return
            raise TranslateError(f"guard on self.{x} with an unrecognised body: {ast.dump(st)[:90]}")
        self.generic_visit(node)

    def visit_Assign(self, node):
        if len(node.targets) == 1 and _is_self_attr(node.targets[0]) and node.targets[0].attr in self.caches \
                and isinstance(node.value, ast.Constant) and node.value.value is None:
            self.ev.append(("writeNone", node.targets[0].attr)); return
        self.visit(node.value)
        for t in node.targets: self.visit(t)

    def visit_AnnAssign(self, node):
        if node.value is not None: self.visit(node.value)
        if _is_self_attr(node.target) and node.target.attr in self.caches:
            none = isinstance(node.value, ast.Constant) and node.value.value is None
            self.ev.append(("writeNone" if none else "write", node.target.attr))
        else:
            self.visit(node.target)

    def visit_Attribute(self, node):
        if _is_self_attr(node) and node.attr in self.props and isinstance(node.ctx, ast.Load):
            self.ev.append(("call", self.resolve(node.attr, -1))); return     # `self.boundary_faces` runs the property
        if _is_self_attr(node) and node.attr in self.caches:
            if isinstance(node.ctx, ast.Store):
                self.ev.append(("write", node.attr))       # refined to writeNone by visit_Assign2 below
            else:
                self.ev.append(("read", node.attr))
            return
        self.generic_visit(node)

    def visit_Call(self, node):
        sup = _is_super_call(node)
        if sup is not None:
            for a in node.args: self.visit(a)
            self.ev.append(("call", self.resolve(sup, self.level))); return
        if _is_self_attr(node.func):
            tgt = self.resolve(node.func.attr, -1, optional=True)
            for a in node.args: self.visit(a)
            for k in node.keywords: self.visit(k.value)
            if tgt is not None:
                self.ev.append(("call", tgt)); return
            return
        self.generic_visit(node)


def _events_of(fn, level, resolve, caches, synth, props=()):
    v = _Events(level, resolve, caches, synth, props)
    for st in fn.body:
        v.visit(st)
    return v.ev


MESH_HIER = [("mouette/mesh/datatypes/volume.py", "VolumeMesh", "Mesh")]


def extract_guards(hier=None, all_attrs=False, has_clear=True):
    """hier: class hierarchy, concrete class first. all_attrs: every `self.x` stored by the classes is a tracked attribute
    (VolumeMesh level: `connectivity`, `boundary_connectivity`), otherwise only the `_x` ones."""
    hier = hier or HIER
    classes = []
    for rel, qual, base in hier:
        tree, _ = T.load(rel)
        cls = T.find_def(tree, qual)
        if not isinstance(cls, ast.ClassDef): raise TranslateError(f"{qual} is not a class")
        if _base_name(cls) != base: raise TranslateError(f"{qual}: base {_base_name(cls)} != expected {base}")
        meths = {n.name: n for n in cls.body if isinstance(n, ast.FunctionDef)}
        classes.append((qual, meths))
    # cache universe: every `self._x` stored anywhere in the hierarchy
    caches = []
    for _, meths in classes:
        for fn in meths.values():
            for n in ast.walk(fn):
                if _is_self_attr(n) and isinstance(n.ctx, ast.Store) and (all_attrs or n.attr.startswith("_")) and n.attr not in caches:
                    caches.append(n.attr)
    caches.sort()
    ids, names = {}, []
    for lvl, (qual, meths) in enumerate(classes):
        for name in meths:
            shadowed = any(name in classes[l][1] for l in range(lvl))
            ids[(lvl, name)] = len(names)
            names.append(f"super{lvl}.{name}" if shadowed else name)
    synth_ids = {}

    def resolve(name, above, optional=False):
        for lvl in range(above + 1, len(classes)):
            if name in classes[lvl][1]: return ids[(lvl, name)]
        if optional: return None
        raise TranslateError(f"method {name} not found above level {above}")

    bodies = {}

    def synth(x):
        if x not in synth_ids:
            synth_ids[x] = len(names); names.append(f"<init {x}>")
            bodies[synth_ids[x]] = [("write", x)]
        return synth_ids[x]

    props = set()
    for _, meths in classes:
        for name, fn in meths.items():
            if any(isinstance(d, ast.Name) and d.id == "property" for d in fn.decorator_list): props.add(name)
    for lvl, (qual, meths) in enumerate(classes):
        for name, fn in meths.items():
            bodies[ids[(lvl, name)]] = _events_of(fn, lvl, resolve, set(caches), synth, props)
    public = []
    for _, meths in classes:
        for n in meths:
            if not n.startswith("_") and n not in public: public.append(n)
    alphabet = []
    for n in public:
        i = resolve(n, -1)
        if i not in alphabet: alphabet.append(i)
    init_attrs = _attrs_initialised(bodies, resolve("__init__", -1), caches)
    return {"caches": caches, "names": names, "bodies": [bodies[i] for i in range(len(names))],
            "init": resolve("__init__", -1), "alphabet": alphabet, "init_attrs": init_attrs,
            "clear": resolve("clear", -1) if has_clear else None,
            "clear_attrs": _attrs_initialised(bodies, resolve("clear", -1), caches) if has_clear else []}


def _attrs_initialised(bodies, mid, caches, depth=0):
    out = []
    if depth > 10: return out
    for ev in bodies[mid]:
        if ev[0] in ("write", "writeNone") and ev[1] not in out: out.append(ev[1])
        if ev[0] == "call":
            for a in _attrs_initialised(bodies, ev[1], caches, depth + 1):
                if a not in out: out.append(a)
    return out


def guards_to_lean(g, name="volumeGuards", prefix=""):
    ci = {c: i for i, c in enumerate(g["caches"])}

    def ev(e):
        if e[0] == "guard": return f".guard {ci[e[1]]} {e[2]}"
        if e[0] == "call": return f".call {e[1]}"
        return f".{e[0]} {ci[e[1]]}"
    rows = []
    for i, b in enumerate(g["bodies"]):
        rows.append(f"    /- {i} {g['names'][i]} -/ [" + ", ".join(ev(e) for e in b) + "]")
    q = lambda s: '"' + s + '"'
    return (
        f"def {name} : Mouette.VolLazy.Table where\n"
        f"  attrNames := [{', '.join(q(c) for c in g['caches'])}]\n"
        f"  methodNames := [{', '.join(q(n) for n in g['names'])}]\n"
        "  methods := [\n" + ",\n".join(rows) + "]\n"
        f"  initId := {g['init']}\n"
        f"  alphabet := [{', '.join(str(a) for a in g['alphabet'])}]\n"
        f"  fuel := {len(g['names']) + 2}\n\n"
        f"/-- attributes created by `__init__` (incl. the `super().__init__` chain) / by `clear` -/\n"
        f"def {prefix}initAttrs : List Nat := [{', '.join(str(ci[a]) for a in g['init_attrs'])}]\n"
        f"def {prefix}clearAttrs : List Nat := [{', '.join(str(ci[a]) for a in g['clear_attrs'])}]\n"
        + (f"def {prefix}clearId : Nat := {g['clear']}\n" if g.get("clear") is not None else ""))


# ------------------------------------------------------------------------------------------------
def extract_adj_table():
    tree, _ = T.load("mouette/mesh/datatypes/volume.py")
    fn = T.find_def(tree, "VolumeMesh._Connectivity._compute_adjacent_cell")
    unpack, table = None, None
    for n in ast.walk(fn):
        if isinstance(n, ast.Assign) and len(n.targets) == 1 and isinstance(n.targets[0], ast.Tuple):
            tnames = [e.id for e in n.targets[0].elts if isinstance(e, ast.Name)]
            if tnames == ["v0", "v1", "v2", "v3"] and isinstance(n.value, ast.Name):
                unpack = n.value.id
            if tnames == ["f0", "f1", "f2", "f3"] and isinstance(n.value, ast.Tuple):
                rows = []
                for c in n.value.elts:
                    if not (isinstance(c, ast.Call) and _is_self_attr(c.func) and c.func.attr == "face_id"):
                        raise TranslateError("f_i is not self.face_id(..)")
                    rows.append([_vidx(a) for a in c.args])
                table = rows
    if unpack is None or table is None:
        raise TranslateError("`v0,v1,v2,v3 = cell` / `f0,f1,f2,f3 = self.face_id(..)*4` not found")
    return table


def _vidx(a, names=("v0", "v1", "v2", "v3")):
    if isinstance(a, ast.Name) and a.id in names: return names.index(a.id)
    raise TranslateError(f"unexpected face vertex {ast.dump(a)[:60]}")


def extract_subface():
    """`for i in range(K): F = C[:i] + C[i+1:]` under `if len(C)==K` -> (K, lean term)"""
    tree, _ = T.load("mouette/mesh/datatypes/volume.py")
    fn = T.find_def(tree, "VolumeMesh._Connectivity._compute_cell_adj")
    for n in ast.walk(fn):
        if isinstance(n, ast.If) and isinstance(n.test, ast.Compare) and isinstance(n.test.ops[0], ast.Eq) \
                and isinstance(n.test.left, ast.Constant) and isinstance(n.test.comparators[0], ast.Call):
            n = ast.If(ast.Compare(n.test.comparators[0], [ast.Eq()], [n.test.left]), n.body, n.orelse)      # `4 == len(C)`
        if isinstance(n, ast.If) and isinstance(n.test, ast.Compare) and isinstance(n.test.ops[0], ast.Eq) \
                and isinstance(n.test.left, ast.Call) and getattr(n.test.left.func, "id", None) == "len" \
                and isinstance(n.test.comparators[0], ast.Constant):
            k = n.test.comparators[0].value
            cvar = n.test.left.args[0].id
            for st in n.body:
                if isinstance(st, ast.For) and isinstance(st.iter, ast.Call) and getattr(st.iter.func, "id", None) == "range" \
                        and len(st.iter.args) == 1 and isinstance(st.iter.args[0], ast.Constant):
                    r = st.iter.args[0].value
                    ivar = st.target.id
                    for a in st.body:      # the first local assigned a sub-list of the cell (whatever its name)
                        if isinstance(a, ast.Assign) and isinstance(a.targets[0], ast.Name) \
                                and isinstance(a.value, (ast.BinOp, ast.ListComp, ast.Subscript)):
                            return k, r, _rename_ci(_slice_expr(a.value, cvar, ivar), cvar, ivar)
    raise TranslateError("`if len(C)==4: for i in range(4): F = C[:i] + C[i+1:]` not found")


def _rename_ci(text, cvar, ivar):
    """the generated definition binds the cell as `C` and the index as `i` whatever the source calls them"""
    import re
    text = re.sub(rf"\b{re.escape(cvar)}\b", "C", text) if cvar != "C" else text
    return re.sub(rf"\b{re.escape(ivar)}\b", "i", text) if ivar != "i" else text


def _slice_expr(node, cvar, ivar):
    # `[C[j] for j in range(K) if j != i]` : the same sub-list written as a comprehension
    if isinstance(node, ast.ListComp) and len(node.generators) == 1:
        g = node.generators[0]
        if (isinstance(node.elt, ast.Subscript) and isinstance(node.elt.value, ast.Name) and node.elt.value.id == cvar
                and isinstance(g.target, ast.Name) and isinstance(node.elt.slice, ast.Name) and node.elt.slice.id == g.target.id
                and isinstance(g.iter, ast.Call) and getattr(g.iter.func, "id", None) == "range" and len(g.iter.args) == 1
                and isinstance(g.iter.args[0], ast.Constant) and len(g.ifs) == 1 and isinstance(g.ifs[0], ast.Compare)
                and isinstance(g.ifs[0].ops[0], ast.NotEq)
                and {getattr(g.ifs[0].left, "id", None), getattr(g.ifs[0].comparators[0], "id", None)} == {g.target.id, ivar}):
            j = g.target.id
            return (f"(((List.range {g.iter.args[0].value}).filter (fun {j} => {j} != {ivar})).map (fun {j} => {cvar}.getD {j} 0))")
    if isinstance(node, ast.BinOp) and isinstance(node.op, ast.Add):
        return f"({_slice_expr(node.left, cvar, ivar)} ++ {_slice_expr(node.right, cvar, ivar)})"
    if isinstance(node, ast.Subscript) and isinstance(node.value, ast.Name) and node.value.id == cvar \
            and isinstance(node.slice, ast.Slice) and node.slice.step is None:
        lo, hi = node.slice.lower, node.slice.upper
        if lo is None and hi is not None:
            return f"({cvar}.take {T.lean_int_expr(hi)})"
        if lo is not None and hi is None:
            return f"({cvar}.drop {T.lean_int_expr(lo)})"
    raise TranslateError(f"unsupported slice expression {ast.dump(node)[:80]}")


def extract_orientation(rel, qual):
    """finds `if det_3x3(pX-pD, pY-pD, pZ-pD) > 0: <append/assign (a,b,c)> else: <(a,c,b)>`.
    Returns (args as index pairs into [A,B,C,D], kept order, flipped order)."""
    tree, _ = T.load(rel)
    fn = T.find_def(tree, qual)
    pts = {"pA": 0, "pB": 1, "pC": 2, "pD": 3}
    for n in ast.walk(fn):
        # `0 < det_3x3(..)` is the same test as `det_3x3(..) > 0`
        if isinstance(n, ast.If) and isinstance(n.test, ast.Compare) and len(n.test.ops) == 1 and isinstance(n.test.ops[0], ast.Lt) \
                and isinstance(n.test.left, ast.Constant) and isinstance(n.test.comparators[0], ast.Call) \
                and getattr(n.test.comparators[0].func, "id", None) == "det_3x3":
            n = ast.If(ast.Compare(n.test.comparators[0], [ast.Gt()], [n.test.left]), n.body, n.orelse)
        if isinstance(n, ast.If) and isinstance(n.test, ast.Compare) and isinstance(n.test.left, ast.Call) \
                and getattr(n.test.left.func, "id", None) == "det_3x3":
            if not (isinstance(n.test.ops[0], ast.Gt) and isinstance(n.test.comparators[0], ast.Constant)
                    and n.test.comparators[0].value == 0):
                raise TranslateError("orientation test is not `det_3x3(..) > 0`")
            args = []
            for a in n.test.left.args:
                if not (isinstance(a, ast.BinOp) and isinstance(a.op, ast.Sub) and isinstance(a.left, ast.Name)
                        and isinstance(a.right, ast.Name) and a.left.id in pts and a.right.id in pts):
                    raise TranslateError("det_3x3 argument is not pX-pY")
                args.append([pts[a.left.id], pts[a.right.id]])
            keep = _first_triple(n.body)
            flip = _first_triple(n.orelse)
            return args, keep, flip
    raise TranslateError(f"orientation test not found in {qual}")


def _first_triple(stmts):
    for st in stmts:
        for n in ast.walk(st):
            if isinstance(n, ast.Tuple) and len(n.elts) == 3 and all(isinstance(e, ast.Name) for e in n.elts):
                ids = [e.id for e in n.elts]
                tab = {"bA": 0, "bB": 1, "bC": 2, "A": 0, "B": 1, "C": 2}
                if all(i in tab for i in ids): return [tab[i] for i in ids]
            # `tuple(map_m2b[v] for v in face)` keeps the face, `... for v in face[::-1]` reverses it
            if isinstance(n, ast.comprehension):
                it = n.iter
                if isinstance(it, ast.Name) and it.id == "face": return [0, 1, 2]
                if (isinstance(it, ast.Subscript) and isinstance(it.value, ast.Name) and it.value.id == "face"
                        and isinstance(it.slice, ast.Slice) and it.slice.lower is None and it.slice.upper is None
                        and isinstance(it.slice.step, ast.UnaryOp) and isinstance(it.slice.step.op, ast.USub)
                        and isinstance(it.slice.step.operand, ast.Constant) and it.slice.step.operand.value == 1):
                    return [2, 1, 0]
    raise TranslateError("no (A,B,C)-triple in orientation branch")


def extract_walk_loops():
    """`_sort_edge_neighborhoods`: per edge, two `while True` walks. For each walk: does its preamble restart from the first
    cell (`iC = self._adjE2C[e][0]`) with `kc = 0`, `kf = 0`; the steps of `kf` / `kc` inside the loop; the stop test
    `nextC is None or nextC in keys_cell`. Any other shape (merged loops, for-loops ...) is refused."""
    tree, _ = T.load("mouette/mesh/datatypes/volume.py")
    fn = T.find_def(tree, "VolumeMesh._Connectivity._sort_edge_neighborhoods")

    class _Aug(ast.NodeTransformer):          # `k = k + 1` is `k += 1`
        def visit_Assign(self, n):
            if len(n.targets) == 1 and isinstance(n.targets[0], ast.Name) and isinstance(n.value, ast.BinOp) \
                    and isinstance(n.value.op, (ast.Add, ast.Sub)) and isinstance(n.value.left, ast.Name) and n.value.left.id == n.targets[0].id:
                return ast.copy_location(ast.AugAssign(n.targets[0], n.value.op, n.value.right), n)
            return n
    fn = ast.fix_missing_locations(_Aug().visit(fn))
    loop = next((n for n in fn.body if isinstance(n, ast.For)), None)
    if loop is None: raise TranslateError("no `for e,(A,B) in enumerate(self.mesh.edges)` loop")
    walks, pre = [], []
    for st in loop.body:
        if isinstance(st, ast.While):
            if not (isinstance(st.test, ast.Constant) and st.test.value is True): raise TranslateError("walk is not `while True`")
            zero, restart = set(), False
            for a in pre:
                if isinstance(a, ast.Assign) and len(a.targets) == 1 and isinstance(a.targets[0], ast.Name):
                    t = a.targets[0].id
                    if isinstance(a.value, ast.Constant) and a.value.value == 0: zero.add(t)
                    v = a.value
                    if t == "iC" and isinstance(v, ast.Subscript) and isinstance(v.value, ast.Subscript) \
                            and _is_self_attr(v.value.value) and v.value.value.attr == "_adjE2C" \
                            and isinstance(v.slice, ast.Constant) and v.slice.value == 0:
                        restart = True
            steps = {}
            stop = False
            for n in ast.walk(st):
                if isinstance(n, ast.AugAssign) and isinstance(n.target, ast.Name) and n.target.id in ("kf", "kc") \
                        and isinstance(n.value, ast.Constant) and n.value.value == 1:
                    steps[n.target.id] = 1 if isinstance(n.op, ast.Add) else -1 if isinstance(n.op, ast.Sub) else None
                if isinstance(n, ast.If) and isinstance(n.test, ast.BoolOp) and isinstance(n.test.op, ast.Or) \
                        and any(isinstance(b, ast.Break) for b in n.body):
                    d = ast.dump(n.test)
                    if "Is()" in d and "In()" in d and "keys_cell" in d: stop = True      # `<next cell> is None or <next cell> in keys_cell`
            if set(steps) != {"kf", "kc"} or None in steps.values() or not stop:
                raise TranslateError("walk body: kf/kc steps or the stop test not recognised")
            walks.append([1 if (restart and {"kc", "kf"} <= zero) else 0, steps["kf"], steps["kc"]])
            pre = []
        else:
            pre.append(st)
    if len(walks) != 2: raise TranslateError(f"{len(walks)} walks found, 2 expected")
    return walks


def extract_edge_map_domain():
    """`_BoundaryConnectivity.__init__`: `for e in self.complete_mesh.<X>: ... self.m2b_edge[e] = be; self.b2m_edge[be] = e`"""
    tree, _ = T.load("mouette/mesh/datatypes/volume.py")
    fn = T.find_def(tree, "VolumeMesh._BoundaryConnectivity.__init__")
    for n in fn.body:
        if isinstance(n, ast.For) and isinstance(n.target, ast.Name) and isinstance(n.iter, ast.Attribute) \
                and isinstance(n.iter.value, ast.Attribute) and _is_self_attr(n.iter.value) and n.iter.value.attr == "complete_mesh":
            stores = [t.value.attr for st in n.body if isinstance(st, ast.Assign) for t in st.targets
                      if isinstance(t, ast.Subscript) and _is_self_attr(t.value)]
            if sorted(stores) != ["b2m_edge", "m2b_edge"]: raise TranslateError(f"edge map loop stores {stores}")
            if any(isinstance(st, (ast.If, ast.Continue)) for st in n.body): raise TranslateError("edge map loop filters its domain")
            return n.iter.attr
    raise TranslateError("`for e in self.complete_mesh.<X>` building m2b_edge / b2m_edge not found")


INSTANCE_STATE_CLASSES = [
    ("mouette/mesh/datatypes/volume.py", "VolumeMesh"), ("mouette/mesh/datatypes/volume.py", "VolumeMesh._Connectivity"),
    ("mouette/mesh/datatypes/volume.py", "VolumeMesh._BoundaryConnectivity"),
    ("mouette/mesh/datatypes/surface.py", "SurfaceMesh._Connectivity"), ("mouette/mesh/datatypes/linear.py", "PolyLine._Connectivity"),
]


def extract_instance_state():
    """No state at class level: the body of each class of the connectivity hierarchy holds only a docstring, methods and
    nested classes (a class-body assignment - `m2b_vertex : dict = dict()` - would be shared by every instance), and the six
    index maps of `_BoundaryConnectivity` are REBOUND on `self` to fresh `dict()`s in `__init__` / `_extract_surface_boundary`
    (not cleared in place). Returns the sorted names of the maps rebound that way."""
    for rel, qual in INSTANCE_STATE_CLASSES:
        tree, _ = T.load(rel)
        cls = T.find_def(tree, qual)
        for st in cls.body:
            if isinstance(st, (ast.FunctionDef, ast.ClassDef, ast.Pass)): continue
            if isinstance(st, ast.Expr) and isinstance(st.value, ast.Constant) and isinstance(st.value.value, str): continue
            names = [getattr(t, "id", "?") for t in (st.targets if isinstance(st, ast.Assign) else [getattr(st, "target", None)]) if t is not None]
            raise TranslateError(f"class-level statement in {qual} (state shared between instances?): {type(st).__name__} {names}")
    tree, _ = T.load("mouette/mesh/datatypes/volume.py")
    cls = T.find_def(tree, "VolumeMesh._BoundaryConnectivity")
    rebound = set()

    def fresh(v):
        return isinstance(v, ast.Call) and getattr(v.func, "id", None) == "dict" and not v.args and not v.keywords
    for fn in cls.body:
        if isinstance(fn, ast.FunctionDef) and fn.name in ("__init__", "_extract_surface_boundary"):
            for n in ast.walk(fn):
                if isinstance(n, ast.Assign) and len(n.targets) == 1:
                    t, v = n.targets[0], n.value
                    pairs = list(zip(t.elts, v.elts)) if isinstance(t, ast.Tuple) and isinstance(v, ast.Tuple) and len(t.elts) == len(v.elts) else [(t, v)]
                    for tt, vv in pairs:
                        if _is_self_attr(tt) and fresh(vv): rebound.add(tt.attr)
    return sorted(rebound)


def extract_completed_tables():
    tree, _ = T.load("mouette/mesh/mesh_data.py")
    out = {}
    for meth in ("_complete_faces_from_cells", "_generate_cell_faces"):
        fn = T.find_def(tree, "RawMeshData." + meth)
        found = None
        for n in ast.walk(fn):
            if isinstance(n, ast.Assign) and isinstance(n.targets[0], ast.Name) and n.targets[0].id == "faces_C" \
                    and isinstance(n.value, ast.List) and len(n.value.elts) == 4:
                found = [[_vidx(a) for a in row.elts] for row in n.value.elts]
        if found is None: raise TranslateError(f"tetra rows of {meth} not found")
        out[meth] = found
    return out


def run():
    sites = []
    parts = {}

    def guards():
        g = extract_guards(); parts["guards"] = guards_to_lean(g)
        return {"caches": len(g["caches"]), "methods": len(g["names"]), "alphabet": [g["names"][i] for i in g["alphabet"]],
                "not_initialised": [c for c in g["caches"] if c not in g["init_attrs"]]}

    def mesh_guards():
        g = extract_guards(MESH_HIER, all_attrs=True, has_clear=False)
        parts["meshGuards"] = guards_to_lean(g, "meshGuards", "mesh")
        return {"attrs": g["caches"], "methods": len(g["names"]), "alphabet": [g["names"][i] for i in g["alphabet"]],
                "not_initialised": [c for c in g["caches"] if c not in g["init_attrs"]]}

    def adj():
        t = extract_adj_table(); parts["adj"] = f"def adjTable : List (List Nat) := {T.lean_nat_table(t)}\n"
        return t

    def sub():
        k, r, e = extract_subface()
        parts["sub"] = (f"def cellAdjLen : Nat := {k}\ndef cellAdjRange : Nat := {r}\n"
                        f"def subFace (C : List Nat) (i : Nat) : List Nat := {e}\n")
        return {"len": k, "range": r, "expr": e}

    def orient(name, rel, qual):
        def f():
            a, k, fl = extract_orientation(rel, qual)
            parts[name] = (f"def {name}Args : List (List Nat) := {T.lean_nat_table(a)}\n"
                           f"def {name}Keep : List Nat := {T.lean_nat_table(k)}\n"
                           f"def {name}Flip : List Nat := {T.lean_nat_table(fl)}\n")
            return {"args": a, "keep": k, "flip": fl}
        return f

    def completed():
        t = extract_completed_tables()
        parts["completed"] = (f"def completedTable : List (List Nat) := {T.lean_nat_table(t['_complete_faces_from_cells'])}\n"
                              f"def cellFacesTable : List (List Nat) := {T.lean_nat_table(t['_generate_cell_faces'])}\n")
        return t

    sites.append(T.site("volume.py+surface.py+linear.py:_Connectivity guard table", guards))
    sites.append(T.site("volume.py:VolumeMesh border/boundary caches guard table", mesh_guards))
    def walks():
        w = extract_walk_loops()
        parts["walks"] = f"def walkLoops : List (List Int) := {T.lean_nat_table(w)}\n"
        return w

    def edgemap():
        x = extract_edge_map_domain()
        parts["edgemap"] = f'def edgeMapDomain : String := "{x}"\n'
        return x

    sites.append(T.site("volume.py:_sort_edge_neighborhoods walk loops (restart, key steps, stop test)", walks))
    sites.append(T.site("volume.py:_BoundaryConnectivity.__init__ edge map domain", edgemap))

    def instance_state():
        r = extract_instance_state()
        parts["inststate"] = "def boundaryMapsRebound : List String := [" + ", ".join('"' + x + '"' for x in r) + "]\n"
        return r

    sites.append(T.site("volume.py/surface.py/linear.py: no class-level state; boundary maps rebound on self", instance_state))
    sites.append(T.site("volume.py:_compute_adjacent_cell face table", adj))
    sites.append(T.site("volume.py:_compute_cell_adj sub-face slice", sub))
    sites.append(T.site("volume.py:_extract_surface_boundary orientation test",
                        orient("bcOrient", "mouette/mesh/datatypes/volume.py", "VolumeMesh._BoundaryConnectivity._extract_surface_boundary")))
    sites.append(T.site("border.py:extract_boundary_of_volume orientation test",
                        orient("sbOrient", "mouette/processing/border.py", "extract_boundary_of_volume")))
    sites.append(T.site("mesh_data.py tetra face tables (read-only)", completed))
    # fall-backs keep the file compiling so that only the theorems about the missing fragment break
    dflt = {
        "guards": ("def volumeGuards : Mouette.VolLazy.Table := ⟨[], [], [], 0, [], 0⟩\n"
                   "def initAttrs : List Nat := []\ndef clearAttrs : List Nat := []\ndef clearId : Nat := 0\n"),
        "meshGuards": ("def meshGuards : Mouette.VolLazy.Table := ⟨[], [], [], 0, [], 0⟩\n"
                       "def meshinitAttrs : List Nat := []\ndef meshclearAttrs : List Nat := []\n"),
        "adj": "def adjTable : List (List Nat) := []\n",
        "walks": "def walkLoops : List (List Int) := []\n",
        "edgemap": 'def edgeMapDomain : String := ""\n',
        "inststate": "def boundaryMapsRebound : List String := []\n",
        "sub": "def cellAdjLen : Nat := 0\ndef cellAdjRange : Nat := 0\ndef subFace (C : List Nat) (i : Nat) : List Nat := []\n",
        "bcOrient": "def bcOrientArgs : List (List Nat) := []\ndef bcOrientKeep : List Nat := []\ndef bcOrientFlip : List Nat := []\n",
        "sbOrient": "def sbOrientArgs : List (List Nat) := []\ndef sbOrientKeep : List Nat := []\ndef sbOrientFlip : List Nat := []\n",
        "completed": "def completedTable : List (List Nat) := []\ndef cellFacesTable : List (List Nat) := []\n",
    }
    body = "namespace Mouette.Generated.C03\nopen Mouette.VolLazy.Ev\n\n"
    for k in ("guards", "meshGuards", "walks", "edgemap", "inststate", "adj", "sub", "bcOrient", "sbOrient", "completed"):
        body += parts.get(k, "-- SITE NOT RECOGNISED\n" + dflt[k]) + "\n"
    body += "end Mouette.Generated.C03\n"
    T.write_generated("C03", body, header="import Mouette.Model.VolLazy\n")
    return sites
