"""C14 — procedural generators give valid meshes of the promised shape, all parameters."""
import ast, math, itertools
from fractions import Fraction

from .. import translate as T
from .. import pyloops as PL

PID = "C14"
TITLE = "Procedural generators give valid meshes of the promised shape, all parameters"
LEAN_MODULES = ["Mouette.Props.C14"]

# ------------------------------------------------------------------------------------------------
# translated fragments
# ------------------------------------------------------------------------------------------------
# (file, function, container variable, int params, bool params)
PARAMETRIC = [
    ("mouette/procedural/flat.py", "unit_grid", "out", ["nu", "nv"], ["triangulate", "generate_uvs"]),
    ("mouette/procedural/flat.py", "unit_triangle", "out", ["nu", "nv"], ["generate_uvs"]),
    ("mouette/procedural/shapes.py", "torus", "out", ["major_segments", "minor_segments"], ["triangulate"]),
    ("mouette/procedural/shapes.py", "sphere_uv", "sp", ["n_lat", "n_long"], []),
    ("mouette/procedural/shapes.py", "cylinder", "cy", ["N"], ["fill_caps"]),
    ("mouette/procedural/rings.py", "ring", "ring", ["N", "n_cover"], ["open"]),
    ("mouette/procedural/rings.py", "flat_ring", "ring", ["N", "n_cover"], []),
]
TABLES = [
    ("mouette/procedural/shapes.py", "tetrahedron", "tet"),
    ("mouette/procedural/shapes.py", "icosahedron", "m"),
    ("mouette/procedural/flat.py", "triangle", "out"),
]
LEAN_KEYWORDS = {"open": "isOpen"}


def _rn(n):
    return LEAN_KEYWORDS.get(n, n)


def _rename(fn, mapping):
    class R(ast.NodeTransformer):
        def visit_Name(self, node):
            if node.id in mapping: node.id = mapping[node.id]
            return node
    return R().visit(fn)


def _sig(ints, bools):
    s = ""
    if ints: s += " (" + " ".join(_rn(i) for i in ints) + " : Nat)"
    if bools: s += " (" + " ".join(_rn(b) for b in bools) + " : Bool)"
    return s


def _translate_parametric(path, fname, var, ints, bools):
    tree, _ = T.load(path)
    fn = _rename(T.find_def(tree, fname), LEAN_KEYWORDS)
    ints_l, bools_l = [_rn(i) for i in ints], [_rn(b) for b in bools]
    cxv = PL.Ctx(var, "vertices", ints_l, bools_l, elem="unit")
    nverts = PL.emits(list(fn.body), cxv)
    args = " ".join(ints_l + bools_l)
    cxf = PL.Ctx(var, "faces", ints_l, bools_l, nverts_expr=f"{fname}NVerts {args}", elem="face")
    faces = PL.emits(list(fn.body), cxf)
    sig = _sig(ints, bools)
    return (f"/-- number of `vertices.append` executions of `{fname}` ({path}) -/\n"
            f"def {fname}NVerts{sig} : Nat :=\n  (({nverts} : List Unit)).length\n\n"
            f"/-- faces appended by `{fname}` ({path}), in order -/\n"
            f"def {fname}Faces{sig} : List (List Nat) :=\n  {faces}\n\n")


def _collect_tables(fn, var):
    """all literal lists of int tuples appended to <var>.faces, keyed by the chain of enclosing `if` tests"""
    out = []

    def walk(stmts, path):
        for s in stmts:
            if isinstance(s, ast.If):
                t = ast.unparse(s.test)
                walk(s.body, path + [t]); walk(s.orelse, path + ["not " + t])
            elif isinstance(s, ast.AugAssign) and isinstance(s.target, ast.Attribute) and s.target.attr == "faces" \
                    and isinstance(s.target.value, ast.Name) and s.target.value.id == var:
                out.append((path, T.int_literal_table(s.value)))
            elif isinstance(s, ast.Expr) and isinstance(s.value, ast.Call) and isinstance(s.value.func, ast.Attribute) \
                    and s.value.func.attr == "append" and isinstance(s.value.func.value, ast.Attribute) \
                    and s.value.func.value.attr == "faces" and s.value.func.value.value.id == var:
                out.append((path, [T.int_literal_table(s.value.args[0])]))
    walk(fn.body, [])
    return out


def _nverts_literal(fn, var):
    """vertex count of a table generator: length of the single list literal added to <var>.vertices"""
    for s in ast.walk(fn):
        if isinstance(s, ast.AugAssign) and isinstance(s.target, ast.Attribute) and s.target.attr == "vertices":
            v = s.value
            if isinstance(v, ast.List): return len(v.elts)
            if isinstance(v, ast.ListComp) and isinstance(v.generators[0].iter, ast.List): return len(v.generators[0].iter.elts)
    raise T.TranslateError("vertex list literal not found")


def translate():
    sites, body = [], ""

    def add(name, fn):
        nonlocal body
        def run():
            nonlocal body
            txt = fn()
            body += txt
            return f"{len(txt)} chars"
        sites.append(T.site(name, run))

    for path, fname, var, ints, bools in PARAMETRIC:
        add(f"{path}:{fname} (loop nest -> functional term)", lambda p=path, f=fname, v=var, i=ints, b=bools: _translate_parametric(p, f, v, i, b))
    for path, fname, var in TABLES:
        def tab(p=path, f=fname, v=var):
            tree, _ = T.load(p)
            fn = T.find_def(tree, f)
            tabs = _collect_tables(fn, v)
            if len(tabs) != 1: raise T.TranslateError(f"expected one face table in {f}, found {len(tabs)}")
            return (f"def {f}NVerts : Nat := {_nverts_literal(fn, v)}\n"
                    f"def {f}Faces : List (List Nat) := {T.lean_nat_table(tabs[0][1])}\n\n")
        add(f"{path}:{fname} (literal face table)", tab)

    def hexa():
        tree, _ = T.load("mouette/procedural/shapes.py")
        fn = T.find_def(tree, "hexahedron")
        tabs = _collect_tables(fn, "hexa")
        named = {}
        for pth, t in tabs:
            key = "Tri" if "triangulate" in pth else ("Quad" if "not triangulate" in pth else None)
            if key: named[key] = t
        if set(named) != {"Tri", "Quad"}: raise T.TranslateError(f"hexahedron tables not found: {[p for p, _ in tabs]}")
        return (f"def hexahedronNVerts : Nat := {_nverts_literal(fn, 'hexa')}\n"
                f"def hexahedronFacesTri : List (List Nat) := {T.lean_nat_table(named['Tri'])}\n"
                f"def hexahedronFacesQuad : List (List Nat) := {T.lean_nat_table(named['Quad'])}\n\n")
    add("mouette/procedural/shapes.py:hexahedron (two literal face tables)", hexa)

    def quad():
        tree, _ = T.load("mouette/procedural/flat.py")
        fn = T.find_def(tree, "quad")
        tabs = _collect_tables(fn, "out")
        named = {("Tri" if "triangulate" in p else "Quad"): t for p, t in tabs}
        if set(named) != {"Tri", "Quad"}: raise T.TranslateError("quad tables not found")
        return (f"def quadNVerts : Nat := {_nverts_literal(fn, 'out')}\n"
                f"def quadFacesTri : List (List Nat) := {T.lean_nat_table(named['Tri'])}\n"
                f"def quadFacesQuad : List (List Nat) := {T.lean_nat_table(named['Quad'])}\n\n")
    add("mouette/procedural/flat.py:quad (two literal face tables)", quad)

    def binding():
        """which parameter of hexahedron() each switch of hexahedron_4pts() reaches"""
        tree, _ = T.load("mouette/procedural/shapes.py")
        callee = T.find_def(tree, "hexahedron")
        caller = T.find_def(tree, "hexahedron_4pts")
        params = [a.arg for a in callee.args.args]
        calls = [n for n in ast.walk(caller) if isinstance(n, ast.Call) and isinstance(n.func, ast.Name) and n.func.id == "hexahedron"]
        if len(calls) != 1: raise T.TranslateError("call to hexahedron not found in hexahedron_4pts")
        c = calls[0]
        bind = []
        for i, a in enumerate(c.args):
            if isinstance(a, ast.Name) and a.id in ("colored", "volume", "triangulate"):
                bind.append((a.id, params[i]))
        for kw in c.keywords:
            if isinstance(kw.value, ast.Name) and kw.value.id in ("colored", "volume", "triangulate"):
                bind.append((kw.value.id, kw.arg))
        rows = ", ".join(f'("{a}", "{b}")' for a, b in sorted(bind))
        return f"/-- (switch of hexahedron_4pts, parameter of hexahedron it is bound to) -/\ndef hexa4ptsBinding : List (String × String) := [{rows}]\n\n"
    add("mouette/procedural/shapes.py:hexahedron_4pts (argument binding of the forwarded switches)", binding)

    T.write_generated("C14", body + "end Mouette.Generated.C14\n", header="namespace Mouette.Generated.C14\n\n")
    return sites
