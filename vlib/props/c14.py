"""C14 — procedural generators give valid meshes of the promised shape, all parameters."""
import ast, math, itertools, os, sys
from fractions import Fraction

from .. import translate as T
from .. import pyloops as PL
from .. import pyverts as PV
from ..gen import c14solids as SOL

PID = "C14"
TITLE = "Procedural generators give valid meshes of the promised shape, all parameters"
LEAN_MODULES = ["Mouette.Props.C14", "Mouette.Props.C14NoUnused", "Mouette.Props.C14Oriented", "Mouette.Props.C14Sphere", "Mouette.Props.C14Cylinder", "Mouette.Props.C14Rings", "Mouette.Props.C14Triangle", "Mouette.Props.C14Geom",
                "Mouette.Props.C14Euler", "Mouette.Props.C14CylinderTopo", "Mouette.Props.C14RingsTopo", "Mouette.Props.C14GridTopo",
                "Mouette.Props.C14TriangleTopo", "Mouette.Props.C14Connected", "Mouette.Props.C14Verts", "Mouette.Props.C14Derived", "Mouette.Props.C14Bisect",
                "Mouette.Props.C14Solids", "Mouette.Props.C14NoRepeat", "Mouette.Props.C14Distinct", "Mouette.Props.C14Dual", "Mouette.Props.C14BisectReal"]

# ------------------------------------------------------------------------------------------------
# translated fragments
# ------------------------------------------------------------------------------------------------
# (file, function, container variable, int params, bool params)
PARAMETRIC = [
    ("mouette/procedural/flat.py", "unit_grid", "out", ["nu", "nv"], ["triangulate", "generate_uvs"]),
    ("mouette/procedural/flat.py", "unit_triangle", "out", ["nu", "nv"], ["generate_uvs"]),
    ("mouette/procedural/shapes.py", "torus", "out", ["major_segments", "minor_segments"], ["triangulate"]),
    ("mouette/procedural/shapes.py", "sphere_uv", "sp", ["n_lat", "n_long"], []),
    ("mouette/procedural/shapes.py", "cylinder", "cy", ["N"], ["fill_caps"]),
    ("mouette/procedural/rings.py", "ring", "ring", ["N", "n_cover"], ["open"]),
    ("mouette/procedural/rings.py", "flat_ring", "ring", ["N", "n_cover"], []),
]
TABLES = [
    ("mouette/procedural/shapes.py", "tetrahedron", "tet"),
    ("mouette/procedural/shapes.py", "icosahedron", "m"),
    ("mouette/procedural/flat.py", "triangle", "out"),
]
LEAN_KEYWORDS = {"open": "isOpen"}
# vertex-emitting code: (file, function, container, int params, bool params, scalar params, vector params)
VERTEX_SITES = [
    ("mouette/procedural/flat.py", "unit_grid", "out", ["nu", "nv"], ["triangulate", "generate_uvs"], [], []),
    ("mouette/procedural/flat.py", "unit_triangle", "out", ["nu", "nv"], ["generate_uvs"], [], []),
    ("mouette/procedural/shapes.py", "torus", "out", ["major_segments", "minor_segments"], ["triangulate"], ["major_radius", "minor_radius"], []),
    ("mouette/procedural/shapes.py", "sphere_uv", "sp", ["n_lat", "n_long"], [], ["radius"], ["center"]),
    ("mouette/procedural/shapes.py", "cylinder", "cy", ["N"], ["fill_caps"], ["radius"], ["P1", "P2"]),
    ("mouette/procedural/rings.py", "ring", "ring", ["N", "n_cover"], ["open"], ["defect"], []),
    ("mouette/procedural/rings.py", "flat_ring", "ring", ["N", "n_cover"], [], ["defect"], []),
]
HELPER_SITES = [("mouette/geometry/rotations.py", "rotate_2d", [("v", "vc"), ("angle", "sc")]),
                ("mouette/geometry/rotations.py", "rotate_around_axis", [("inp", "vc"), ("_axis", "vc"), ("angle", "sc")])]
_VERT = {}          # generator -> (evaluate(values) -> list of points, Exec)  — filled by translate()


def _rn(n):
    return LEAN_KEYWORDS.get(n, n)


def _rename(fn, mapping):
    class R(ast.NodeTransformer):
        def visit_Name(self, node):
            if node.id in mapping: node.id = mapping[node.id]
            return node
    return R().visit(fn)


def _sig(ints, bools):
    s = ""
    if ints: s += " (" + " ".join(_rn(i) for i in ints) + " : Nat)"
    if bools: s += " (" + " ".join(_rn(b) for b in bools) + " : Bool)"
    return s


def _translate_parametric(path, fname, var, ints, bools):
    tree, _ = T.load(path)
    var = LEAN_KEYWORDS.get(SOL.container_of(T.find_def(tree, fname)), SOL.container_of(T.find_def(tree, fname)))
    fn = _rename(T.find_def(tree, fname), LEAN_KEYWORDS)
    ints_l, bools_l = [_rn(i) for i in ints], [_rn(b) for b in bools]
    cxv = PL.Ctx(var, "vertices", ints_l, bools_l, elem="unit")
    nverts = PL.emits(list(fn.body), cxv)
    args = " ".join(ints_l + bools_l)
    cxf = PL.Ctx(var, "faces", ints_l, bools_l, nverts_expr=f"{fname}NVerts {args}", elem="face")
    faces = PL.emits(list(fn.body), cxf)
    sig = _sig(ints, bools)
    return (f"/-- number of `vertices.append` executions of `{fname}` ({path}) -/\n"
            f"def {fname}NVerts{sig} : Nat :=\n  (({nverts} : List Unit)).length\n\n"
            f"/-- faces appended by `{fname}` ({path}), in order -/\n"
            f"def {fname}Faces{sig} : List (List Nat) :=\n  {faces}\n\n")


def _collect_tables(fn, var):
    """all literal lists of int tuples appended to <var>.faces, keyed by the chain of enclosing `if` tests"""
    out = []

    def walk(stmts, path):
        for s in stmts:
            if isinstance(s, ast.If):
                t = ast.unparse(s.test)
                walk(s.body, path + [t]); walk(s.orelse, path + ["not " + t])
            elif isinstance(s, ast.AugAssign) and isinstance(s.target, ast.Attribute) and s.target.attr == "faces" \
                    and isinstance(s.target.value, ast.Name) and s.target.value.id == var:
                out.append((path, T.int_literal_table(s.value)))
            elif isinstance(s, ast.Expr) and isinstance(s.value, ast.Call) and isinstance(s.value.func, ast.Attribute) \
                    and s.value.func.attr == "append" and isinstance(s.value.func.value, ast.Attribute) \
                    and s.value.func.value.attr == "faces" and s.value.func.value.value.id == var:
                out.append((path, [T.int_literal_table(s.value.args[0])]))
    walk(fn.body, [])
    return out


def _nverts_literal(fn, var):
    """vertex count of a table generator: length of the single list literal added to <var>.vertices"""
    for s in ast.walk(fn):
        if isinstance(s, ast.AugAssign) and isinstance(s.target, ast.Attribute) and s.target.attr == "vertices":
            v = s.value
            if isinstance(v, ast.List): return len(v.elts)
            if isinstance(v, ast.ListComp) and isinstance(v.generators[0].iter, ast.List): return len(v.generators[0].iter.elts)
    raise T.TranslateError("vertex list literal not found")


def translate():
    sites, body = [], ""

    def add(name, fn):
        nonlocal body
        def run():
            nonlocal body
            txt = fn()
            body += txt
            return f"{len(txt)} chars"
        sites.append(T.site(name, run))

    for path, fname, var, ints, bools in PARAMETRIC:
        add(f"{path}:{fname} (loop nest -> functional term)", lambda p=path, f=fname, v=var, i=ints, b=bools: _translate_parametric(p, f, v, i, b))
    for path, fname, var in TABLES:
        def tab(p=path, f=fname, v=var):
            tree, _ = T.load(p)
            fn = T.find_def(tree, f)
            v = SOL.container_of(fn)
            tabs = _collect_tables(fn, v)
            if len(tabs) != 1: raise T.TranslateError(f"expected one face table in {f}, found {len(tabs)}")
            return (f"def {f}NVerts : Nat := {_nverts_literal(fn, v)}\n"
                    f"def {f}Faces : List (List Nat) := {T.lean_nat_table(tabs[0][1])}\n\n")
        add(f"{path}:{fname} (literal face table)", tab)

    def hexa():
        tree, _ = T.load("mouette/procedural/shapes.py")
        fn = T.find_def(tree, "hexahedron")
        hv = SOL.container_of(fn)
        tabs = _collect_tables(fn, hv)
        named = {}
        for pth, t in tabs:
            key = "Tri" if "triangulate" in pth else ("Quad" if "not triangulate" in pth else None)
            if key: named[key] = t
        if set(named) != {"Tri", "Quad"}: raise T.TranslateError(f"hexahedron tables not found: {[p for p, _ in tabs]}")
        return (f"def hexahedronNVerts : Nat := {_nverts_literal(fn, hv)}\n"
                f"def hexahedronFacesTri : List (List Nat) := {T.lean_nat_table(named['Tri'])}\n"
                f"def hexahedronFacesQuad : List (List Nat) := {T.lean_nat_table(named['Quad'])}\n\n")
    add("mouette/procedural/shapes.py:hexahedron (two literal face tables)", hexa)

    def quad():
        tree, _ = T.load("mouette/procedural/flat.py")
        fn = T.find_def(tree, "quad")
        qv = SOL.container_of(fn)
        tabs = _collect_tables(fn, qv)
        named = {("Tri" if "triangulate" in p else "Quad"): t for p, t in tabs}
        if set(named) != {"Tri", "Quad"}: raise T.TranslateError("quad tables not found")
        return (f"def quadNVerts : Nat := {_nverts_literal(fn, qv)}\n"
                f"def quadFacesTri : List (List Nat) := {T.lean_nat_table(named['Tri'])}\n"
                f"def quadFacesQuad : List (List Nat) := {T.lean_nat_table(named['Quad'])}\n\n")
    add("mouette/procedural/flat.py:quad (two literal face tables)", quad)

    def binding():
        """which parameter of hexahedron() each switch of hexahedron_4pts() reaches"""
        tree, _ = T.load("mouette/procedural/shapes.py")
        callee = T.find_def(tree, "hexahedron")
        caller = T.find_def(tree, "hexahedron_4pts")
        params = [a.arg for a in callee.args.args]
        calls = [n for n in ast.walk(caller) if isinstance(n, ast.Call) and isinstance(n.func, ast.Name) and n.func.id == "hexahedron"]
        if len(calls) != 1: raise T.TranslateError("call to hexahedron not found in hexahedron_4pts")
        c = calls[0]
        bind = []
        for i, a in enumerate(c.args):
            if isinstance(a, ast.Name) and a.id in ("colored", "volume", "triangulate"):
                bind.append((a.id, params[i]))
        for kw in c.keywords:
            if isinstance(kw.value, ast.Name) and kw.value.id in ("colored", "volume", "triangulate"):
                bind.append((kw.value.id, kw.arg))
        rows = ", ".join(f'("{a}", "{b}")' for a, b in sorted(bind))
        return f"/-- (switch of hexahedron_4pts, parameter of hexahedron it is bound to) -/\ndef hexa4ptsBinding : List (String × String) := [{rows}]\n\n"
    add("mouette/procedural/shapes.py:hexahedron_4pts (argument binding of the forwarded switches)", binding)

    add("mouette/procedural/dual.py:dual_mesh (one vertex per face, one face per vertex) + octahedron / dodecahedron (what they are the dual of)", _translate_dual)
    add("mouette/procedural/polylines.py:chain_of_vertices + mouette/utils/iterators.py (edge list)", _translate_chain)
    add("mouette/procedural/polylines.py:vector_field (edge list)", _translate_vector_field)
    T.write_generated("C14", body + "end Mouette.Generated.C14\n", header="set_option linter.unusedVariables false\nnamespace Mouette.Generated.C14\n\n")

    # ---- vertex positions: expressions over a field with abstract cos / sin / pi (Generated/C14Verts.lean) ----------------
    vbody = ""
    helpers = {}
    _VERT.clear()

    def addv(name, fn):
        nonlocal vbody
        def run():
            nonlocal vbody
            txt = fn()
            vbody += txt
            return f"{len(txt)} chars"
        sites.append(T.site(name, run))

    for path, fname, params in HELPER_SITES:
        def hlp(p=path, f=fname, ps=params):
            tree, _ = T.load(p)
            h, txt = PV.translate_helper(T.find_def(tree, f), ps, helpers)
            helpers[f] = h
            return txt
        addv(f"{path}:{fname} (helper -> expression over a field)", hlp)
    for path, fname, var, ints, bools, scs, vecs in VERTEX_SITES:
        def vt(p=path, f=fname, v=var, i=ints, b=bools, sc=scs, ve=vecs):
            tree, _ = T.load(p)
            txt, ev, ex = PV.translate_generator(T.find_def(tree, f), f, SOL.container_of(T.find_def(tree, f)), i, b, sc, ve, helpers)
            _VERT[f] = (ev, ex)
            return txt
        addv(f"{path}:{fname} (vertex loop -> positions over a field with abstract cos/sin)", vt)
    addv("mouette/procedural/shapes.py:icosphere (projection of every vertex on the sphere)", _translate_icosphere_projection)
    addv("mouette/procedural/rings.py:ring (bisection on the apex height: initial bracket, one pass of the while loop with numpy aliasing semantics, returned apex)", _translate_ring_bisection)
    T.write_generated("C14Verts", vbody + "end Mouette.Generated.C14Verts\n",
                      header="import Mathlib.Algebra.Field.Basic\nimport Mathlib.Algebra.Order.Field.Basic\nset_option linter.unusedVariables false\n"
                             "namespace Mouette.Generated.C14Verts\nvariable {K : Type} [Field K] [LinearOrder K]\n\n")
    # ---- round 4: whole bodies of the generators that are not loop nests (Generated/C14Solids.lean, C14SolidsGeom.lean) ------
    sites += SOL.translate(T.site)
    return sites


def _translate_dual():
    """dual_mesh: `for F in mesh.id_faces: out.vertices.append(..)` / `for V in mesh.id_vertices: out.faces.append(..)` -> counts;
    octahedron() / dodecahedron(): which generator they take the dual of (and that axis_aligned_cube() yields the quad table)"""
    tree, _ = T.load("mouette/procedural/dual.py")
    fn = T.find_def(tree, "dual_mesh")

    class R(ast.NodeTransformer):
        def visit_Attribute(self, node):
            if isinstance(node.value, ast.Name) and node.value.id == "mesh" and node.attr in ("id_faces", "id_vertices"):
                return ast.Call(func=ast.Name(id="range", ctx=ast.Load()),
                                args=[ast.Name(id="nF" if node.attr == "id_faces" else "nV", ctx=ast.Load())], keywords=[])
            return self.generic_visit(node)
    body = [R().visit(st) for st in fn.body]
    dvar = SOL.container_of(fn)          # the RawMeshData local may have any name
    nv = PL.emits(list(body), PL.Ctx(dvar, "vertices", ["nF", "nV"], [], elem="unit"))
    nf = PL.emits(list(body), PL.Ctx(dvar, "faces", ["nF", "nV"], [], elem="unit"))
    stree, _ = T.load("mouette/procedural/shapes.py")

    def dual_of(name):
        f = T.find_def(stree, name)
        rets = [st for st in f.body if isinstance(st, ast.Return)]
        if len(rets) != 1: raise T.TranslateError(f"{name}: single return expected")
        c = rets[0].value
        if not (isinstance(c, ast.Call) and getattr(c.func, "id", None) == "dual_mesh" and len(c.args) == 1 and not c.keywords
                and isinstance(c.args[0], ast.Call) and not c.args[0].args and not c.args[0].keywords):
            raise T.TranslateError(f"{name}: not `return dual_mesh(<generator>())`")
        return c.args[0].func.id
    cube = T.find_def(stree, "axis_aligned_cube")
    defaults = dict(zip([a.arg for a in cube.args.args][-len(cube.args.defaults):], [ast.unparse(d) for d in cube.args.defaults]))
    ret = [st for st in cube.body if isinstance(st, ast.Return)][0].value
    # keyword or positional: resolved against the signature of hexahedron()
    _, kwb = SOL.call_binding(cube, "hexahedron", T.find_def(stree, "hexahedron"))
    kw = {k: ast.unparse(v) for k, v in kwb.items()}
    if getattr(ret.func, "id", None) != "hexahedron" or kw.get("triangulate") != "triangulate" or defaults.get("triangulate") != "False" \
            or "volume" in kw:
        raise T.TranslateError("axis_aligned_cube() is no longer the quad hexahedron by default")
    return (f"/-- `dual_mesh` of a surface with nF faces and nV vertices: number of `vertices.append` / `faces.append` executions -/\n"
            f"def dualNVerts (nF nV : Nat) : Nat := (({nv} : List Unit)).length\n"
            f"def dualNFaces (nF nV : Nat) : Nat := (({nf} : List Unit)).length\n"
            f"/-- octahedron() = dual_mesh(<this>()), dodecahedron() = dual_mesh(<this>()); axis_aligned_cube() = quad hexahedron -/\n"
            f"def octahedronDualOf : String := \"{dual_of('octahedron')}\"\ndef dodecahedronDualOf : String := \"{dual_of('dodecahedron')}\"\n\n")


def _translate_icosphere_projection():
    """every `<mesh>.vertices[iv] = center + radius*Vec.normalized(<mesh>.vertices[iv]-center)` of icosphere -> expression of (center, radius, v)"""
    tree, _ = T.load("mouette/procedural/shapes.py")
    fn = T.find_def(tree, "icosphere")
    sites = [st for st in ast.walk(fn) if isinstance(st, ast.Assign) and len(st.targets) == 1 and isinstance(st.targets[0], ast.Subscript)
             and isinstance(st.targets[0].value, ast.Attribute) and st.targets[0].value.attr == "vertices"]
    if len(sites) != 2: raise T.TranslateError(f"icosphere: two projection statements expected, found {len(sites)}")
    # every vertex must be projected: each site sits directly in a loop over all vertex ids of the same mesh
    out = ""
    for k, st in enumerate(sites):
        tgt = ast.unparse(st.targets[0])
        loops = [l for l in ast.walk(fn) if isinstance(l, ast.For) and st in l.body]
        if len(loops) != 1 or ast.unparse(loops[0].iter) != ast.unparse(st.targets[0].value.value) + ".id_vertices" \
                or ast.unparse(loops[0].target) != ast.unparse(st.targets[0].slice):
            raise T.TranslateError("icosphere: projection is not applied to every vertex id")

        class R(ast.NodeTransformer):
            def visit_Subscript(self, node):
                if ast.unparse(node) == tgt: return ast.Name(id="v", ctx=ast.Load())
                return self.generic_visit(node)
        ex = PV.Exec(None, [], [], ["radius"], ["center", "v"], {}, owner="icosphere")
        kind, val = ex.val(R().visit(st.value))
        if kind != "vc": raise T.TranslateError("icosphere: projection is not a vector")
        out += (f"/-- projection statement {k} of `icosphere`: new position of a vertex at `v` -/\n"
                f"def icosphereProject{k} (normalize : K × K × K → K × K × K) (radius : K) (center v : K × K × K) : K × K × K :=\n"
                f"  {PV.L_vec(val)}\n\n")
    # the last statement executed on the returned mesh's vertices is a projection: after the final subdivision round
    return out


_BISECT = {}


def _translate_ring_bisection():
    """the dichotomy of `ring`: `P1 = …; P2 = …` before the loop, the loop body as a step function on (P1, P2) — executed with
    the aliasing semantics of numpy arrays: `a = b` binds the same object, `a *= k` updates it in place for every name bound to
    it — and the final `ring.vertices[0] = …`"""
    tree, _ = T.load("mouette/procedural/rings.py")
    fn = T.find_def(tree, "ring")
    txt, ev = PV.translate_while_step(fn, "ringBisectStep", ["P1", "P2"], ["N"], ["defect"], ["A", "B"], {"angle_3pts": 3},
                                      skip_targets=("stop",))
    _BISECT["step"] = ev
    loop = [st for st in fn.body if isinstance(st, ast.While)][0]
    # stop criterion: `stop = (abs(dfct1 - dfct2) < <threshold>)` with `while not stop`
    stops = [st for st in loop.body if isinstance(st, ast.Assign) and ast.unparse(st.targets[0]) == "stop"]
    if ast.unparse(loop.test) != "not stop" or len(stops) != 1 or not (isinstance(stops[0].value, ast.Compare)
            and ast.unparse(stops[0].value.left) == "abs(dfct1 - dfct2)" and isinstance(stops[0].value.ops[0], ast.Lt)
            and isinstance(stops[0].value.comparators[0], ast.Constant)):
        raise T.TranslateError("ring: stop criterion is not `abs(dfct1 - dfct2) < threshold`")
    thr = Fraction(repr(stops[0].value.comparators[0].value))
    idx = fn.body.index(loop)
    ex = PV.Exec(None, ["N", "n_cover"], [], [], [], {}, owner="ring")
    init = {}
    for st in fn.body[:idx]:
        if isinstance(st, ast.Assign) and isinstance(st.targets[0], ast.Name) and st.targets[0].id in ("P1", "P2"):
            k, v = ex.val(st.value)
            init[st.targets[0].id] = v
    if set(init) != {"P1", "P2"}: raise T.TranslateError("ring: initial bracket not found")
    fin = [st for st in fn.body[idx + 1:] if isinstance(st, ast.Assign) and ast.unparse(st.targets[0]) == "ring.vertices[0]"]
    if len(fin) != 1: raise T.TranslateError("ring: `ring.vertices[0] = …` after the loop not found")
    ex2 = PV.Exec(None, [], [], [], ["P1", "P2"], {}, owner="ring")
    k, apex = ex2.val(fin[0].value)
    # A, B: the two rim vertices the angle is measured between
    ab = {ast.unparse(st.targets[0]): ast.unparse(st.value) for st in fn.body[:idx] if isinstance(st, ast.Assign) and ast.unparse(st.targets[0]) in ("A", "B")}
    if ab != {"A": "ring.vertices[1]", "B": "ring.vertices[2]"}: raise T.TranslateError("ring: A, B are not rim vertices 1 and 2")
    txt += (f"/-- initial bracket of the bisection -/\ndef ringBisectInit : (K × K × K) × (K × K × K) := ({PV.L_vec(init['P1'])}, {PV.L_vec(init['P2'])})\n"
            f"/-- the apex stored in vertex 0 once the loop has stopped -/\ndef ringApex (P1 P2 : K × K × K) : K × K × K := {PV.L_vec(apex)}\n"
            f"/-- the loop stops when |dfct(P1) − dfct(P2)| is below this threshold -/\ndef ringStopThreshold : K := {PV.L_sc(('num', thr))}\n\n")
    return txt


def _pairs_of_iterator(fname):
    """`def f(L): [n = len(L)]; for i in range(<len>): yield L[a], L[b]` applied to L = range(n) -> (count expr, a, b) as Lean strings"""
    tree, _ = T.load("mouette/utils/iterators.py")
    fn = T.find_def(tree, fname)
    body = [st for st in fn.body if not (isinstance(st, ast.Expr) and isinstance(st.value, ast.Constant))]
    lenname = None
    if len(body) == 2 and isinstance(body[0], ast.Assign) and ast.unparse(body[0].value) == "len(L)":
        lenname = body[0].targets[0].id; body = body[1:]
    if len(body) != 1 or not isinstance(body[0], ast.For): raise T.TranslateError(f"{fname}: unexpected shape")
    loop = body[0]
    if not (isinstance(loop.iter, ast.Call) and getattr(loop.iter.func, "id", None) == "range" and len(loop.iter.args) == 1):
        raise T.TranslateError(f"{fname}: loop is not a plain range")

    class R(ast.NodeTransformer):          # len(L) -> n ; L[e] -> e   (L = range(n))
        def visit_Call(self, node):
            if ast.unparse(node) == "len(L)": return ast.Name(id="n", ctx=ast.Load())
            return self.generic_visit(node)

        def visit_Subscript(self, node):
            if isinstance(node.value, ast.Name) and node.value.id == "L": return self.visit(node.slice)
            return self.generic_visit(node)

        def visit_Name(self, node):
            if lenname and node.id == lenname: return ast.Name(id="n", ctx=ast.Load())
            return node
    cx = PL.Ctx("", "", ["n", loop.target.id], [])
    count = PL.iexpr(R().visit(loop.iter.args[0]), cx)
    if not (len(loop.body) == 1 and isinstance(loop.body[0], ast.Expr) and isinstance(loop.body[0].value, ast.Yield)
            and isinstance(loop.body[0].value.value, ast.Tuple) and len(loop.body[0].value.value.elts) == 2):
        raise T.TranslateError(f"{fname}: body is not `yield a, b`")
    a, b = (PL.iexpr(R().visit(e), cx) for e in loop.body[0].value.value.elts)
    return f"((List.range {count}).flatMap (fun {loop.target.id} => [({a}, {b})]))"


def _translate_chain():
    tree, _ = T.load("mouette/procedural/polylines.py")
    fn = T.find_def(tree, "chain_of_vertices")
    ifs = [st for st in fn.body if isinstance(st, ast.If)]
    if len(ifs) != 1 or ast.unparse(ifs[0].test) != "loop": raise T.TranslateError("chain_of_vertices: `if loop:` not found")

    def branch(stmts):
        if len(stmts) != 1 or not isinstance(stmts[0], ast.AugAssign) or ast.unparse(stmts[0].target) != "pl.edges":
            raise T.TranslateError("chain_of_vertices: branch is not `pl.edges += …`")
        v = stmts[0].value
        if not (isinstance(v, ast.ListComp) and isinstance(v.elt, ast.Name) and v.elt.id == v.generators[0].target.id
                and not v.generators[0].ifs):
            raise T.TranslateError("chain_of_vertices: not a plain list comprehension")
        call = v.generators[0].iter
        if not (isinstance(call, ast.Call) and isinstance(call.func, ast.Attribute) and ast.unparse(call.args[0]) == "range(n)"):
            raise T.TranslateError("chain_of_vertices: iterator is not applied to range(n)")
        return _pairs_of_iterator(call.func.attr)
    return ("/-- edges added by `chain_of_vertices` over n vertices (polylines.py + the pair iterators of utils/iterators.py) -/\n"
            f"def chainEdges (n : Nat) (loop : Bool) : List (Nat × Nat) :=\n  if loop = true then {branch(ifs[0].body)} else {branch(ifs[0].orelse)}\n\n")


def _translate_vector_field():
    tree, _ = T.load("mouette/procedural/polylines.py")
    fn = T.find_def(tree, "vector_field")
    loops = [st for st in fn.body if isinstance(st, ast.For)]
    if len(loops) != 1: raise T.TranslateError("vector_field: one loop expected")
    pvar = SOL.container_of(fn)
    cxe = PL.Ctx(pvar, "edges", ["n"], [], elem="face")
    edges = PL.emits(loops, cxe)
    # vertices are added two at a time by `pl.vertices += [a, b]`
    nv = sum(len(st.value.elts) for st in loops[0].body if isinstance(st, ast.AugAssign) and ast.unparse(st.target) == pvar + ".vertices"
             and isinstance(st.value, ast.List))
    return ("/-- edges added by `vector_field` for n origins (as two-element lists), and vertices added per origin -/\n"
            f"def vectorFieldEdges (n : Nat) : List (List Nat) :=\n  {edges}\ndef vectorFieldVertsPer : Nat := {nv}\n\n")


# ------------------------------------------------------------------------------------------------
# cases
# ------------------------------------------------------------------------------------------------
MODELLED = {"unit_grid": (2, 2), "unit_triangle": (2, 1), "torus": (2, 1), "sphere_uv": (2, 0), "cylinder": (1, 1),
            "ring": (2, 1), "flat_ring": (2, 0), "tetrahedron": (0, 0), "icosahedron": (0, 0), "triangle": (0, 0),
            "hexahedron": (0, 1), "quad": (0, 1), "chain_of_vertices": (1, 1), "vector_field": (1, 0)}


# requested angle defects: ordinary values, values that need an apex ABOVE the initial bisection bracket z <= 10 (about > 5.67),
# the clamp 2*pi - 0.01, and values outside [0, 2*pi - 0.01] that get clamped
DEFECTS = [0.0, 0.25, 0.5, 1.0, 2.0, 4.0, 4.5, 5.5, 5.7, 5.8, 6.0, 6.2, 2 * math.pi - 0.01, 7.0, -1.0]


def _geo(rng):
    d = lambda: rng.randint(-24, 24) / 8
    defect = rng.choice(DEFECTS) if rng.random() < 0.6 else rng.uniform(0.0, 2 * math.pi)
    return {"center": [d(), d(), d()], "radius": rng.choice([0.125, 0.5, 1.0, 2.5, 7.0]),
            "P": [[d(), d(), d()] for _ in range(8)], "defect": defect}


def cases(rng, tier):
    hi = 7 if tier == "quick" else 16
    B = (False, True)
    out = []
    for a in range(2, hi + 1):
        for b in range(2, hi + 1):
            for t in B:
                out.append({"gen": "unit_grid", "ints": [a, b], "bools": [t, rng.random() < 0.3]})
            out.append({"gen": "unit_triangle", "ints": [a, b], "bools": [rng.random() < 0.3]})
    for a in range(3, hi + 1):
        for b in range(3, hi + 1):
            for t in B:
                out.append({"gen": "torus", "ints": [a, b], "bools": [t]})
    for a in range(1, hi + 1):
        for b in range(3, hi + 1):
            out.append({"gen": "sphere_uv", "ints": [a, b], "bools": []})
    for n in range(3, 3 * hi):
        for t in B:
            out.append({"gen": "cylinder", "ints": [n], "bools": [t]})
    for n in range(3, 2 * hi):
        for c in (1, 2, 3):
            for o in B:
                out.append({"gen": "ring", "ints": [n, c], "bools": [o]})
            out.append({"gen": "flat_ring", "ints": [n, c], "bools": []})
    out += [{"gen": "tetrahedron", "ints": [], "bools": [], "volume": v} for v in B]
    out += [{"gen": "hexahedron", "ints": [], "bools": [t], "colored": c, "volume": v} for t in B for c in B for v in B]
    out += [{"gen": "quad", "ints": [], "bools": [t]} for t in B]
    out += [{"gen": "triangle", "ints": [], "bools": []}, {"gen": "icosahedron", "ints": [], "bools": []}]
    # generators that are not modelled in Lean (depend on subdivision / qhull / dual): oracle battery only
    out += [{"gen": "axis_aligned_cube", "ints": [], "bools": [t], "colored": c} for t in B for c in B]
    out += [{"gen": "hexahedron_4pts", "ints": [], "bools": [], "colored": c, "volume": v} for c in B for v in B]
    out += [{"gen": g, "ints": [], "bools": []} for g in ("octahedron", "dodecahedron", "binding")]
    out += [{"gen": "icosphere", "ints": [n], "bools": []} for n in range(0, 3 if tier == "quick" else 4)]
    out += [{"gen": "sphere_fibonacci", "ints": [n], "bools": [True]} for n in ([4, 7, 12, 30, 100] if tier == "quick" else list(range(4, 60)) + [300])]
    out += [{"gen": "sphere_fibonacci", "ints": [n], "bools": [False]} for n in (1, 9)]
    out += [{"gen": "dual_mesh", "ints": [a, b], "bools": [], "mode": md} for a in (3, 4, 5) for b in (3, 5) for md in ("barycenter", "circumcenter")]
    out += [{"gen": "dual_mesh", "ints": [], "bools": [], "mode": md, "base": base} for md in ("barycenter", "Circumcenter")
            for base in ("icosahedron", "tetrahedron", "cube_tri")] + [{"gen": "dual_mesh", "ints": [], "bools": [], "mode": "barycenter", "base": "cube"}]
    # a closed chain needs n >= 3 (n = 2 would link 0-1 twice, n = 1 is a self loop): not admissible
    out += [{"gen": "chain_of_vertices", "ints": [n], "bools": [l]} for n in ((1, 2, 3, 4, 6, 9) if tier == "quick" else range(1, 40))
            for l in B if n >= 3 or not l]
    out += [{"gen": "vector_field", "ints": [n], "bools": [], "length_mult": lm, "dim": d}
            for n in ((1, 2, 5) if tier == "quick" else range(1, 12)) for lm in (1.0, 0.25, -2.0) for d in (2, 3)]
    out += [{"gen": "icosahedron", "ints": [], "bools": [], "uv": True}]
    out += [{"gen": "cylindrify_edges", "ints": [n], "bools": []} for n in (3, 5)]
    out += [{"gen": "spherify_vertices", "ints": [n], "bools": []} for n in (0, 1)]
    for c in out:
        c["geo"] = _geo(rng)
        if c["gen"] == "torus":       # major and minor radius vary independently (the major one stays the larger)
            c["geo"]["R"] = rng.choice([1.25, 2.0, 4.0, 9.0]) * c["geo"]["radius"] + rng.choice([0.0, 0.5])
        if rng.random() < 0.25: _integer_rep(c)
    sweep = []
    for dv in DEFECTS + [5.9, 6.1]:
        for n in ((3, 6, 10) if tier == "quick" else (3, 4, 5, 6, 8, 10, 25)):
            kinds = [(1, False), (2, False), (1, True), (2, True)] if (n == 6 or tier != "quick") else [(1, False)]
            sweep += [{"gen": "ring", "ints": [n, c_], "bools": [o], "defect": dv} for c_, o in kinds]
            if n == 6 or tier != "quick": sweep += [{"gen": "flat_ring", "ints": [n, c_], "bools": [], "defect": dv} for c_ in (1, 2)]
    sweep += [{"gen": "cylinder", "ints": [n], "bools": [t], "axis": ax} for n in (3, 5, 8) for t in B
              for ax in ([0., 0., 3.], [0., 0., -2.], [1e-9, 0., 1.], [0., 2., 0.], [1., 0., 0.])]
    # requests that are EXACTLY the defect reached at a midpoint of the bisection (apex heights 5, 2.5, 7.5: first and second pass)
    # (quick: one such case — on a tree without the repair of the exact-hit branch each of them costs VERIF_CASE_TIMEOUT seconds)
    sweep += ([{"gen": "ring", "ints": [4, 1], "bools": [False], "exact_mid": 5.0}] if tier == "quick" else
              [{"gen": "ring", "ints": [n, 1], "bools": [o], "exact_mid": z} for n in (3, 4, 5, 6, 9) for o in B for z in (5.0, 2.5, 7.5)])
    sweep += _cyl_family_cases(rng, (5,) if tier == "quick" else (3, 8))
    sweep += [{"gen": "cylindrify_edges", "ints": [4], "bools": [], "no_edges": True},
              {"gen": "spherify_vertices", "ints": [1], "bools": [], "raw_points": True}]
    for c in sweep:
        c["geo"] = _geo(rng)
        if "defect" in c: c["geo"]["defect"] = c.pop("defect")
    out += sweep
    # documented defaults, after the generator was used with other values
    dflt = [{"gen": "sphere_uv", "ints": [a, b], "bools": []} for a, b in ((1, 3), (3, 4), (4, 7))]
    dflt += [{"gen": "icosphere", "ints": [n], "bools": []} for n in (0, 1)]
    dflt += [{"gen": "icosahedron", "ints": [], "bools": []}]
    dflt += [{"gen": "torus", "ints": [a, b], "bools": [t]} for (a, b) in ((3, 3), (5, 4)) for t in B]
    dflt += [{"gen": "cylinder", "ints": [n], "bools": [t]} for n in (3, 6) for t in B]
    for c in dflt:
        c["geo"] = _geo(rng); c["defaults"] = True
        c["geo"].update(center=[0., 0., 0.], radius=(0.3 if c["gen"] == "torus" else 1.0))
        if c["gen"] == "torus": c["geo"]["R"] = 1.0
    return out + dflt


def _cyl_axis_family(rng):
    """axes P2 - P1 for `cylinder`: exactly +-z; within 5e-5 .. 3 degrees of +-z with non-zero x AND y parts (on both sides of every
    plausible 'is the axis vertical?' threshold); axis-aligned; generic; the same directions with tiny and huge lengths. Both signs of
    every axis = both orders of the end points."""
    out = []
    for s_ in (1., -1.):
        out.append([0., 0., 3. * s_])
        for deg in (5e-5, 1e-3, 0.01, 0.1, 0.5, 1.0, 2.0, 2.5, 3.0, 8.0):
            t = math.tan(math.radians(deg)); phi = rng.uniform(0.3, 1.2)
            for sx, sy in ((1, 1), (-1, 1), (1, -1)):
                out.append([sx * t * math.cos(phi), sy * t * math.sin(phi), s_])
        out.append([0.02, 0.03 * s_, s_])
        out += [[2. * s_, 0., 0.], [0., -1.5 * s_, 0.], [s_, 2., 2.], [-0.3, 0.7 * s_, 0.2]]
    scaled = []
    for ax in ([0., 0., 1.], [0.02, 0.03, 1.], [0.01, -0.04, -1.], [1., 2., 2.], [0., 1., 0.]):
        scaled += [[x * 1e-6 for x in ax], [x * 1e6 for x in ax]]
    return out + scaled


def _cyl_family_cases(rng, Ns=(5,)):
    out = [{"gen": "cylinder", "ints": [n], "bools": [t], "axis": ax} for ax in _cyl_axis_family(rng) for n in Ns for t in (False, True)]
    out += [{"gen": "cylindrify_edges", "ints": [n], "bools": [], "near_z": True} for n in (3, 6)]
    return out


def _integer_rep(c):
    """the same parameters in another numeric representation: centres, corner points and end points with INTEGER coordinates
    (an integer-dtype Vec), integer radius and defect, resolutions as numpy.int64. Positions must not be truncated."""
    g = c["geo"]
    g["center"] = [int(round(x)) for x in g["center"]]
    g["P"] = [[int(round(x)) + (i if k == 0 else 0) for k, x in enumerate(p)] for i, p in enumerate(g["P"])]
    g["radius"] = int(max(1, round(g["radius"])))
    if "R" in g: g["R"] = int(math.ceil(g["R"])) + g["radius"]
    g["defect"] = int(g["defect"]) if g["defect"] < 6.2 else g["defect"]     # 6 stays in the bracket-extension region
    c["rep"] = "int"
    return c


def model_request(case):
    g = case["gen"]
    if g == "binding": return "binding"
    b = lambda x: "1" if x else "0"
    # round 4: the whole translated bodies (faces, cells, colour writes as terms of the switches); the two wrappers forward their
    # switches to hexahedron() as proved by `switches_forwarded` / `axis_cube_forwards`
    if g == "tetrahedron": return f"tetrahedron_full {b(case.get('volume'))}"
    if g == "hexahedron": return f"hexahedron_full {b(case.get('colored'))} {b(case['bools'][0])} {b(case.get('volume'))}"
    if g == "hexahedron_4pts": return f"hexahedron_full {b(case.get('colored'))} 0 {b(case.get('volume'))}"
    if g == "axis_aligned_cube": return f"hexahedron_full {b(case.get('colored'))} {b(case['bools'][0])} 0"
    if g == "icosphere" and not case.get("defaults"): return f"counts icosphere {case['ints'][0]}"
    if g == "sphere_fibonacci": return "translated sphere_fibonacci"
    if g == "dual_mesh": return "translated dual_mesh"
    if g == "cylindrify_edges" and not case.get("no_edges"): return f"counts cylindrify {len(_CYL_PTS) - 1} {case['ints'][0]}"
    if g not in MODELLED: return None
    if case.get("volume"): return None          # volume meshes: faces come from cell completion (C02), not from the table
    if g == "vector_field" and case["ints"][0] == 0: return None
    return " ".join([g] + [str(i) for i in case["ints"]] + ["1" if b else "0" for b in case["bools"]])


# ------------------------------------------------------------------------------------------------
# running the implementation
# ------------------------------------------------------------------------------------------------
def _run(case, trace=True):
    import mouette as M
    import numpy as np
    P = M.procedural
    g, I, Bo, geo = case["gen"], case["ints"], case["bools"], case["geo"]
    if case.get("rep") == "int": I = [np.int64(i) for i in I]
    held = []                      # Vec arguments handed to the generator: the caller's vectors must come back unchanged

    def V(p):
        v = M.Vec(*p); held.append((v, np.array(v, copy=True))); return v
    _resolve_exact_mid(case, M)
    tr = _BranchTracer() if trace else None
    try:
        if tr: sys.settrace(tr.global_trace)
        return _run_gen(case, M, np, P, g, I, Bo, geo, V)
    finally:
        if tr:
            sys.settrace(None)
            _LAST["branches"] = tr.keys()
        _LAST["args_changed"] = any(a.dtype != b.dtype or a.shape != b.shape or not np.array_equal(np.asarray(a), b) for a, b in held)


def _resolve_exact_mid(case, M):
    """`exact_mid: z` -> the requested defect is the float the implementation itself computes for the apex at height z (a midpoint of
    the dichotomy), so that `defect == middfct` holds exactly in that pass"""
    z = case.get("exact_mid")
    if z is None or case["geo"].get("exact_mid_resolved"): return
    N = int(case["ints"][0])
    A, B_ = M.Vec(1., 0., 0.), M.Vec(math.cos(2 * 1 * math.pi / N), math.sin(2 * 1 * math.pi / N), 0.)
    case["geo"]["defect"] = float(2 * math.pi - N * M.geometry.angle_3pts(A, M.Vec(0., 0., float(z)), B_))
    case["geo"]["exact_mid_resolved"] = True


_LAST = {"args_changed": False, "base": None, "branches": []}
_TRACED = ("mouette/procedural/shapes.py", "mouette/procedural/flat.py", "mouette/procedural/rings.py", "mouette/procedural/polylines.py",
           "mouette/procedural/dual.py", "mouette/procedural/transformations.py", "mouette/geometry/rotations.py")
_BRANCH_TABLE = {}


def _branch_table():
    """every `if` / `elif` of the traced files: (file, line of the test) -> (label, first line of the then-block, first line of the else-block)"""
    if _BRANCH_TABLE: return _BRANCH_TABLE
    for rel in _TRACED:
        path = os.path.realpath(os.path.join(T.REPO, rel))
        tree = ast.parse(open(path).read())
        for fn in ast.walk(tree):
            if not isinstance(fn, ast.FunctionDef): continue
            for n in ast.walk(fn):
                if isinstance(n, ast.If):
                    lab = f"{os.path.basename(rel)}:{fn.name}:L{n.lineno} if {ast.unparse(n.test)[:44]}"
                    _BRANCH_TABLE.setdefault(path, {})[n.lineno] = (lab, n.body[0].lineno, n.orelse[0].lineno if n.orelse else None)
    return _BRANCH_TABLE


class _BranchTracer:
    """line counts inside the traced files during one call of a generator -> which side of every `if` was taken"""
    def __init__(self):
        self.hits = {}
        self.files = set(_branch_table())

    _real = {}          # file name as the code object spells it -> real path if traced, else None (cached: called for every call event)

    def _traced(self, fname):
        r = self._real.get(fname, 0)
        if r == 0:
            rp = os.path.realpath(fname)
            r = self._real[fname] = rp if rp in self.files else None
        return r

    def global_trace(self, frame, event, arg):
        if event == "call" and self._traced(frame.f_code.co_filename): return self.local_trace
        return None

    def local_trace(self, frame, event, arg):
        if event == "line":
            k = (self._traced(frame.f_code.co_filename), frame.f_lineno)
            self.hits[k] = self.hits.get(k, 0) + 1
        return self.local_trace

    def keys(self):
        out = []
        for path, tab in _branch_table().items():
            for line, (lab, then_line, else_line) in tab.items():
                n = self.hits.get((path, line), 0)
                if not n: continue
                if then_line == line: out.append(f"branch {lab} : reached"); continue     # `if c: stmt` on one line
                t = self.hits.get((path, then_line), 0)
                if t: out.append(f"branch {lab} : then")
                if (self.hits.get((path, else_line), 0) if else_line else n > t): out.append(f"branch {lab} : else")
        return out


def _run_gen(case, M, np, P, g, I, Bo, geo, V):
    if case.get("defaults"):
        # the documented defaults (centre = origin, radius = 1, torus radii 1 / 0.3, cylinder radius 1): the generator is first
        # used with other values, then called with the arguments left out; geo holds the documented default values
        other = V([3, -2, 5])
        if g == "sphere_uv": P.sphere_uv(I[0], I[1], other, 2.5); return P.sphere_uv(I[0], I[1])
        if g == "icosphere": P.icosphere(I[0], other, 2.5); return P.icosphere(I[0])
        if g == "icosahedron": P.icosahedron(other, 2.5); return P.icosahedron()
        if g == "torus": P.torus(I[0], I[1], 3., 0.5, triangulate=Bo[0]); return P.torus(I[0], I[1], triangulate=Bo[0])
        if g == "cylinder":
            P.cylinder(other, other + M.Vec(1., 2., 2.), 2.5, I[0], fill_caps=Bo[0])
            return P.cylinder(V(geo["P"][0]), V(geo["P"][0]) + M.Vec(1., 2., 2.), N=I[0], fill_caps=Bo[0])
        raise ValueError(g)
    if g == "unit_grid": return P.unit_grid(I[0], I[1], triangulate=Bo[0], generate_uvs=Bo[1])
    if g == "unit_triangle": return P.unit_triangle(I[0], I[1], generate_uvs=Bo[0])
    if g == "torus": return P.torus(I[0], I[1], geo.get("R", 4 * geo["radius"]), geo["radius"], triangulate=Bo[0])
    if g == "sphere_uv": return P.sphere_uv(I[0], I[1], V(geo["center"]), geo["radius"])
    if g == "cylinder": return P.cylinder(V(geo["P"][0]), V(geo["P"][0]) + M.Vec(*_cyl_axis(case)), geo["radius"], I[0], fill_caps=Bo[0])
    if g == "ring": return P.ring(I[0], geo["defect"], Bo[0], I[1])
    if g == "flat_ring": return P.flat_ring(I[0], geo["defect"], I[1])
    if g == "tetrahedron": return P.tetrahedron(*[V(p) for p in _tet_pts(geo)], volume=case["volume"])
    if g == "hexahedron": return P.hexahedron(*[V(p) for p in _hex_pts(geo)], colored=case["colored"], triangulate=Bo[0], volume=case["volume"])
    if g == "hexahedron_4pts":
        q = _hex_pts(geo)
        return P.hexahedron_4pts(V(q[0]), V(q[1]), V(q[3]), V(q[4]), colored=case["colored"], volume=case["volume"])
    if g == "axis_aligned_cube": return P.axis_aligned_cube(colored=case["colored"], triangulate=Bo[0])
    if g == "quad": return P.quad(V(geo["P"][0]), V(geo["P"][1]), V(geo["P"][2]), triangulate=Bo[0])
    if g == "triangle": return P.triangle(V(geo["P"][0]), V(geo["P"][1]), V(geo["P"][2]))
    if g == "icosahedron":
        return P.icosahedron(V(geo["center"]), geo["radius"], uv=True) if case.get("uv") else P.icosahedron(V(geo["center"]), geo["radius"])
    if g == "octahedron": return P.octahedron()
    if g == "dodecahedron": return P.dodecahedron()
    if g == "icosphere": return P.icosphere(I[0], V(geo["center"]), geo["radius"])
    if g == "sphere_fibonacci": return P.sphere_fibonacci(I[0], geo["radius"], build_surface=Bo[0])
    if g == "dual_mesh":
        base = _dual_base(case, P, M)
        _LAST["base"] = base
        return P.dual_mesh(base, case["mode"]) if "mode" in case else P.dual_mesh(base)
    if g == "chain_of_vertices":
        return P.chain_of_vertices(np.array([[float(i), float(i * i), 0.5] for i in range(I[0])]), loop=Bo[0])
    if g == "vector_field":
        o, v = _vf_arrays(case, np)
        return P.vector_field(o, v, case["length_mult"]) if case["length_mult"] != 1.0 else P.vector_field(o, v)
    if g == "cylindrify_edges" and case.get("no_edges"):
        return P.cylindrify_edges(_polyline_without_edges(M, np), radius=0.1, N=I[0])
    if g == "spherify_vertices" and case.get("raw_points"):
        return P.spherify_vertices([M.Vec(*p) for p in _SPH_PTS], radius=0.25, n_subdiv=I[0])
    if g == "cylindrify_edges":
        pl = P.chain_of_vertices(np.array(_cyl_pts(case)), loop=False)
        return P.cylindrify_edges(pl, radius=0.1, N=I[0])
    if g == "spherify_vertices":
        pc = M.mesh.from_arrays(np.array(_SPH_PTS))
        return P.spherify_vertices(pc, radius=0.25, n_subdiv=I[0])
    raise ValueError(g)


_CYL_PTS = [[0., 0., 0.], [1., 0., 0.], [1., 1., 0.5]]
_CYL_PTS_NEAR_Z = [[0., 0., 0.], [0.02, 0.03, 1.], [0.05, 0.01, -0.2]]      # both edges within 3 degrees of +z / -z, x and y parts non-zero


def _cyl_pts(case):
    return _CYL_PTS_NEAR_Z if case.get("near_z") else _CYL_PTS
_SPH_PTS = [[0., 0., 0.], [3., 0., 0.], [0., 3., 1.]]


def _cyl_axis(case):
    return [float(x) for x in case.get("axis", [1., 2., 2.])]


def _polyline_without_edges(M, np):
    raw = M.mesh.RawMeshData()
    raw.vertices += [M.Vec(*p) for p in _CYL_PTS]
    return M.mesh.PolyLine(raw)


def _dual_base(case, P, M):
    b = case.get("base")
    if b is None: return P.torus(case["ints"][0], case["ints"][1], 2., .5, triangulate=True)
    if b == "icosahedron": return P.icosahedron()
    if b == "tetrahedron": return P.tetrahedron(M.Vec(0., 0., 0.), M.Vec(1., 0., 0.), M.Vec(0., 1., 0.), M.Vec(0., 0., 1.))
    if b == "cube_tri": return P.axis_aligned_cube(triangulate=True)
    return P.axis_aligned_cube()


def _vf_arrays(case, np):
    n, d = case["ints"][0], case["dim"]
    o = np.array([[float(i), 0.5 * i * i, -1.0 + i][:d] for i in range(n)])
    v = np.array([[1.0 + i, -2.0, 0.25 * i][:d] for i in range(n)])
    return o, v


def _tet_pts(geo):
    return [[0, 0, 0], [1, 0, 0], [0, 1, 0], [0, 0, 1]] if geo["radius"] == 1.0 else geo["P"][:4]


def _hex_pts(geo):
    o = geo["center"]
    base = [(0, 0, 0), (1, 0, 0), (1, 1, 0), (0, 1, 0), (0, 0, 1), (1, 0, 1), (1, 1, 1), (0, 1, 1)]
    s = geo["radius"]
    return [[o[k] + s * b[k] for k in range(3)] for b in base]


def _sides(f):
    return [(f[i], f[(i + 1) % len(f)]) for i in range(len(f))]


def _report(nV, F):
    """same line format as Mouette.DriveC14.report, computed independently in Python"""
    dire = [s for f in F for s in _sides(f)]
    dset = set(dire)
    flags = [all(0 <= v < nV for f in F for v in f),
             all(any(v in f for f in F) for v in range(nV)),
             all(len(f) >= 3 and len(set(f)) == len(f) for f in F),
             len({tuple(sorted(f)) for f in F}) == len(F),
             len(dset) == len(dire),
             all((b, a) in dset for (a, b) in dire)]
    E = len({(min(a, b), max(a, b)) for a, b in dire})
    border = sum(1 for (a, b) in dire if (b, a) not in dset)
    fl = " ".join([str(len(F))] + [" ".join([str(len(f))] + [str(v) for v in f]) for f in F])
    return f"{nV} ; {fl} ; {' '.join('1' if x else '0' for x in flags)} ; {E} {border} {nV - E + len(F)}"


def impl_observe(case):
    if case["gen"] == "binding":
        # what actually reaches hexahedron(): observe by calling hexahedron_4pts with each switch alone
        import mouette as M
        res = []
        q = _hex_pts(case["geo"])
        pts = [M.Vec(*q[0]), M.Vec(*q[1]), M.Vec(*q[3]), M.Vec(*q[4])]
        m = M.procedural.hexahedron_4pts(*pts, colored=True, volume=False)
        res.append("colored->" + ("colored" if m.faces.has_attribute("color") else ("triangulate" if len(m.faces[0]) == 3 else "?")))
        m = M.procedural.hexahedron_4pts(*pts, colored=False, volume=True)
        res.append("volume->" + ("volume" if type(m).__name__ == "VolumeMesh" else ("triangulate" if len(m.faces[0]) == 3 else "?")))
        return " ".join(res)
    try:
        m = _run(case, trace=False)          # branches are recorded during the oracle's call (same case, next)
    except Exception as e:  # noqa
        return f"err:{type(e).__name__}"
    if case["gen"] in ("chain_of_vertices", "vector_field"):
        E = [sorted(int(x) for x in e) for e in m.edges]          # an edge is an unordered pair (mesh construction stores min first)
        rep = f"{len(m.vertices)} ; " + " ".join([str(len(E))] + [f"{a} {b}" for a, b in E])
        if case["gen"] == "vector_field": rep += " ; verts:" + _check_row_points(case, m)
        return rep
    F = [[int(v) for v in f] for f in m.faces] if hasattr(m, "faces") else []
    if case["gen"] == "cylindrify_edges": return f"{len(m.vertices)} {len(F)}"
    if case["gen"] == "icosphere": return f"{len(m.vertices)} {len(F)}"
    if case["gen"] == "sphere_fibonacci": return "verts:" + _check_row_points(case, m)
    if case["gen"] == "dual_mesh": return "dual:" + _check_dual(case, m)
    rep = _report(len(m.vertices), F)
    if case["gen"] in FULL_BODY:
        if case.get("volume"): rep = f"{len(m.vertices)} ; VOL ; VOL ; VOL"      # faces of a volume mesh come from cell completion (C02)
        C = [[int(v) for v in c] for c in m.cells] if hasattr(m, "cells") else []
        W = []
        if hasattr(m, "faces") and m.faces.has_attribute("color"):
            col = m.faces.get_attribute("color")
            W = [[int(k)] + [(int(x) if float(x) == int(x) else repr(float(x))) for x in col[k]] for k in col]
        fl = lambda L: " ".join([str(len(L))] + [" ".join([str(len(f))] + [str(v) for v in f]) for f in L])
        rep += f" ; cells {fl(C)} ; colors {fl(W)}"
    if case["gen"] in VERT_GENS and not case.get("volume"):
        rep += " ; verts:" + _check_vertex_expressions(case, m)
    if case["gen"] in SOLID_CORNERS:
        rep += " ; verts:" + _check_solid_corners(case, m)
    return rep


def _sort_colors(rep):
    """the `colors n 4 k r g b …` segment with its entries sorted by face id (the attribute is a map: write order is immaterial)"""
    parts = rep.split(" ; ")
    for i, seg in enumerate(parts):
        if seg.startswith("colors "):
            t = seg.split()[2:]
            ent = sorted((t[j + 1:j + 5] for j in range(0, len(t), 5)), key=lambda e: int(e[0]))
            parts[i] = " ".join(["colors", str(len(ent))] + [" ".join(["4"] + e) for e in ent])
    return " ; ".join(parts)


FULL_BODY = {"tetrahedron", "hexahedron", "hexahedron_4pts", "axis_aligned_cube"}
# generator -> name of the translated corner list (vlib/gen/c14solids.py)
SOLID_CORNERS = {"tetrahedron": "tetrahedronCorners", "hexahedron": "hexahedronCorners", "hexahedron_4pts": "hexa4ptsCorners",
                 "axis_aligned_cube": "axisCube", "quad": "quadCorners", "triangle": "triangleCorners", "icosahedron": "icosahedronCorners"}


def _check_dual(case, m):
    """translation validation of the two loops of `dual_mesh` (dual face V == vertex_to_faces(V), order included; one dual vertex per
    face) and of the HYPOTHESIS of Props/C14Dual.lean on the base mesh: every ring vertex_to_faces(V) is duplicate-free, holds
    exactly the faces containing V, and consecutive faces F -> G share an edge run V -> w in F and w -> V in G (`RingAt`)"""
    base = _LAST.get("base")
    if base is None: return "no-base"
    bF = [[int(x) for x in f] for f in base.faces]
    nV = len(base.vertices)
    rings = [[int(x) for x in base.connectivity.vertex_to_faces(V)] for V in range(nV)]
    F = [[int(v) for v in f] for f in m.faces]
    if len(m.vertices) != len(bF): return f"vertex-count({len(m.vertices)}!={len(bF)})"
    if F != rings: return "faces-are-not-the-rings"
    sd = [set(_sides(f)) for f in bF]
    for V, r in enumerate(rings):
        if len(set(r)) != len(r) or sorted(r) != [k for k, f in enumerate(bF) if V in f]: return f"ring-hypothesis(members@{V})"
        for k in range(len(r)):
            a, b = r[k], r[(k + 1) % len(r)]
            if not any((V, w) in sd[a] and (w, V) in sd[b] for w in bF[a]): return f"ring-hypothesis(order@{V})"
    # hypothesis of dual_side_unique / dual_oriented: two faces are glued along at most one edge
    glued = {}
    for k, f in enumerate(bF):
        for e in _sides(f): glued.setdefault(e, k)
    pairs = {}
    for (a, b), k in glued.items():
        if (b, a) in glued:
            key = (k, glued[(b, a)])
            pairs[key] = pairs.get(key, 0) + 1
    if any(v > 1 for v in pairs.values()): return "share-at-most-one-edge-hypothesis"
    return "ok"


def _check_row_points(case, m):
    """translation validation of the per-row point formulas of `vector_field` / `sphere_fibonacci`"""
    import numpy as np
    if not SOL.TREES: translate()
    got = [[float(c) for c in p] for p in m.vertices]
    want = []
    try:
        if case["gen"] == "vector_field":
            if "vectorFieldPts" not in SOL.TREES: return "untranslated"
            o, v = _vf_arrays(case, np)
            pad = lambda r: tuple(float(x) for x in r) + (0.,) * (3 - len(r))
            for a, b in zip(o, v): want += SOL.corner_values("vectorFieldPts", {"length_mult": float(case["length_mult"]), "origin": pad(a), "vector": pad(b)})
        else:
            if "fibonacciPoint" not in SOL.TREES: return "untranslated"
            n = int(case["ints"][0])
            for i in range(n):
                want += SOL.corner_values("fibonacciPoint", {"phi": (1 + math.sqrt(5)) / 2, "radius": float(case["geo"]["radius"]), "n_pts": float(n),
                                                             "i": float(i), "sqrt": math.sqrt})
    except Exception as e:  # noqa
        return f"eval-error({type(e).__name__})"
    if len(got) != len(want): return f"count({len(want)}!={len(got)})"
    for k, (a, b) in enumerate(zip(want, got)):
        if any(abs(x - y) > 1e-9 * max(1.0, abs(x)) + 1e-12 for x, y in zip(a, b)): return f"differ@{k}"
    return "ok"


def _check_solid_corners(case, m):
    """translation validation of vlib/gen/c14solids.py: the translated corner expressions, evaluated with floats on the case's
    parameters, against the vertices the implementation returned"""
    if not SOL.TREES: translate()
    g, geo = case["gen"], case["geo"]
    name = SOLID_CORNERS[g]
    if name not in SOL.TREES: return "untranslated"
    fl = lambda p: tuple(float(x) for x in p)
    if g == "tetrahedron": vals = dict(zip(("P1", "P2", "P3", "P4"), map(fl, _tet_pts(geo))))
    elif g == "hexahedron": vals = dict(zip(("P1", "P2", "P3", "P4", "P5", "P6", "P7", "P8"), map(fl, _hex_pts(geo))))
    elif g == "hexahedron_4pts":
        q = _hex_pts(geo); vals = {"P1": fl(q[0]), "P2": fl(q[1]), "P3": fl(q[3]), "P4": fl(q[4])}
    elif g in ("quad", "triangle"): vals = {"P0": fl(geo["P"][0]), "P1": fl(geo["P"][1]), "P2": fl(geo["P"][2])}
    elif g == "icosahedron":
        d = bool(case.get("defaults"))
        vals = {"phi": (1 + math.sqrt(5)) / 2, "radius": 1.0 if d else float(geo["radius"]), "center": (0., 0., 0.) if d else fl(geo["center"])}
    else: vals = {}
    scs, vecs, trees = SOL.TREES[name]
    if g != "axis_aligned_cube" and sorted(vals) != sorted(list(scs) + list(vecs)): return f"parameters({sorted(list(scs) + list(vecs))})"
    try:
        want = SOL.corner_values(name, vals)
    except Exception as e:  # noqa
        return f"eval-error({type(e).__name__})"
    got = [[float(c) for c in p] for p in m.vertices]
    if len(got) != len(want): return f"count({len(want)}!={len(got)})"
    for k, (a, b) in enumerate(zip(want, got)):
        if any(abs(x - y) > 1e-9 * max(1.0, abs(x)) + 1e-12 for x, y in zip(a, b)): return f"differ@{k}"
    return "ok"


VERT_GENS = {"unit_grid", "unit_triangle", "torus", "sphere_uv", "cylinder", "ring", "flat_ring"}


def _vertex_values(case, m):
    """values of the parameters of the translated vertex expressions for this case"""
    import numpy as np
    g, I, Bo, geo = case["gen"], case["ints"], case["bools"], case["geo"]
    site = [x for x in VERTEX_SITES if x[1] == g][0]
    v = {}
    for n, x in zip(site[3], I): v[n] = int(x)
    for n, x in zip(site[4], Bo): v[n] = bool(x)
    if g == "torus": v["major_radius"], v["minor_radius"] = float(geo.get("R", 4 * geo["radius"])), float(geo["radius"])
    if g == "sphere_uv": v["radius"], v["center"] = float(geo["radius"]), tuple(float(x) for x in geo["center"])
    if g == "cylinder":
        p1 = tuple(float(x) for x in geo["P"][0])
        ax = _cyl_axis(case)
        v["radius"], v["P1"], v["P2"] = float(geo["radius"]), p1, (p1[0] + ax[0], p1[1] + ax[1], p1[2] + ax[2])
        v["cylinder_guard0"] = lambda t: math.sqrt(sum(c * c for c in t)) < 1e-6
        v["rotate_around_axis_guard0"] = lambda ang, ax: abs(ang) < 1e-12 or math.sqrt(sum(c * c for c in ax)) < 1e-12
    if g in ("ring", "flat_ring"): v["defect"] = float(geo["defect"])
    if g == "ring": v["vertex0"] = tuple(float(c) for c in m.vertices[0])      # the apex found by the bisection (opaque)
    return v


def _apex_by_translated_bisection(case):
    """runs the TRANSLATED dichotomy (initial bracket, step function with the aliasing semantics, stop threshold, midpoint) with
    the real `angle_3pts` — validates the translation of the loop skeleton against the implementation's apex on every ring case"""
    import mouette as M
    N = int(case["ints"][0])
    want = max(min(float(case["geo"]["defect"]), 2 * math.pi - 0.01), 0.)
    A, B = (1., 0., 0.), (math.cos(2 * math.pi / N), math.sin(2 * math.pi / N), 0.)
    ang = lambda a, p, b: float(M.geometry.angle_3pts(M.Vec(*a), M.Vec(*p), M.Vec(*b)))
    P1, P2 = (0., 0., 0.), (0., 0., 10.)
    for _ in range(400):
        d1, d2 = 2 * math.pi - N * ang(A, P1, B), 2 * math.pi - N * ang(A, P2, B)
        P1, P2 = _BISECT["step"]({"pi": math.pi, "angle_3pts": ang, "N": N, "defect": want, "A": A, "B": B, "P1": P1, "P2": P2})
        if abs(d1 - d2) < 1e-6: return tuple((a + b) / 2 for a, b in zip(P1, P2))
    return None


def _check_vertex_expressions(case, m):
    """translation validation of vlib/pyverts.py: the translated position expressions, evaluated with floats, against the
    vertices the implementation returned"""
    if not _VERT: translate()
    if case["gen"] not in _VERT: return "untranslated"
    ev, ex = _VERT[case["gen"]]
    try:
        want = ev(_vertex_values(case, m))
    except Exception as e:  # noqa
        return f"eval-error({type(e).__name__})"
    for idx, pname in ex.overwritten.items():
        if idx < len(want): want[idx] = tuple(float(c) for c in m.vertices[idx])
    if case["gen"] == "ring":
        apex = _apex_by_translated_bisection(case)
        if apex is None: return "bisection-does-not-stop"
        if any(abs(x - float(y)) > 1e-9 * max(1.0, abs(x)) for x, y in zip(apex, m.vertices[0])): return "apex-differs-from-translated-bisection"
        # hypothesis `hang` of ring_apex_defect_within_tolerance_partial on this input: angle_3pts(A, (0,0,z), B) = arccos((c + z^2)/(1 + z^2))
        import mouette as M_
        N_ = int(case["ints"][0]); z_ = float(apex[2]); c_ = math.cos(2 * math.pi / N_)
        a_ = float(M_.geometry.angle_3pts(M_.Vec(1., 0., 0.), M_.Vec(0., 0., z_), M_.Vec(c_, math.sin(2 * math.pi / N_), 0.)))
        if abs(a_ - math.acos(max(-1., min(1., (c_ + z_ * z_) / (1 + z_ * z_))))) > 1e-7: return "angle_3pts-is-not-arccos-of-the-apex-cosine"
    got = [[float(c) for c in p] for p in m.vertices]
    if len(got) != len(want): return f"count({len(want)}!={len(got)})"
    for k, (a, b) in enumerate(zip(want, got)):
        if any(abs(x - y) > 1e-9 * max(1.0, abs(x)) + 1e-12 for x, y in zip(a, b)): return f"differ@{k}"
    return "ok"


def compare(case, model, impl):
    if case["gen"] in ("chain_of_vertices", "vector_field"):
        head, _, tail = model.partition(" ; ")
        t = tail.split()
        pairs = [sorted((int(t[i]), int(t[i + 1]))) for i in range(1, len(t) - 1, 2)]
        model = head + " ; " + " ".join([t[0]] + [f"{a} {b}" for a, b in pairs]) if t else model
        if case["gen"] == "vector_field": model += " ; verts:ok"
        return None if model == impl else f"polyline differs: translated-source model {model[:120]} vs implementation {impl[:120]}"
    if case["gen"] == "dual_mesh":
        return None if impl == "dual:ok" else f"dual_mesh differs from its translated loops / the ring hypothesis of Props/C14Dual.lean fails ({impl})"
    if case["gen"] == "sphere_fibonacci":
        return None if impl == "verts:ok" else f"vertex positions differ from the translated point formula ({impl})"
    if case["gen"] == "icosphere":
        k = int(model)
        want = f"{10 * 4 ** k + 2} {20 * 4 ** k}"
        return None if impl == want else f"icosphere counts differ: {k} translated subdivision steps give {want}, implementation {impl}"
    if case["gen"] == "cylindrify_edges":
        return None if model == impl else f"tube counts differ: translated count terms {model} vs implementation {impl}"
    if case["gen"] in FULL_BODY:
        model, impl = _sort_colors(model), _sort_colors(impl)
    if case["gen"] in FULL_BODY and case.get("volume"):
        mp = model.split(" ; ")
        model = " ; ".join([mp[0], "VOL", "VOL", "VOL"] + mp[4:])
    if case["gen"] in VERT_GENS and not case.get("volume"): model = model + " ; verts:ok"
    if case["gen"] in SOLID_CORNERS: model = model + " ; verts:ok"
    if model == impl: return None
    if case["gen"] in FULL_BODY or case["gen"] in SOLID_CORNERS:
        names = ["vertex count", "face list", "validity flags", "E/border/chi"] + (["cells", "colour writes"] if case["gen"] in FULL_BODY else []) + ["corner positions"]
        for name, a, b in zip(names, model.split(" ; "), impl.split(" ; ")):
            if a != b: return f"{name} differ: translated-source model {a[:120]} vs implementation {b[:120]}"
    mp, ip = model.split(" ; "), impl.split(" ; ")
    if len(ip) == 5 and len(mp) == 5 and mp[:4] == ip[:4]:
        return f"vertex positions differ from the translated position expressions ({ip[4]})"
    if len(ip) < 4: return f"implementation raised {impl} where the translated generator yields a mesh"
    for name, a, b in zip(["vertex count", "face list", "validity flags", "E/border/chi"], mp, ip):
        if a != b: return f"{name} differs: translated-source model {a[:120]} vs implementation {b[:120]}"
    return "differs"


# ------------------------------------------------------------------------------------------------
# oracle: the statement of C14 on the implementation's output
# ------------------------------------------------------------------------------------------------
def _expected(case):
    """(V, F, chi, loops) documented for the generator; None = not fixed by the documentation"""
    g, I, Bo = case["gen"], case["ints"], case["bools"]
    if g == "unit_grid": return I[0] * I[1], (I[0] - 1) * (I[1] - 1) * (2 if Bo[0] else 1), 1, 1
    if g == "unit_triangle":
        n = min(I)
        return (n * (n + 1) // 2 if I[0] >= I[1] else None), ((n - 1) ** 2 if I[0] >= I[1] else None), 1, 1
    if g == "torus": return I[0] * I[1], I[0] * I[1] * (2 if Bo[0] else 1), 0, 0
    if g == "sphere_uv": return I[0] * I[1] + 2, 2 * I[1] + (I[0] - 1) * I[1], 2, 0
    if g == "cylinder": return 2 * I[0] + (2 if Bo[0] else 0), 2 * I[0] * (2 if Bo[0] else 1), (2 if Bo[0] else 0), (0 if Bo[0] else 2)
    if g == "ring": return I[0] * I[1] + 1 + (1 if Bo[0] else 0), I[0] * I[1], 1, 1
    if g == "flat_ring": return I[0] * I[1] + 2, I[0] * I[1], 1, 1
    if g == "tetrahedron": return 4, 4, 2, 0
    if g in ("hexahedron", "axis_aligned_cube", "hexahedron_4pts"):
        tri = bool(Bo and Bo[0]) and not case.get("volume")
        return 8, 12 if tri else 6, 2, 0
    if g == "quad": return 4, 2 if Bo[0] else 1, 1, 1
    if g == "triangle": return 3, 1, 1, 1
    if g == "icosahedron": return 12, 20, 2, 0
    if g == "octahedron": return 6, 8, 2, 0
    if g == "dodecahedron": return 20, 12, 2, 0
    if g == "icosphere": return 10 * 4 ** I[0] + 2, 20 * 4 ** I[0], 2, 0
    if g == "sphere_fibonacci": return I[0], 2 * I[0] - 4, 2, 0
    if g == "dual_mesh":
        b = case.get("base")
        if b is None: return 2 * I[0] * I[1], I[0] * I[1], 0, 0
        return {"icosahedron": (20, 12, 2, 0), "tetrahedron": (4, 4, 2, 0), "cube_tri": (12, 8, 2, 0), "cube": (6, 8, 2, 0)}[b]
    return None


def oracle(case):
    from ..gen.mesh import surface_stats
    import numpy as np
    g, I, Bo, geo = case["gen"], case["ints"], case["bools"], case["geo"]
    out = []

    def bad(sub, what, detail=""):
        if g == "unit_triangle" and I[0] < I[1]:
            sub = "nu<nv"      # one structural key for this region whatever symptom shows
            what = "unit_triangle(nu, nv) with nu < nv is not a valid mesh (index arithmetic assumes full triangular rows)"
        if not any(o["key"] == f"C14/{g}/{sub}" for o in out):
            out.append({"key": f"C14/{g}/{sub}", "what": what, "detail": f"{detail} params ints={I} bools={Bo}"})
    if g == "binding":
        obs = impl_observe(case)
        if obs != "colored->colored volume->volume":
            bad("switches", "hexahedron_4pts does not forward its switches as named", obs)
        return out
    try:
        m = _run(case)
    except Exception as e:  # noqa
        bad("raises", f"generator raised {type(e).__name__} on admissible parameters", str(e)[:200])
        return out
    if _LAST["args_changed"]:
        bad("argument-changed", "a Vec handed to the generator (centre / corner / end point) was modified by the call")
    kind = type(m).__name__
    nV = len(m.vertices)
    pts = np.array([[float(c) for c in v] for v in m.vertices]) if nV else np.zeros((0, 3))
    if g == "chain_of_vertices":
        E = sorted(tuple(int(x) for x in e) for e in m.edges)
        want = sorted((i, i + 1) for i in range(I[0] - 1))
        if Bo[0] and I[0] > 2: want = sorted(want + [(0, I[0] - 1)])
        if Bo[0] and I[0] == 2: want = [(0, 1)]
        if kind != "PolyLine" or nV != I[0] or E != want: bad("edges", "polyline does not link the vertices in order", f"{E}")
        want_pts = np.array([[float(i), float(i * i), 0.5] for i in range(I[0])])
        if nV == I[0] and nV and np.max(np.abs(pts - want_pts)) > 0: bad("positions", "polyline vertices are not the given points")
        return out
    if g == "vector_field":
        n = I[0]
        o, v = _vf_arrays(case, np)
        o3, v3 = np.zeros((n, 3)), np.zeros((n, 3))
        o3[:, :o.shape[1]], v3[:, :v.shape[1]] = o, v
        E = [tuple(int(x) for x in e) for e in m.edges]
        if kind != "PolyLine" or nV != 2 * n or E != [(2 * i, 2 * i + 1) for i in range(n)]:
            bad("edges", "vector field is not one edge (2i, 2i+1) per origin", f"nV={nV} E={E[:6]}")
        elif n and (np.max(np.abs(pts[0::2] - o3)) > 1e-12 or np.max(np.abs(pts[1::2] - (o3 + case["length_mult"] * v3))) > 1e-12):
            bad("positions", "edge i does not run from origin i to origin i + length_mult * vector i")
        return out
    if g == "sphere_fibonacci" and not Bo[0]:
        if kind != "PointCloud" or nV != I[0]: bad("point-cloud", "build_surface=False does not return the n points as a point cloud", f"{kind} {nV}")
        elif nV and np.max(np.abs(np.linalg.norm(pts, axis=1) - geo["radius"])) > 1e-9 * max(1, geo["radius"]):
            bad("on-sphere", "points are not at the radius from the origin")
        return out
    exp = _expected(case)
    vol = bool(case.get("volume"))
    F = [[int(v) for v in f] for f in m.faces]
    if vol:
        if kind != "VolumeMesh" or len(m.cells) != 1:
            bad("volume-switch", "volume=True does not return a volume mesh with one cell", kind)
            return out
        # faces of a volume mesh are not oriented as a surface; check unoriented closedness only
        und = {}
        for f in F:
            for a, b in _sides(f): und.setdefault((min(a, b), max(a, b)), 0); und[(min(a, b), max(a, b))] += 1
        if any(v != 2 for v in und.values()) or any(x < 0 or x >= nV for f in F for x in f):
            bad("volume-faces", "boundary faces of the single cell are not a closed surface")
        if exp and (nV != exp[0] or len(F) != (4 if g == "tetrahedron" else 6)): bad("counts", "element counts differ from the documentation", f"V={nV} F={len(F)}")
    else:
        if kind != "SurfaceMesh":
            bad("class", f"returned a {kind}, a surface was promised")
            return out
        if any(x < 0 or x >= nV for f in F for x in f):
            bad("index-range", "face index out of range"); return out
        st = surface_stats(nV, F)
        if st["unused"]: bad("unused-vertex", f"{st['unused']} vertices are used by no face")
        if len({tuple(sorted(f)) for f in F}) != len(F): bad("repeated-face", "a face is repeated")
        if not st["manifold"]: bad("manifold", "not a consistently oriented manifold")
        if g == "cylindrify_edges" and case.get("no_edges"):
            if nV or F: bad("empty", "a polyline without edges does not give an empty surface")
            return out
        if g in ("cylindrify_edges", "spherify_vertices"):
            want_c = 2 if g == "cylindrify_edges" else 3
            want_chi = 0 if g == "cylindrify_edges" else 6
            if st["components"] != want_c or st["chi"] != want_chi: bad("topology", "merged shape has the wrong topology", str(st))
            _oracle_tubes_and_balls(case, pts, bad, np)
            return out
        if exp:
            V_, F_, chi, loops = exp
            if st["manifold"] and (st["chi"] != chi or st["loops"] != loops or st["components"] != 1):
                bad("topology", "topology differs from the named shape", f"chi={st['chi']} loops={st['loops']} comps={st['components']} expected chi={chi} loops={loops}")
            if (V_ is not None and nV != V_) or (F_ is not None and len(F) != F_):
                bad("counts", "element counts differ from the documented functions of the parameters", f"V={nV} F={len(F)} expected V={V_} F={F_}")
        tri_expected = {"unit_grid": Bo[0] if Bo else None, "torus": Bo[0] if Bo else None, "quad": Bo[0] if Bo else None,
                        "hexahedron": Bo[0] if Bo else None, "axis_aligned_cube": Bo[0] if Bo else None}.get(g)
        if tri_expected is not None and F:
            if any(len(f) != (3 if tri_expected else 4) for f in F): bad("triangulate-switch", "triangulate switch not honoured")
        if case.get("colored") and not m.faces.has_attribute("color"): bad("colored-switch", "colored switch not honoured")
        if m.faces.has_attribute("color"):
            # an attribute on faces can only speak about faces of the mesh ("indices in range"), and `colored` is honoured only
            # if every face has a colour
            keys = sorted(int(k) for k in m.faces.get_attribute("color"))
            if any(k < 0 or k >= len(F) for k in keys):
                bad("color-index-range", "the color attribute holds entries for face ids that do not exist", f"keys {keys} with {len(F)} faces")
            elif keys != list(range(len(F))): bad("colored-switch", "colored switch not honoured: a face has no color", f"keys {keys}")
        if g == "unit_grid" and Bo[1]:
            if not m.vertices.has_attribute("uv_coords"): bad("uv-switch", "generate_uvs not honoured")
            else:
                uv = m.vertices.get_attribute("uv_coords")
                if any(abs(float(uv[i][0]) - pts[i][0]) > 1e-12 or abs(float(uv[i][1]) - pts[i][1]) > 1e-12 for i in range(nV)):
                    bad("uv-values", "uv coordinates differ from the vertex positions")
    # ---- geometry ------------------------------------------------------------------------------
    tol = 1e-9
    c, r = np.array(geo["center"], dtype=float), geo["radius"]
    if g in ("sphere_uv", "icosphere") and nV:
        d = np.linalg.norm(pts - c, axis=1)
        if np.max(np.abs(d - r)) > tol * max(1, r): bad("on-sphere", "vertices are not at the radius from the centre", f"max dev {np.max(np.abs(d - r))}")
    if g == "sphere_fibonacci" and nV:
        d = np.linalg.norm(pts, axis=1)
        if np.max(np.abs(d - r)) > tol * max(1, r): bad("on-sphere", "vertices are not at the radius from the origin")
    if g == "icosahedron":
        d = np.linalg.norm(pts - c, axis=1)
        phi = (1 + math.sqrt(5)) / 2
        if np.max(np.abs(d - r * math.sqrt(1 + phi * phi))) > tol * max(1, r): bad("on-sphere", "vertices are not equidistant from the centre at the scaled radius")
    if g == "icosahedron" and nV == 12 and not out:
        # the named shape: a REGULAR icosahedron — all 30 edges have the same length, faces look away from the centre
        el = [np.linalg.norm(pts[a] - pts[b]) for f in F for a, b in _sides(f)]
        if el and max(el) - min(el) > tol * max(1, r): bad("regular", "edges of the icosahedron are not all equal", f"{min(el)}..{max(el)}")
        cc = np.array([0., 0., 0.]) if case.get("defaults") else c
        if any(float(np.cross(pts[f[1]] - pts[f[0]], pts[f[2]] - pts[f[0]]) @ (pts[f[0]] - cc)) <= 0 for f in F):
            bad("regular", "a face of the icosahedron does not look away from the centre")
    if g == "axis_aligned_cube" and nV == 8:
        if sorted(map(tuple, np.round(pts, 12).tolist())) != sorted(itertools.product((-0.5, 0.5), repeat=3)):
            bad("corners", "vertices are not the corners (+-1/2, +-1/2, +-1/2) of the axis aligned unit cube")
    if g == "torus":
        R = geo.get("R", 4 * r)
        d = (np.sqrt(pts[:, 0] ** 2 + pts[:, 1] ** 2) - R) ** 2 + pts[:, 2] ** 2
        if np.max(np.abs(np.sqrt(d) - r)) > tol * max(1, R): bad("on-torus", "vertices are not on the torus of the given (independent) major and minor radii")
    if g in ("octahedron", "dodecahedron") and nV and not vol:
        d = np.linalg.norm(pts, axis=1)
        if np.max(d) - np.min(d) > tol or np.max(np.abs(pts.mean(axis=0))) > tol or np.min(d) < 1e-3:
            bad("on-sphere", "vertices are not on a sphere around the origin", f"norms {np.min(d)}..{np.max(d)}")
        el = [np.linalg.norm(pts[a] - pts[b]) for f in F for a, b in _sides(f)]
        if el and max(el) - min(el) > tol: bad("regular", "edges of the platonic solid are not all equal", f"{min(el)}..{max(el)}")
        if any(len(f) != (3 if g == "octahedron" else 5) for f in F): bad("regular", "faces of the platonic solid have the wrong size")
    if g == "dual_mesh" and nV and not vol and _LAST.get("base") is not None:
        base = _LAST["base"]
        bF = [[int(x) for x in f] for f in base.faces]
        bP = np.array([[float(c) for c in p] for p in base.vertices])
        if nV == len(bF):
            if str(case.get("mode", "barycenter")).lower() == "barycenter":
                want = np.array([bP[f].mean(axis=0) for f in bF])
                if np.max(np.abs(pts - want)) > tol: bad("dual-position", "dual vertices are not at the barycentres of the faces")
            else:
                for k, f in enumerate(bF):
                    dd = np.linalg.norm(bP[f] - pts[k], axis=1)
                    nrm = np.cross(bP[f[1]] - bP[f[0]], bP[f[2]] - bP[f[0]])
                    if np.max(dd) - np.min(dd) > 1e-8 or abs(float(nrm @ (pts[k] - bP[f[0]]))) > 1e-8 * max(1., float(np.linalg.norm(nrm))):
                        bad("dual-position", "dual vertices are not at the circumcentres of the faces", f"face {k}"); break
        # dual face V = the ring of primal faces around vertex V
        if len(F) == len(bP):
            for vtx, ring in enumerate(F):
                inc = sorted(k for k, f in enumerate(bF) if vtx in f)
                if sorted(ring) != inc: bad("dual-face-ring", "a dual face is not the set of faces around its vertex", f"vertex {vtx}"); break
    if g == "cylinder":
        p1 = np.array(geo["P"][0], dtype=float)
        axv = np.array(_cyl_axis(case)); h = float(np.linalg.norm(axv)); ax = axv / h
        N = I[0]
        side = pts[:2 * N]
        rel = side - p1
        t = rel @ ax
        d = np.linalg.norm(rel - np.outer(t, ax), axis=1)
        sc = max(1., r, h, float(np.max(np.abs(p1))))       # relative tolerance: lengths from 1e-6 to 1e6 are in the family
        if np.max(np.abs(d - r)) > tol * sc:
            bad("on-cylinder", "side vertices are not at the radius from the axis", f"max |dist - radius| = {np.max(np.abs(d - r)):.3e} axis={_cyl_axis(case)}")
        if np.max(np.abs(t[:N])) > tol * 10 * sc or np.max(np.abs(t[N:] - h)) > tol * 10 * sc:
            bad("on-cylinder", "rings are not in the end planes (through the end points, orthogonal to the axis)",
                f"max offset along the axis = {max(np.max(np.abs(t[:N])), np.max(np.abs(t[N:] - h))):.3e} axis={_cyl_axis(case)}")
        if Bo[0] and nV == 2 * N + 2 and (np.max(np.abs(pts[2 * N] - p1)) > 0 or np.max(np.abs(pts[2 * N + 1] - (p1 + axv))) > 1e-12):
            bad("cap-centres", "the cap centres are not the end points")
    if g in ("unit_grid", "unit_triangle") and nV:
        if pts.min() < -tol or pts.max() > 1 + tol or np.max(np.abs(pts[:, 2])) > 0: bad("in-unit-square", "vertices leave the unit square")
        if g == "unit_grid":
            for corner in ((0, 0), (1, 0), (0, 1), (1, 1)):
                if not np.any(np.all(np.abs(pts[:, :2] - np.array(corner)) < tol, axis=1)): bad("corners", "a corner of the unit square is missing")
    if g in ("tetrahedron", "hexahedron", "triangle"):
        want = {"tetrahedron": _tet_pts(geo), "hexahedron": _hex_pts(geo), "triangle": geo["P"][:3]}[g]
        if nV == len(want) and np.max(np.abs(pts - np.array(want, dtype=float))) > 0: bad("corners", "vertices are not the requested corners")
    if g == "hexahedron_4pts" and nV == 8:
        if np.max(np.abs(pts - np.array(_hex_pts(geo), dtype=float))) > 1e-12: bad("corners", "vertices are not the requested corners")
    if g == "quad" and nV == 4:
        P0, P1, P2 = (np.array(geo["P"][k], dtype=float) for k in range(3))
        want = [P0, P1, P2 + P1 - P0, P2]
        if np.max(np.abs(pts - np.array(want))) > 1e-12: bad("corners", "vertices are not the requested corners")
    if g == "flat_ring" and nV == I[0] * I[1] + 2 and not out:
        # documented shape: apex at the origin, rim on the unit circle of the plane z = 0, every triangle with apex angle
        # (2*pi - defect)/N, turning counter-clockwise (so n_cover covers span n_cover*(2*pi - defect))
        want = max(min(geo["defect"], 2 * math.pi - 0.01), 0.)
        ang = (2 * math.pi - want) / I[0]
        if np.max(np.abs(pts[0])) > 1e-12 or np.max(np.abs(np.linalg.norm(pts[1:], axis=1) - 1)) > 1e-9 or np.max(np.abs(pts[:, 2])) > 0:
            bad("on-unit-circle", "rim vertices are not on the unit circle of the plane z=0 around the apex")
        for f in F:
            a, b = pts[f[1]], pts[f[2]]
            th = math.atan2(a[0] * b[1] - a[1] * b[0], a[0] * b[0] + a[1] * b[1])
            if abs((th - ang + math.pi) % (2 * math.pi) - math.pi) > 1e-9:
                bad("apex-angle", "a triangle of the flat ring does not have the apex angle (2*pi - defect)/N", f"face {f}: {th} vs {ang}")
                break
    if g == "ring" and nV >= I[0] * I[1] + 1 and not out:
        # rim vertex k (1-based) sits at angle 2*pi*(k-1)/N on the unit circle of the plane z = 0
        nrim = I[0] * I[1]
        for k in range(1, nrim + 1):
            t = 2 * math.pi * (k - 1) / I[0]
            if abs(pts[k][0] - math.cos(t)) > 1e-9 or abs(pts[k][1] - math.sin(t)) > 1e-9 or pts[k][2] != 0:
                bad("rim-position", "a rim vertex of the ring is not at its angle on the unit circle", f"vertex {k}"); break
        if Bo[0] and nV == nrim + 2 and np.max(np.abs(pts[nrim + 1] - pts[1])) > 0:
            bad("rim-position", "the closing vertex of the open ring is not a copy of the first rim vertex")
        if abs(pts[0][0]) > 1e-9 or abs(pts[0][1]) > 1e-9:
            bad("apex-on-axis", "the apex of the ring is not on the axis")
    if g == "ring" and nV >= I[0] * I[1] + 1 and not out:
        # the angles at the apex add up to n_cover * (2*pi - defect): every cover (closed or opened) has the requested defect
        tot = 0.0
        for f in F:
            a, b = pts[f[1]] - pts[f[0]], pts[f[2]] - pts[f[0]]
            tot += math.atan2(np.linalg.norm(np.cross(a, b)), float(a @ b))
        want = max(min(float(geo["defect"]), 2 * math.pi - 0.01), 0.)
        got = 2 * math.pi - tot / I[1]
        if abs(got - want) > 1e-4: bad("apex-defect", "apex angle defect differs from the request", f"defect {got} per cover vs requested {want}")
    return out


def _oracle_tubes_and_balls(case, pts, bad, np):
    g, I = case["gen"], case["ints"]
    tol = 1e-9
    if g == "cylindrify_edges":
        P_ = np.array(_cyl_pts(case)); N = I[0]
        edges = [(0, 1), (1, 2)]
        L = float(np.mean([np.linalg.norm(P_[b] - P_[a]) for a, b in edges]))
        if len(pts) != 2 * N * len(edges): bad("counts", "tube mesh does not have 2N vertices per edge"); return
        for k, (a, b) in enumerate(edges):
            blk = pts[2 * N * k: 2 * N * (k + 1)]
            ax = (P_[b] - P_[a]) / np.linalg.norm(P_[b] - P_[a])
            rel = blk - P_[a]
            t = rel @ ax
            d = np.linalg.norm(rel - np.outer(t, ax), axis=1)
            if np.max(np.abs(d - L * 0.1)) > tol: bad("tube-radius", "tube vertices are not at (mean edge length x radius) from their edge")
            if np.max(np.abs(t[:N])) > tol or np.max(np.abs(t[N:] - np.linalg.norm(P_[b] - P_[a]))) > tol:
                bad("tube-ends", "tube rings are not in the planes through the end points of their edge")
    if g == "spherify_vertices":
        P_ = np.array(_SPH_PTS)
        per = 10 * 4 ** I[0] + 2
        if len(pts) != per * len(P_): bad("counts", "ball mesh does not have one icosphere per point"); return
        for k in range(len(P_)):
            d = np.linalg.norm(pts[per * k: per * (k + 1)] - P_[k], axis=1)
            if np.max(np.abs(d - 0.25)) > tol: bad("ball-radius", "ball vertices are not at the radius from their point")


def nontrivial(case, obs):
    return case["gen"] != "binding" and not str(obs).startswith("err")


def classify(case, obs):
    ks = ["gen:" + case["gen"]]
    if case["gen"] in MODELLED and not case.get("volume"): ks.append("modelled")
    if len(case["ints"]) == 2 and case["ints"][0] != case["ints"][1]: ks.append("unequal-resolutions")
    if case.get("defaults"): ks.append("documented-defaults-after-other-values")
    ks.append("representation:" + ("integer coordinates, numpy.int64 resolutions" if case.get("rep") == "int" else "floats, Python ints"))
    if str(obs).startswith("err"): ks.append(str(obs))
    ks += list(_LAST.get("branches", []))
    if case["gen"] in ("ring", "flat_ring"):
        dv = float(case["geo"]["defect"])
        if dv < 0: reg = "below 0 (clamped to 0)"
        elif dv > 2 * math.pi - 0.01: reg = "above 2*pi-0.01 (clamped)"
        elif case["gen"] == "ring" and dv > _defect_at(case["ints"][0], 10.0): reg = "needs an apex above the initial bracket z<=10 (bracket extension)"
        else: reg = "inside the initial bracket / ordinary"
        ks.append(f"{case['gen']} defect region: {reg}")
    return ks


def _defect_at(N, z):
    """angle defect of the closed ring with N triangles per cover when the apex sits at height z"""
    import numpy as np
    a, b = np.array([1., 0., -z]), np.array([math.cos(2 * math.pi / N), math.sin(2 * math.pi / N), -z])
    return 2 * math.pi - N * math.atan2(float(np.linalg.norm(np.cross(a, b))), float(a @ b))


def describe(case):
    return {k: case[k] for k in ("gen", "ints", "bools", "defaults", "rep", "volume", "colored", "mode", "base", "length_mult", "dim", "uv", "axis", "no_edges", "raw_points", "near_z", "exact_mid") if k in case} | (
        {"defect": case["geo"]["defect"]} if case["gen"] in ("ring", "flat_ring") else {})


REQUIRED_THEOREMS = ["tetrahedron_closed_oriented", "icosahedron_closed_oriented", "hexahedron_quad_closed_oriented",
                     "hexahedron_tri_closed_oriented", "hexahedron_tables_agree", "triangle_disk", "quad_disk", "switches_forwarded",
                     "unit_grid_nverts", "unit_grid_nfaces", "unit_grid_inRange", "torus_nverts", "torus_nfaces", "torus_inRange",
                     "sphere_uv_nverts", "sphere_uv_nfaces", "sphere_uv_inRange", "cylinder_nverts", "cylinder_nfaces",
                     "cylinder_inRange", "ring_nverts", "ring_nfaces", "ring_inRange", "flat_ring_nverts", "flat_ring_nfaces",
                     "flat_ring_inRange", "unit_triangle_nverts", "sphere_uv_on_sphere", "torus_on_torus",
                     "projected_on_sphere", "fibonacci_unit", "linspace_in_unit", "linspace_ends",
                     "torus_noUnused", "unit_grid_noUnused", "sphere_uv_noUnused", "cylinder_noUnused", "ring_noUnused",
                     "flat_ring_noUnused", "torus_facesSimple", "unit_grid_facesSimple",
                     "torusFaces_eq", "torus_quads_oriented", "torus_quads_closed", "torus_tris_oriented", "torus_tris_closed",
                     "torus_quad_sides_nodup", "torus_quads_dirEdges_count", "unit_gridFaces_eq", "unit_grid_quads_oriented",
                     "unit_grid_tris_oriented", "sphere_uvFaces_eq", "sphere_oriented", "sphere_closed",
                     "cylinderFaces_eq", "cylinder_oriented", "cylinder_closed", "cylinder_open_border",
                     "ringFaces_mem", "ring_oriented", "ring_border", "flat_ringFaces_eq", "flat_ring_oriented", "flat_ring_border", "unit_triangle_inRange",
                     # round 3: Euler characteristic / border loops / connectedness / umbrellas, all resolutions
                     "torusFaces_addressed", "torus_quads_euler", "torus_tris_euler", "sphere_uvFaces_addressed", "sphere_uv_euler",
                     "cylinderFaces_addressed", "cylinder_closed_euler", "cylinder_open_euler", "cylinder_open_loops",
                     "ringFaces_addressed", "ring_closed_euler", "ring_closed_loop", "ringFaces_open_eq", "ring_open_euler", "flat_ring_euler",
                     "fan_euler", "fan_loop", "unit_gridFaces_addressed", "unit_grid_quads_euler", "unit_grid_tris_euler",
                     "unit_grid_quads_loop", "unit_grid_tris_loop", "unit_triangleFaces_addressed", "unit_triangle_nfaces",
                     "unit_triangle_oriented", "unit_triangle_euler", "unit_triangle_loop", "unit_triangle_disk",
                     "torus_quads_connected", "torus_tris_connected", "unit_grid_quads_connected", "unit_grid_tris_connected",
                     "sphere_uv_connected", "torus_quads_umbrella", "torus_tris_umbrella", "unit_grid_quads_umbrella",
                     "sphere_uv_umbrella_north", "sphere_uv_umbrella_south", "sphere_uv_umbrella_ring",
                     # round 3: geometry of the translated vertex expressions
                     "torus_vertex_index", "torus_point_on_torus", "torus_on_torus_all", "sphere_uv_vertex_index", "sphere_uv_on_sphere_all",
                     "unit_grid_vertex_index", "unit_grid_in_unit_square", "unit_triangle_in_unit_square", "ring_rim_on_unit_circle",
                     "ring_open_last_is_first", "flat_ring_rim_unit", "flat_ring_angle", "flat_ring_vertex_index",
                     "rotate_around_axis_unit_orth", "cylinder_ring_point", "cylinder_vertex_index",
                     # round 3: generators built on other modules
                     "icosphere_projection_on_sphere", "dual_counts", "octahedron_dodecahedron_counts", "triangulated_sphere_face_count",
                     "chain_open", "chain_loop", "vector_field_edges",
                     # the bisection of `ring` (loop body translated with numpy aliasing semantics)
                     "ring_bisect_step_spec", "ring_bisect_bracket", "bracket_midpoint_error", "ring_bisect_frame",
                     # round 4: whole bodies of the generators that are not loop nests (Props/C14Solids.lean)
                     "tetrahedron_body", "tetrahedron_faces_bound_the_cell", "tetrahedron_corners", "tetrahedron_outward",
                     "hexahedron_body", "hexahedron_colors_valid", "hexahedron_colors_by_axis", "axis_cube_forwards",
                     "axis_cube_is_unit_cube", "axis_cube_outward", "hexahedron_4pts_parallelepiped", "hexahedron_4pts_outward",
                     "triangle_corners", "quad_parallelogram_corners", "icosahedron_on_sphere", "icosahedron_regular",
                     "icosahedron_outward", "fibonacci_outward", "icosphere_counts", "transform_bindings", "cylindrify_counts",
                     "spherify_counts", "dual_modes_as_named", "fibonacci_point_on_sphere", "vector_field_points",
                     # round 4: no repeated face for every parametric family, all resolutions (Props/C14NoRepeat.lean)
                     "noRepeatedFace_of", "torus_noRepeatedFace", "unit_grid_noRepeatedFace", "sphere_uv_noRepeatedFace",
                     "cylinder_noRepeatedFace", "ring_noRepeatedFace", "flat_ring_noRepeatedFace", "unit_triangle_noRepeatedFace",
                     # round 5: no two faces with the same vertex SET (Props/C14Distinct.lean); normal-form layer for 5 more families
                     "torus_quads_sameSet", "torus_tris_sameSet", "grid_quads_sameSet", "grid_tris_sameSet", "torus_facesDistinct",
                     "unit_grid_facesDistinct", "fan_facesDistinct", "flat_ring_facesDistinct", "ring_facesDistinct",
                     "cylinder_facesDistinct", "facesDistinct_flag",
                     # round 6
                     "sphere_uv_facesDistinct", "unit_triangle_facesDistinct",
                     "dual_loops", "dual_positions", "dual_face_is_ring", "mem_dualFaces", "dual_inRange", "dual_noUnused",
                     "dual_face_simple", "dual_closed",
                     "apex_cos_formula", "apex_cos_strict_mono", "ring_defect_monotone", "ring_bisect_axis_invariant",
                     "ring_apex_defect_within_tolerance_partial",
                     # round 7
                     "dual_side_unique", "dual_oriented", "apex_cos_bounds", "ring_bisect_width", "ring_bisect_terminates_partial",
                     "angle3ptsR_eq_source", "arg_eq_arccos", "angle3ptsR_apex", "ring_apex_defect_within_tolerance_real"]
# every function defined in the files C14 is anchored in: what ties it to the Lean side.  "translated": a Generated definition is
# re-extracted from that body on every run and a REQUIRED theorem (bridge / property) is stated about it; the part after the colon
# says which parts of the body are covered and what is left to the oracle.
_S, _F, _R, _P, _D, _T = ("mouette/procedural/shapes.py::", "mouette/procedural/flat.py::", "mouette/procedural/rings.py::",
                          "mouette/procedural/polylines.py::", "mouette/procedural/dual.py::", "mouette/procedural/transformations.py::")
SOURCE_MAP = {
    _S + "tetrahedron": "translated: whole body (faces + cells as terms of `volume`, stored corners) — tetrahedron_body, tetrahedron_outward, tetrahedron_closed_oriented",
    _S + "hexahedron": "translated: whole body (faces, cells, colour writes as terms of the three switches, stored corners) — hexahedron_body, hexahedron_colors_valid, hexahedron_*_closed_oriented",
    _S + "axis_aligned_cube": "translated: literal corners, forwarded switches — axis_cube_is_unit_cube, axis_cube_outward, axis_cube_forwards",
    _S + "hexahedron_4pts": "translated: corner expressions handed to hexahedron(), keyword binding — hexahedron_4pts_parallelepiped, hexahedron_4pts_outward, switches_forwarded",
    _S + "octahedron": "translated: `dual_mesh(axis_aligned_cube())` — octahedron_dodecahedron_counts; geometry by the oracle",
    _S + "icosahedron": "translated: face table and the twelve vertex expressions — icosahedron_closed_oriented, icosahedron_on_sphere, icosahedron_regular, icosahedron_outward; the unused `uv` parameter is not looked at",
    _S + "dodecahedron": "translated: `dual_mesh(icosahedron())` — octahedron_dodecahedron_counts; geometry by the oracle",
    _S + "cylinder": "translated: face loops (normal-form layer cylinderFaces_norm) and vertex loops — cylinderFaces_eq, cylinder_facesDistinct, cylinder_*_euler, cylinder_ring_point",
    _S + "torus": "translated: face loops and vertex loops — torusFaces_norm, torus_*_euler, torus_on_torus_all",
    _S + "sphere_uv": "translated: face loops (normal-form layer sphere_uvFaces_norm) and vertex loops — sphere_uvFaces_eq, sphere_uv_euler, sphere_uv_on_sphere_all",
    _S + "icosphere": "translated: loop skeleton (rounds of loop_subdivision + projection), both projection statements, base-mesh binding — icosphere_counts, icosphere_projection_on_sphere; the subdivision itself belongs to C13 (counts recurrence restated), manifoldness of the result by the oracle",
    _S + "sphere_fibonacci": "translated: point formula of the sampling loop and the orientation branch — fibonacci_point_on_sphere, fibonacci_outward, triangulated_sphere_face_count; the hull (qhull) is external: topology by the oracle",
    _F + "triangle": "translated: face table and stored corners — triangle_disk, triangle_corners",
    _F + "quad": "translated: both face tables and stored corners — quad_disk, quad_parallelogram_corners",
    _F + "unit_grid": "translated: face loops and vertex loops — unit_gridFaces_norm, unit_grid_*_euler, unit_grid_in_unit_square; the uv attribute by the oracle",
    _F + "unit_triangle": "translated: face loops (normal-form layer unit_triangleFaces_norm) and vertex loops — unit_triangleFaces_addressed, unit_triangle_disk (nu >= nv; open finding for nu < nv)",
    _R + "ring": "translated: face loop (normal-form layer ringFaces_norm), rim vertices, the bisection step with numpy aliasing — ring_*_euler, ring_rim_on_unit_circle, ring_bisect_step_spec; ring_defect_monotone, ring_apex_defect_within_tolerance_real (over R, angle_3pts = its source body: defect met within the stopping tolerance), ring_bisect_width / ring_bisect_terminates_partial (bracket halves every pass); float rounding, the extension phase's termination and the final value by the oracle",
    _R + "flat_ring": "translated: face loop (normal-form layer flat_ringFaces_norm) and the chained rotations — flat_ring_euler, flat_ring_facesDistinct, flat_ring_angle",
    _P + "chain_of_vertices": "translated: edge list through the pair iterators — chain_open, chain_loop; vertex positions (from_arrays) by the oracle",
    _P + "vector_field": "translated: edge loop and the two points stored per row — vector_field_edges, vector_field_points; the shape checks / padding by the oracle",
    _D + "dual_mesh": "translated: both loops as functional terms (dualVerts, dualFaces), mode dispatch — dual_loops, dual_positions, dual_face_is_ring, dual_inRange, dual_noUnused, dual_closed, dual_oriented (under the ring hypothesis RingAt = what C01's ring_sorted gives for vertex_to_faces; the hypothesis is checked on every explored base mesh), dual_counts, dual_modes_as_named; the attribute functions (barycentre / circumcentre) belong to C07: positions by the oracle",
    _T + "spherify_vertices": "translated: argument binding of icosphere(), loop + merge — transform_bindings, spherify_counts; merge belongs to C06",
    _T + "cylindrify_edges": "translated: argument binding of cylinder(), loop + merge — transform_bindings, cylindrify_counts; mean_edge_length belongs to C07",
}

TRUSTED = [
    "Lean 4.33.0 kernel; axioms ⊆ {propext, Classical.choice, Quot.sound}",
    "translators vlib/pyloops.py (face/edge loop nests, literal tables) and vlib/pyverts.py (vertex positions as expressions over a "
    "field with uninterpreted cos/sin/pi) + vlib/props/c14.py; both are validated on every run: the evaluated face/edge terms are "
    "compared with the lists the implementation returns (order included), and the position expressions, evaluated with floats, with "
    "the returned vertices (1e-9); the Lean PRINTER of pyverts is trusted",
    "Python ints modelled as Nat (truncated subtraction): exact on admissible parameters, where no subtraction underflows",
    "abstract cos/sin/pi/normalize/min/max: the geometry theorems assume cos² + sin² = 1 and that `normalize` returns a unit multiple "
    "of its argument; float comparison guards (`t.norm() < 1e-6`, `abs(angle) < 1e-12`) are opaque Booleans and the theorems hold "
    "for both outcomes; the ring's apex (found by a float bisection) is opaque: its angle defect is checked numerically only",
    "generators built on subdivision / qhull (icosphere after subdivision, sphere_fibonacci's hull, cylindrify_edges, "
    "spherify_vertices) and the geometry of dual meshes are checked by the oracle on a box of parameters; proved for them: the "
    "icosphere projection formula, the dual counts, `closed oriented triangulation with χ = 2 ⇒ F = 2V − 4`",
]
ASSUMPTIONS = ["floating point rounding of the vertex positions is not modelled (expressions are exact over a field)",
               "correspondence and oracle cover the parameter box of the tier only (theorems cover all parameters)"]
RULE = ("every generator × all integer resolutions in a box (quick 2..7, thorough 2..16, unequal resolutions included) × all boolean "
        "switches × random centres / radii (torus: independent major and minor radius) / corners, dual_mesh modes and base meshes, "
        "vector_field length_mult and dimension; a quarter of the cases in integer representation; documented defaults after other "
        "values; non-trivial = distinct parameter tuple for which the generator returned a mesh")
MANIFEST = {
    "level_text": ("Proof over translated source. The face/edge-emitting loop nests, the literal tables AND the vertex-emitting code of "
                   "mouette/procedural/{shapes,flat,rings,polylines,dual}.py are re-extracted from the working tree on every run (Python ast "
                   "-> functional Lean terms; positions as expressions over a field with uninterpreted cos/sin) and the theorems are "
                   "re-checked against them. Literal tables (tetrahedron, hexahedron x2, icosahedron, triangle, quad): closed / consistently "
                   "oriented / no unused vertex / no repeated face / chi by kernel evaluation. For ALL admissible parameters (equal or unequal "
                   "resolutions): counts equal the documented functions, indices in range, no unused vertex (unit_grid, torus, sphere_uv, "
                   "cylinder, ring, flat_ring; unit_triangle for nu>=nv); every directed side in at most one face (consistent orientation); "
                   "Euler characteristic with E = number of distinct undirected vertex pairs: torus 0 (quads and triangles), sphere_uv 2, "
                   "cylinder 2 with caps and 0 without, unit_grid / unit_triangle / ring / open ring / flat_ring 1; border: none for the "
                   "closed shapes, and for the others the unmatched sides are exactly the sides of explicit vertex-disjoint polygons "
                   "(open cylinder: two N-gons; grid: one perimeter loop of 2(nu-1)+2(nv-1) sides; triangle: 3(nv-1); rings: one loop); "
                   "one connected component (torus, grid, sphere_uv); vertex umbrellas (torus, interior grid vertices, every sphere_uv vertex). "
                   "Geometry of the translated position expressions, for all parameters, given cos²+sin²=1: torus points satisfy the "
                   "implicit torus equation of the NAMED major/minor radii, sphere_uv points are at the named radius from the named centre, "
                   "grid/triangle points lie in the unit square (corners present), ring rim on the unit circle at the indexed angles, "
                   "flat_ring rim unit and turning by (2π − clamp(defect))/N per step, cylinder ring points in the end planes at the named "
                   "radius from the axis; `vertex k is the point (i,j)` index theorems. Derived generators: icosphere projection formula on "
                   "the sphere, dual counts (octahedron 6/8, dodecahedron 20/12), closed oriented triangulation with chi=2 has 2V−4 faces "
                   "(sphere_fibonacci), chain_of_vertices is a path / a cycle, vector_field edges. hexahedron_4pts forwards its switches by "
                   "name. Oracle-only (parameter box): subdivision/qhull-based generators' topology and geometry, dual positions, ring apex "
                   "defect, tube/ball radii (partial). "
                   "Round 4: the generators that are not loop nests are translated as WHOLE BODIES (tetrahedron / hexahedron: faces, cells and "
                   "colour writes as terms of the switches, bridged to the decided tables; stored corner expressions of triangle, quad, "
                   "tetrahedron, hexahedron, icosahedron; corners handed on by hexahedron_4pts / axis_aligned_cube; loop skeleton of icosphere; "
                   "argument bindings of spherify_vertices / cylindrify_edges; mode dispatch of dual_mesh; point formula and orientation branch "
                   "of sphere_fibonacci; vector_field points). Theorems: faces look OUTWARD (tetrahedron for positively oriented corners, every "
                   "parallelepiped of hexahedron_4pts with a right-handed basis, the axis aligned cube, the icosahedron, the triangles stored by "
                   "sphere_fibonacci), the icosahedron is regular given phi^2 = phi + 1 and on the sphere of radius r*sqrt(1+phi^2), colours "
                   "only on existing faces and by axis, icosphere / spherify / cylindrify counts."),
    "level_note": ("Trusted: Lean kernel + standard axioms; the two ast translators (validated by exact face-list and 1e-9 vertex comparison "
                   "on the box each run); Nat for Python ints on admissible parameters; float rounding not modelled; cos/sin/normalize "
                   "abstract. Open finding: unit_triangle(nu<nv)."),
    "technique": "Lean 4 theorems over source-translated terms (decide on tables, induction/omega/ring on loop nests and position expressions) + translation validation + oracle",
}


_FAMILY_PREFIX = [("flat_ring", {"flat_ring"}), ("unit_triangle", {"unit_triangle"}), ("unit_grid", {"unit_grid"}), ("sphere_uv", {"sphere_uv"}),
                  ("cylinder", {"cylinder"}), ("torus", {"torus"}), ("ring", {"ring"}), ("fan", {"ring", "flat_ring"}), ("sph", {"sphere_uv"}),
                  ("cyl", {"cylinder"}), ("grid", {"unit_grid"}), ("tri", {"unit_triangle"}), ("tv", {"unit_triangle"}), ("lin", {"unit_grid", "unit_triangle"})]
_PARAM_GENS = ("unit_grid", "unit_triangle", "torus", "sphere_uv", "cylinder", "ring", "flat_ring")


def _family_of_name(name):
    for pre, fam in _FAMILY_PREFIX:
        if name.startswith(pre): return fam
    return None


def _families_of_break(broken, mismatches):
    """the parametric families everything that broke belongs to, or None when that cannot be told (then the search covers all):
    translation sites are named `<file>:<function> …`; a build error `Mouette/<dir>/<file>.lean:<line>` is attributed to the family
    the enclosing theorem is named after (`ringFaces_norm`, `cylinder_open_euler`, `sph_face_sides` …)"""
    import re
    from ..leanio import LEAN
    fams = set()
    if not broken and not mismatches: return None
    for b_ in broken:
        if b_["kind"] == "translator":
            m = re.search(r"\.py:(\w+)", b_["name"])
            if not m or m.group(1) not in _PARAM_GENS: return None
            fams.add(m.group(1))
        elif b_["kind"] == "lake-build":
            errs = re.findall(r"(Mouette/(?:Props|Lemmas)/C14\w*\.lean):(\d+)", b_["detail"])
            other = re.findall(r"error: (Mouette/\S+\.lean)", b_["detail"])
            if not errs or any(not o.startswith(("Mouette/Props/C14", "Mouette/Lemmas/C14")) for o in other): return None
            for path, line in errs:
                try: lines = open(os.path.join(LEAN, path)).read().split("\n")[:int(line)]
                except OSError: return None
                names = [re.match(r"\s*(?:theorem|lemma|example|def)\s+(\w+)", l) for l in lines]
                names = [m.group(1) for m in names if m]
                f = _family_of_name(names[-1]) if names else None
                if f is None: return None
                fams |= f
        elif b_["kind"] != "missing-theorem": return None
    for m_ in mismatches:
        g = m_[0].get("gen") if isinstance(m_[0], dict) else None
        if g not in _PARAM_GENS: return None
        fams.add(g)
    return fams or None


def search_on_break(rng, broken, mismatches):
    """A proof obligation, a translation site or the correspondence broke: widen the failing-input search far beyond the
    tier's box — every integer parameter of every parametric generator is swept up to 400 (others kept small).
    When everything that broke belongs to the round-4 layer (Props/C14Solids.lean, the sites of vlib/gen/c14solids.py, a mismatch on
    one of those generators) the search is aimed at those generators instead: all switch combinations, fresh corners / centres /
    radii, more sizes."""
    import re
    solid_gens = set(SOLID_CORNERS) | set(FULL_BODY) | {"icosphere", "sphere_fibonacci", "dual_mesh", "spherify_vertices", "cylindrify_edges",
                                                        "vector_field", "octahedron", "dodecahedron"}
    solids_only = bool(broken) or bool(mismatches)
    solid_sites = {n for n, _ in SOL.sites()}
    for b_ in broken:
        if b_["kind"] == "lake-build":
            fs = set(re.findall(r"Mouette/(?:Props|Lemmas|Generated|Model)/(\w+)\.lean", b_["detail"]))
            if not fs or not fs <= {"C14Solids", "C14SolidsGeom", "C14SolidsLemmas", "C14Dual", "C14DualLemmas"}: solids_only = False
        elif b_["kind"] == "translator":
            if b_["name"] not in solid_sites: solids_only = False
        elif b_["kind"] != "missing-theorem": solids_only = False
    for m_ in mismatches:
        if not (isinstance(m_[0], dict) and m_[0].get("gen") in solid_gens): solids_only = False
    if solids_only:
        B = (False, True)
        out = []
        for _ in range(3):
            out += [{"gen": "tetrahedron", "ints": [], "bools": [], "volume": v} for v in B]
            out += [{"gen": "hexahedron", "ints": [], "bools": [t], "colored": c, "volume": v} for t in B for c in B for v in B]
            out += [{"gen": "hexahedron_4pts", "ints": [], "bools": [], "colored": c, "volume": v} for c in B for v in B]
            out += [{"gen": "axis_aligned_cube", "ints": [], "bools": [t], "colored": c} for t in B for c in B]
            out += [{"gen": "quad", "ints": [], "bools": [t]} for t in B]
            out += [{"gen": g, "ints": [], "bools": []} for g in ("triangle", "icosahedron", "octahedron", "dodecahedron")]
            out += [{"gen": "icosphere", "ints": [n], "bools": []} for n in (0, 1, 2)]
            out += [{"gen": "vector_field", "ints": [n], "bools": [], "length_mult": lm, "dim": d} for n in (1, 3, 7) for lm in (1.0, 0.5, -3.0) for d in (2, 3)]
            out += [{"gen": "dual_mesh", "ints": [a, 4], "bools": [], "mode": md} for a in (3, 5) for md in ("barycenter", "circumcenter", "Circumcenter")]
            out += [{"gen": "cylindrify_edges", "ints": [n], "bools": []} for n in (3, 4, 7, 12)]
            out += [{"gen": "spherify_vertices", "ints": [n], "bools": []} for n in (0, 1, 2)]
        out += [{"gen": "sphere_fibonacci", "ints": [n], "bools": [True]} for n in list(range(4, 40)) + [64, 100, 150, 200]]
        out += [{"gen": "sphere_fibonacci", "ints": [n], "bools": [False]} for n in (1, 2, 3, 50)]
        for c in out:
            c["geo"] = _geo(rng)
            if rng.random() < 0.25: _integer_rep(c)
        return out
    fam = _cyl_family_cases(rng, (3, 5, 12))
    for c in fam: c["geo"] = _geo(rng)
    # only `cylinder` broke (its translation sites, the files that hold its theorems, mismatches on it): the axis family and the
    # sweep of its resolution are the whole search
    cyl_only = bool(broken) or bool(mismatches)
    for b_ in broken:
        if b_["kind"] == "lake-build":
            fs = set(re.findall(r"Mouette/(?:Props|Lemmas|Generated|Model)/(\w+)\.lean", b_["detail"]))
            if not fs or not fs <= {"C14Verts", "C14Cylinder", "C14CylinderTopo"}: cyl_only = False
        elif b_["kind"] == "translator":
            if ":cylinder" not in b_["name"]: cyl_only = False
        elif b_["kind"] != "missing-theorem": cyl_only = False
    for m_ in mismatches:
        if not (isinstance(m_[0], dict) and m_[0].get("gen") in ("cylinder", "cylindrify_edges")): cyl_only = False
    mins = {"unit_grid": (2, 2), "unit_triangle": (2, 2), "torus": (3, 3), "sphere_uv": (1, 3), "cylinder": (3,),
            "ring": (3, 1), "flat_ring": (3, 1)}
    if cyl_only: mins = {"cylinder": (3,)}
    # a break confined to some parametric families (error lines inside theorems named after them, their translation sites, mismatches
    # on them): sweep those families only, and for the rings add the full product resolution x covers x open/closed x defects
    fams = None if cyl_only else _families_of_break(broken, mismatches)
    extra = []
    if fams is not None:
        mins = {g: v for g, v in mins.items() if g in fams}
        if "cylinder" not in fams: fam = []
        if fams & {"ring", "flat_ring"}:
            for n in range(3, 25):
                for c_ in (1, 2, 3, 4):
                    dv = rng.choice(DEFECTS)
                    if "ring" in fams: extra += [{"gen": "ring", "ints": [n, c_], "bools": [o], "geo": dict(_geo(rng), defect=dv)} for o in (False, True)]
                    if "flat_ring" in fams: extra.append({"gen": "flat_ring", "ints": [n, c_], "bools": [], "geo": dict(_geo(rng), defect=dv)})
            if "ring" in fams:
                extra += [{"gen": "ring", "ints": [n, 1], "bools": [o], "geo": dict(_geo(rng), defect=dv)} for dv in DEFECTS + [5.9, 6.1]
                          for n in (3, 4, 5, 6, 8, 10, 25) for o in (False, True)]
    nb = {"unit_grid": 2, "unit_triangle": 1, "torus": 1, "sphere_uv": 0, "cylinder": 1, "ring": 1, "flat_ring": 0}
    out = []
    for g, lo in mins.items():
        for k in range(len(lo)):
            hi = 400 if not (g in ("ring", "flat_ring") and k == 1) else 6
            if g in ("unit_grid", "unit_triangle"): hi = 48      # quadratic size
            for n in range(lo[k], hi + 1):
                ints = [max(l, 3) for l in lo]
                ints[k] = n
                if g == "unit_triangle" and ints[0] < ints[1]: ints[0] = ints[1]
                bools = [rng.random() < 0.5 for _ in range(nb[g])]
                out.append({"gen": g, "ints": ints, "bools": bools, "geo": _geo(rng)})
    return fam + extra + out
