"""C14 — procedural generators give valid meshes of the promised shape, all parameters."""
import ast, math, itertools
from fractions import Fraction

from .. import translate as T
from .. import pyloops as PL

PID = "C14"
TITLE = "Procedural generators give valid meshes of the promised shape, all parameters"
LEAN_MODULES = ["Mouette.Props.C14", "Mouette.Props.C14NoUnused", "Mouette.Props.C14Oriented", "Mouette.Props.C14Sphere", "Mouette.Props.C14Cylinder", "Mouette.Props.C14Rings", "Mouette.Props.C14Triangle", "Mouette.Props.C14Geom"]

# ------------------------------------------------------------------------------------------------
# translated fragments
# ------------------------------------------------------------------------------------------------
# (file, function, container variable, int params, bool params)
PARAMETRIC = [
    ("mouette/procedural/flat.py", "unit_grid", "out", ["nu", "nv"], ["triangulate", "generate_uvs"]),
    ("mouette/procedural/flat.py", "unit_triangle", "out", ["nu", "nv"], ["generate_uvs"]),
    ("mouette/procedural/shapes.py", "torus", "out", ["major_segments", "minor_segments"], ["triangulate"]),
    ("mouette/procedural/shapes.py", "sphere_uv", "sp", ["n_lat", "n_long"], []),
    ("mouette/procedural/shapes.py", "cylinder", "cy", ["N"], ["fill_caps"]),
    ("mouette/procedural/rings.py", "ring", "ring", ["N", "n_cover"], ["open"]),
    ("mouette/procedural/rings.py", "flat_ring", "ring", ["N", "n_cover"], []),
]
TABLES = [
    ("mouette/procedural/shapes.py", "tetrahedron", "tet"),
    ("mouette/procedural/shapes.py", "icosahedron", "m"),
    ("mouette/procedural/flat.py", "triangle", "out"),
]
LEAN_KEYWORDS = {"open": "isOpen"}


def _rn(n):
    return LEAN_KEYWORDS.get(n, n)


def _rename(fn, mapping):
    class R(ast.NodeTransformer):
        def visit_Name(self, node):
            if node.id in mapping: node.id = mapping[node.id]
            return node
    return R().visit(fn)


def _sig(ints, bools):
    s = ""
    if ints: s += " (" + " ".join(_rn(i) for i in ints) + " : Nat)"
    if bools: s += " (" + " ".join(_rn(b) for b in bools) + " : Bool)"
    return s


def _translate_parametric(path, fname, var, ints, bools):
    tree, _ = T.load(path)
    fn = _rename(T.find_def(tree, fname), LEAN_KEYWORDS)
    ints_l, bools_l = [_rn(i) for i in ints], [_rn(b) for b in bools]
    cxv = PL.Ctx(var, "vertices", ints_l, bools_l, elem="unit")
    nverts = PL.emits(list(fn.body), cxv)
    args = " ".join(ints_l + bools_l)
    cxf = PL.Ctx(var, "faces", ints_l, bools_l, nverts_expr=f"{fname}NVerts {args}", elem="face")
    faces = PL.emits(list(fn.body), cxf)
    sig = _sig(ints, bools)
    return (f"/-- number of `vertices.append` executions of `{fname}` ({path}) -/\n"
            f"def {fname}NVerts{sig} : Nat :=\n  (({nverts} : List Unit)).length\n\n"
            f"/-- faces appended by `{fname}` ({path}), in order -/\n"
            f"def {fname}Faces{sig} : List (List Nat) :=\n  {faces}\n\n")


def _collect_tables(fn, var):
    """all literal lists of int tuples appended to <var>.faces, keyed by the chain of enclosing `if` tests"""
    out = []

    def walk(stmts, path):
        for s in stmts:
            if isinstance(s, ast.If):
                t = ast.unparse(s.test)
                walk(s.body, path + [t]); walk(s.orelse, path + ["not " + t])
            elif isinstance(s, ast.AugAssign) and isinstance(s.target, ast.Attribute) and s.target.attr == "faces" \
                    and isinstance(s.target.value, ast.Name) and s.target.value.id == var:
                out.append((path, T.int_literal_table(s.value)))
            elif isinstance(s, ast.Expr) and isinstance(s.value, ast.Call) and isinstance(s.value.func, ast.Attribute) \
                    and s.value.func.attr == "append" and isinstance(s.value.func.value, ast.Attribute) \
                    and s.value.func.value.attr == "faces" and s.value.func.value.value.id == var:
                out.append((path, [T.int_literal_table(s.value.args[0])]))
    walk(fn.body, [])
    return out


def _nverts_literal(fn, var):
    """vertex count of a table generator: length of the single list literal added to <var>.vertices"""
    for s in ast.walk(fn):
        if isinstance(s, ast.AugAssign) and isinstance(s.target, ast.Attribute) and s.target.attr == "vertices":
            v = s.value
            if isinstance(v, ast.List): return len(v.elts)
            if isinstance(v, ast.ListComp) and isinstance(v.generators[0].iter, ast.List): return len(v.generators[0].iter.elts)
    raise T.TranslateError("vertex list literal not found")


def translate():
    sites, body = [], ""

    def add(name, fn):
        nonlocal body
        def run():
            nonlocal body
            txt = fn()
            body += txt
            return f"{len(txt)} chars"
        sites.append(T.site(name, run))

    for path, fname, var, ints, bools in PARAMETRIC:
        add(f"{path}:{fname} (loop nest -> functional term)", lambda p=path, f=fname, v=var, i=ints, b=bools: _translate_parametric(p, f, v, i, b))
    for path, fname, var in TABLES:
        def tab(p=path, f=fname, v=var):
            tree, _ = T.load(p)
            fn = T.find_def(tree, f)
            tabs = _collect_tables(fn, v)
            if len(tabs) != 1: raise T.TranslateError(f"expected one face table in {f}, found {len(tabs)}")
            return (f"def {f}NVerts : Nat := {_nverts_literal(fn, v)}\n"
                    f"def {f}Faces : List (List Nat) := {T.lean_nat_table(tabs[0][1])}\n\n")
        add(f"{path}:{fname} (literal face table)", tab)

    def hexa():
        tree, _ = T.load("mouette/procedural/shapes.py")
        fn = T.find_def(tree, "hexahedron")
        tabs = _collect_tables(fn, "hexa")
        named = {}
        for pth, t in tabs:
            key = "Tri" if "triangulate" in pth else ("Quad" if "not triangulate" in pth else None)
            if key: named[key] = t
        if set(named) != {"Tri", "Quad"}: raise T.TranslateError(f"hexahedron tables not found: {[p for p, _ in tabs]}")
        return (f"def hexahedronNVerts : Nat := {_nverts_literal(fn, 'hexa')}\n"
                f"def hexahedronFacesTri : List (List Nat) := {T.lean_nat_table(named['Tri'])}\n"
                f"def hexahedronFacesQuad : List (List Nat) := {T.lean_nat_table(named['Quad'])}\n\n")
    add("mouette/procedural/shapes.py:hexahedron (two literal face tables)", hexa)

    def quad():
        tree, _ = T.load("mouette/procedural/flat.py")
        fn = T.find_def(tree, "quad")
        tabs = _collect_tables(fn, "out")
        named = {("Tri" if "triangulate" in p else "Quad"): t for p, t in tabs}
        if set(named) != {"Tri", "Quad"}: raise T.TranslateError("quad tables not found")
        return (f"def quadNVerts : Nat := {_nverts_literal(fn, 'out')}\n"
                f"def quadFacesTri : List (List Nat) := {T.lean_nat_table(named['Tri'])}\n"
                f"def quadFacesQuad : List (List Nat) := {T.lean_nat_table(named['Quad'])}\n\n")
    add("mouette/procedural/flat.py:quad (two literal face tables)", quad)

    def binding():
        """which parameter of hexahedron() each switch of hexahedron_4pts() reaches"""
        tree, _ = T.load("mouette/procedural/shapes.py")
        callee = T.find_def(tree, "hexahedron")
        caller = T.find_def(tree, "hexahedron_4pts")
        params = [a.arg for a in callee.args.args]
        calls = [n for n in ast.walk(caller) if isinstance(n, ast.Call) and isinstance(n.func, ast.Name) and n.func.id == "hexahedron"]
        if len(calls) != 1: raise T.TranslateError("call to hexahedron not found in hexahedron_4pts")
        c = calls[0]
        bind = []
        for i, a in enumerate(c.args):
            if isinstance(a, ast.Name) and a.id in ("colored", "volume", "triangulate"):
                bind.append((a.id, params[i]))
        for kw in c.keywords:
            if isinstance(kw.value, ast.Name) and kw.value.id in ("colored", "volume", "triangulate"):
                bind.append((kw.value.id, kw.arg))
        rows = ", ".join(f'("{a}", "{b}")' for a, b in sorted(bind))
        return f"/-- (switch of hexahedron_4pts, parameter of hexahedron it is bound to) -/\ndef hexa4ptsBinding : List (String × String) := [{rows}]\n\n"
    add("mouette/procedural/shapes.py:hexahedron_4pts (argument binding of the forwarded switches)", binding)

    T.write_generated("C14", body + "end Mouette.Generated.C14\n", header="set_option linter.unusedVariables false\nnamespace Mouette.Generated.C14\n\n")
    return sites


# ------------------------------------------------------------------------------------------------
# cases
# ------------------------------------------------------------------------------------------------
MODELLED = {"unit_grid": (2, 2), "unit_triangle": (2, 1), "torus": (2, 1), "sphere_uv": (2, 0), "cylinder": (1, 1),
            "ring": (2, 1), "flat_ring": (2, 0), "tetrahedron": (0, 0), "icosahedron": (0, 0), "triangle": (0, 0),
            "hexahedron": (0, 1), "quad": (0, 1)}


def _geo(rng):
    d = lambda: rng.randint(-24, 24) / 8
    return {"center": [d(), d(), d()], "radius": rng.choice([0.125, 0.5, 1.0, 2.5, 7.0]),
            "P": [[d(), d(), d()] for _ in range(8)], "defect": rng.choice([0.0, 0.25, 0.5, 1.0, 2.0, 4.0])}


def cases(rng, tier):
    hi = 7 if tier == "quick" else 16
    B = (False, True)
    out = []
    for a in range(2, hi + 1):
        for b in range(2, hi + 1):
            for t in B:
                out.append({"gen": "unit_grid", "ints": [a, b], "bools": [t, rng.random() < 0.3]})
            out.append({"gen": "unit_triangle", "ints": [a, b], "bools": [rng.random() < 0.3]})
    for a in range(3, hi + 1):
        for b in range(3, hi + 1):
            for t in B:
                out.append({"gen": "torus", "ints": [a, b], "bools": [t]})
    for a in range(1, hi + 1):
        for b in range(3, hi + 1):
            out.append({"gen": "sphere_uv", "ints": [a, b], "bools": []})
    for n in range(3, 3 * hi):
        for t in B:
            out.append({"gen": "cylinder", "ints": [n], "bools": [t]})
    for n in range(3, 2 * hi):
        for c in (1, 2, 3):
            for o in B:
                out.append({"gen": "ring", "ints": [n, c], "bools": [o]})
            out.append({"gen": "flat_ring", "ints": [n, c], "bools": []})
    out += [{"gen": "tetrahedron", "ints": [], "bools": [], "volume": v} for v in B]
    out += [{"gen": "hexahedron", "ints": [], "bools": [t], "colored": c, "volume": v} for t in B for c in B for v in B]
    out += [{"gen": "quad", "ints": [], "bools": [t]} for t in B]
    out += [{"gen": "triangle", "ints": [], "bools": []}, {"gen": "icosahedron", "ints": [], "bools": []}]
    # generators that are not modelled in Lean (depend on subdivision / qhull / dual): oracle battery only
    out += [{"gen": "axis_aligned_cube", "ints": [], "bools": [t], "colored": c} for t in B for c in B]
    out += [{"gen": "hexahedron_4pts", "ints": [], "bools": [], "colored": c, "volume": v} for c in B for v in B]
    out += [{"gen": g, "ints": [], "bools": []} for g in ("octahedron", "dodecahedron", "binding")]
    out += [{"gen": "icosphere", "ints": [n], "bools": []} for n in range(0, 3 if tier == "quick" else 4)]
    out += [{"gen": "sphere_fibonacci", "ints": [n], "bools": [True]} for n in ([4, 7, 12, 30, 100] if tier == "quick" else list(range(4, 60)) + [300])]
    out += [{"gen": "dual_mesh", "ints": [a, b], "bools": []} for a in (3, 4, 5) for b in (3, 5)]
    out += [{"gen": "chain_of_vertices", "ints": [n], "bools": [l]} for n in (3, 4, 6) for l in B]
    out += [{"gen": "cylindrify_edges", "ints": [n], "bools": []} for n in (3, 5)]
    out += [{"gen": "spherify_vertices", "ints": [n], "bools": []} for n in (0, 1)]
    for c in out:
        c["geo"] = _geo(rng)
        if rng.random() < 0.25: _integer_rep(c)
    # documented defaults, after the generator was used with other values
    dflt = [{"gen": "sphere_uv", "ints": [a, b], "bools": []} for a, b in ((1, 3), (3, 4), (4, 7))]
    dflt += [{"gen": "icosphere", "ints": [n], "bools": []} for n in (0, 1)]
    dflt += [{"gen": "icosahedron", "ints": [], "bools": []}]
    dflt += [{"gen": "torus", "ints": [a, b], "bools": [t]} for (a, b) in ((3, 3), (5, 4)) for t in B]
    dflt += [{"gen": "cylinder", "ints": [n], "bools": [t]} for n in (3, 6) for t in B]
    for c in dflt:
        c["geo"] = _geo(rng); c["defaults"] = True
        c["geo"].update(center=[0., 0., 0.], radius=(0.3 if c["gen"] == "torus" else 1.0))
        if c["gen"] == "torus": c["geo"]["R"] = 1.0
    return out + dflt


def _integer_rep(c):
    """the same parameters in another numeric representation: centres, corner points and end points with INTEGER coordinates
    (an integer-dtype Vec), integer radius and defect, resolutions as numpy.int64. Positions must not be truncated."""
    g = c["geo"]
    g["center"] = [int(round(x)) for x in g["center"]]
    g["P"] = [[int(round(x)) + (i if k == 0 else 0) for k, x in enumerate(p)] for i, p in enumerate(g["P"])]
    g["radius"] = int(max(1, round(g["radius"])))
    g["defect"] = int(g["defect"])
    c["rep"] = "int"
    return c


def model_request(case):
    g = case["gen"]
    if g == "binding": return "binding"
    if g not in MODELLED: return None
    if case.get("volume"): return None          # volume meshes: faces come from cell completion (C02), not from the table
    return " ".join([g] + [str(i) for i in case["ints"]] + ["1" if b else "0" for b in case["bools"]])


# ------------------------------------------------------------------------------------------------
# running the implementation
# ------------------------------------------------------------------------------------------------
def _run(case):
    import mouette as M
    import numpy as np
    P = M.procedural
    g, I, Bo, geo = case["gen"], case["ints"], case["bools"], case["geo"]
    if case.get("rep") == "int": I = [np.int64(i) for i in I]
    held = []                      # Vec arguments handed to the generator: the caller's vectors must come back unchanged

    def V(p):
        v = M.Vec(*p); held.append((v, np.array(v, copy=True))); return v
    try:
        return _run_gen(case, M, np, P, g, I, Bo, geo, V)
    finally:
        _LAST["args_changed"] = any(a.dtype != b.dtype or a.shape != b.shape or not np.array_equal(np.asarray(a), b) for a, b in held)


_LAST = {"args_changed": False}


def _run_gen(case, M, np, P, g, I, Bo, geo, V):
    if case.get("defaults"):
        # the documented defaults (centre = origin, radius = 1, torus radii 1 / 0.3, cylinder radius 1): the generator is first
        # used with other values, then called with the arguments left out; geo holds the documented default values
        other = V([3, -2, 5])
        if g == "sphere_uv": P.sphere_uv(I[0], I[1], other, 2.5); return P.sphere_uv(I[0], I[1])
        if g == "icosphere": P.icosphere(I[0], other, 2.5); return P.icosphere(I[0])
        if g == "icosahedron": P.icosahedron(other, 2.5); return P.icosahedron()
        if g == "torus": P.torus(I[0], I[1], 3., 0.5, triangulate=Bo[0]); return P.torus(I[0], I[1], triangulate=Bo[0])
        if g == "cylinder":
            P.cylinder(other, other + M.Vec(1., 2., 2.), 2.5, I[0], fill_caps=Bo[0])
            return P.cylinder(V(geo["P"][0]), V(geo["P"][0]) + M.Vec(1., 2., 2.), N=I[0], fill_caps=Bo[0])
        raise ValueError(g)
    if g == "unit_grid": return P.unit_grid(I[0], I[1], triangulate=Bo[0], generate_uvs=Bo[1])
    if g == "unit_triangle": return P.unit_triangle(I[0], I[1], generate_uvs=Bo[0])
    if g == "torus": return P.torus(I[0], I[1], geo.get("R", 4 * geo["radius"]), geo["radius"], triangulate=Bo[0])
    if g == "sphere_uv": return P.sphere_uv(I[0], I[1], V(geo["center"]), geo["radius"])
    if g == "cylinder": return P.cylinder(V(geo["P"][0]), V(geo["P"][0]) + M.Vec(1., 2., 2.), geo["radius"], I[0], fill_caps=Bo[0])
    if g == "ring": return P.ring(I[0], geo["defect"], Bo[0], I[1])
    if g == "flat_ring": return P.flat_ring(I[0], geo["defect"], I[1])
    if g == "tetrahedron": return P.tetrahedron(*[V(p) for p in _tet_pts(geo)], volume=case["volume"])
    if g == "hexahedron": return P.hexahedron(*[V(p) for p in _hex_pts(geo)], colored=case["colored"], triangulate=Bo[0], volume=case["volume"])
    if g == "hexahedron_4pts":
        q = _hex_pts(geo)
        return P.hexahedron_4pts(V(q[0]), V(q[1]), V(q[3]), V(q[4]), colored=case["colored"], volume=case["volume"])
    if g == "axis_aligned_cube": return P.axis_aligned_cube(colored=case["colored"], triangulate=Bo[0])
    if g == "quad": return P.quad(V(geo["P"][0]), V(geo["P"][1]), V(geo["P"][2]), triangulate=Bo[0])
    if g == "triangle": return P.triangle(V(geo["P"][0]), V(geo["P"][1]), V(geo["P"][2]))
    if g == "icosahedron": return P.icosahedron(V(geo["center"]), geo["radius"])
    if g == "octahedron": return P.octahedron()
    if g == "dodecahedron": return P.dodecahedron()
    if g == "icosphere": return P.icosphere(I[0], V(geo["center"]), geo["radius"])
    if g == "sphere_fibonacci": return P.sphere_fibonacci(I[0], geo["radius"], build_surface=Bo[0])
    if g == "dual_mesh": return P.dual_mesh(P.torus(I[0], I[1], 2., .5, triangulate=True))
    if g == "chain_of_vertices":
        return P.chain_of_vertices(np.array([[float(i), float(i * i), 0.5] for i in range(I[0])]), loop=Bo[0])
    if g == "cylindrify_edges":
        pl = P.chain_of_vertices(np.array([[0., 0., 0.], [1., 0., 0.], [1., 1., 0.5]]), loop=False)
        return P.cylindrify_edges(pl, radius=0.1, N=I[0])
    if g == "spherify_vertices":
        pc = M.mesh.from_arrays(np.array([[0., 0., 0.], [3., 0., 0.], [0., 3., 1.]]))
        return P.spherify_vertices(pc, radius=0.25, n_subdiv=I[0])
    raise ValueError(g)


def _tet_pts(geo):
    return [[0, 0, 0], [1, 0, 0], [0, 1, 0], [0, 0, 1]] if geo["radius"] == 1.0 else geo["P"][:4]


def _hex_pts(geo):
    o = geo["center"]
    base = [(0, 0, 0), (1, 0, 0), (1, 1, 0), (0, 1, 0), (0, 0, 1), (1, 0, 1), (1, 1, 1), (0, 1, 1)]
    s = geo["radius"]
    return [[o[k] + s * b[k] for k in range(3)] for b in base]


def _sides(f):
    return [(f[i], f[(i + 1) % len(f)]) for i in range(len(f))]


def _report(nV, F):
    """same line format as Mouette.DriveC14.report, computed independently in Python"""
    dire = [s for f in F for s in _sides(f)]
    dset = set(dire)
    flags = [all(0 <= v < nV for f in F for v in f),
             all(any(v in f for f in F) for v in range(nV)),
             all(len(f) >= 3 and len(set(f)) == len(f) for f in F),
             len({tuple(sorted(f)) for f in F}) == len(F),
             len(dset) == len(dire),
             all((b, a) in dset for (a, b) in dire)]
    E = len({(min(a, b), max(a, b)) for a, b in dire})
    border = sum(1 for (a, b) in dire if (b, a) not in dset)
    fl = " ".join([str(len(F))] + [" ".join([str(len(f))] + [str(v) for v in f]) for f in F])
    return f"{nV} ; {fl} ; {' '.join('1' if x else '0' for x in flags)} ; {E} {border} {nV - E + len(F)}"


def impl_observe(case):
    if case["gen"] == "binding":
        # what actually reaches hexahedron(): observe by calling hexahedron_4pts with each switch alone
        import mouette as M
        res = []
        q = _hex_pts(case["geo"])
        pts = [M.Vec(*q[0]), M.Vec(*q[1]), M.Vec(*q[3]), M.Vec(*q[4])]
        m = M.procedural.hexahedron_4pts(*pts, colored=True, volume=False)
        res.append("colored->" + ("colored" if m.faces.has_attribute("color") else ("triangulate" if len(m.faces[0]) == 3 else "?")))
        m = M.procedural.hexahedron_4pts(*pts, colored=False, volume=True)
        res.append("volume->" + ("volume" if type(m).__name__ == "VolumeMesh" else ("triangulate" if len(m.faces[0]) == 3 else "?")))
        return " ".join(res)
    try:
        m = _run(case)
    except Exception as e:  # noqa
        return f"err:{type(e).__name__}"
    F = [[int(v) for v in f] for f in m.faces] if hasattr(m, "faces") else []
    return _report(len(m.vertices), F)


def compare(case, model, impl):
    if model == impl: return None
    mp, ip = model.split(" ; "), impl.split(" ; ")
    if len(ip) != 4: return f"implementation raised {impl} where the translated generator yields a mesh"
    for name, a, b in zip(["vertex count", "face list", "validity flags", "E/border/chi"], mp, ip):
        if a != b: return f"{name} differs: translated-source model {a[:120]} vs implementation {b[:120]}"
    return "differs"


# ------------------------------------------------------------------------------------------------
# oracle: the statement of C14 on the implementation's output
# ------------------------------------------------------------------------------------------------
def _expected(case):
    """(V, F, chi, loops) documented for the generator; None = not fixed by the documentation"""
    g, I, Bo = case["gen"], case["ints"], case["bools"]
    if g == "unit_grid": return I[0] * I[1], (I[0] - 1) * (I[1] - 1) * (2 if Bo[0] else 1), 1, 1
    if g == "unit_triangle":
        n = min(I)
        return (n * (n + 1) // 2 if I[0] >= I[1] else None), ((n - 1) ** 2 if I[0] >= I[1] else None), 1, 1
    if g == "torus": return I[0] * I[1], I[0] * I[1] * (2 if Bo[0] else 1), 0, 0
    if g == "sphere_uv": return I[0] * I[1] + 2, 2 * I[1] + (I[0] - 1) * I[1], 2, 0
    if g == "cylinder": return 2 * I[0] + (2 if Bo[0] else 0), 2 * I[0] * (2 if Bo[0] else 1), (2 if Bo[0] else 0), (0 if Bo[0] else 2)
    if g == "ring": return I[0] * I[1] + 1 + (1 if Bo[0] else 0), I[0] * I[1], 1, 1
    if g == "flat_ring": return I[0] * I[1] + 2, I[0] * I[1], 1, 1
    if g == "tetrahedron": return 4, 4, 2, 0
    if g in ("hexahedron", "axis_aligned_cube", "hexahedron_4pts"):
        tri = bool(Bo and Bo[0]) and not case.get("volume")
        return 8, 12 if tri else 6, 2, 0
    if g == "quad": return 4, 2 if Bo[0] else 1, 1, 1
    if g == "triangle": return 3, 1, 1, 1
    if g == "icosahedron": return 12, 20, 2, 0
    if g == "octahedron": return 6, 8, 2, 0
    if g == "dodecahedron": return 20, 12, 2, 0
    if g == "icosphere": return 10 * 4 ** I[0] + 2, 20 * 4 ** I[0], 2, 0
    if g == "sphere_fibonacci": return I[0], 2 * I[0] - 4, 2, 0
    if g == "dual_mesh": return 2 * I[0] * I[1], I[0] * I[1], 0, 0
    return None


def oracle(case):
    from ..gen.mesh import surface_stats
    import numpy as np
    g, I, Bo, geo = case["gen"], case["ints"], case["bools"], case["geo"]
    out = []

    def bad(sub, what, detail=""):
        if g == "unit_triangle" and I[0] < I[1]:
            sub = "nu<nv"      # one structural key for this region whatever symptom shows
            what = "unit_triangle(nu, nv) with nu < nv is not a valid mesh (index arithmetic assumes full triangular rows)"
        if not any(o["key"] == f"C14/{g}/{sub}" for o in out):
            out.append({"key": f"C14/{g}/{sub}", "what": what, "detail": f"{detail} params ints={I} bools={Bo}"})
    if g == "binding":
        obs = impl_observe(case)
        if obs != "colored->colored volume->volume":
            bad("switches", "hexahedron_4pts does not forward its switches as named", obs)
        return out
    try:
        m = _run(case)
    except Exception as e:  # noqa
        bad("raises", f"generator raised {type(e).__name__} on admissible parameters", str(e)[:200])
        return out
    if _LAST["args_changed"]:
        bad("argument-changed", "a Vec handed to the generator (centre / corner / end point) was modified by the call")
    kind = type(m).__name__
    nV = len(m.vertices)
    pts = np.array([[float(c) for c in v] for v in m.vertices]) if nV else np.zeros((0, 3))
    if g == "chain_of_vertices":
        E = sorted(tuple(int(x) for x in e) for e in m.edges)
        want = sorted((i, i + 1) for i in range(I[0] - 1))
        if Bo[0] and I[0] > 2: want = sorted(want + [(0, I[0] - 1)])
        if Bo[0] and I[0] == 2: want = [(0, 1)]
        if kind != "PolyLine" or nV != I[0] or E != want: bad("edges", "polyline does not link the vertices in order", f"{E}")
        return out
    exp = _expected(case)
    vol = bool(case.get("volume"))
    F = [[int(v) for v in f] for f in m.faces]
    if vol:
        if kind != "VolumeMesh" or len(m.cells) != 1:
            bad("volume-switch", "volume=True does not return a volume mesh with one cell", kind)
            return out
        # faces of a volume mesh are not oriented as a surface; check unoriented closedness only
        und = {}
        for f in F:
            for a, b in _sides(f): und.setdefault((min(a, b), max(a, b)), 0); und[(min(a, b), max(a, b))] += 1
        if any(v != 2 for v in und.values()) or any(x < 0 or x >= nV for f in F for x in f):
            bad("volume-faces", "boundary faces of the single cell are not a closed surface")
        if exp and (nV != exp[0] or len(F) != (4 if g == "tetrahedron" else 6)): bad("counts", "element counts differ from the documentation", f"V={nV} F={len(F)}")
    else:
        if kind != "SurfaceMesh":
            bad("class", f"returned a {kind}, a surface was promised")
            return out
        if any(x < 0 or x >= nV for f in F for x in f):
            bad("index-range", "face index out of range"); return out
        st = surface_stats(nV, F)
        if st["unused"]: bad("unused-vertex", f"{st['unused']} vertices are used by no face")
        if len({tuple(sorted(f)) for f in F}) != len(F): bad("repeated-face", "a face is repeated")
        if not st["manifold"]: bad("manifold", "not a consistently oriented manifold")
        if g in ("cylindrify_edges", "spherify_vertices"):
            want_c = 2 if g == "cylindrify_edges" else 3
            want_chi = 0 if g == "cylindrify_edges" else 6
            if st["components"] != want_c or st["chi"] != want_chi: bad("topology", "merged shape has the wrong topology", str(st))
            return out
        if exp:
            V_, F_, chi, loops = exp
            if st["manifold"] and (st["chi"] != chi or st["loops"] != loops or st["components"] != 1):
                bad("topology", "topology differs from the named shape", f"chi={st['chi']} loops={st['loops']} comps={st['components']} expected chi={chi} loops={loops}")
            if (V_ is not None and nV != V_) or (F_ is not None and len(F) != F_):
                bad("counts", "element counts differ from the documented functions of the parameters", f"V={nV} F={len(F)} expected V={V_} F={F_}")
        tri_expected = {"unit_grid": Bo[0] if Bo else None, "torus": Bo[0] if Bo else None, "quad": Bo[0] if Bo else None,
                        "hexahedron": Bo[0] if Bo else None, "axis_aligned_cube": Bo[0] if Bo else None}.get(g)
        if tri_expected is not None and F:
            if any(len(f) != (3 if tri_expected else 4) for f in F): bad("triangulate-switch", "triangulate switch not honoured")
        if case.get("colored") and not m.faces.has_attribute("color"): bad("colored-switch", "colored switch not honoured")
        if g == "unit_grid" and Bo[1]:
            if not m.vertices.has_attribute("uv_coords"): bad("uv-switch", "generate_uvs not honoured")
            else:
                uv = m.vertices.get_attribute("uv_coords")
                if any(abs(float(uv[i][0]) - pts[i][0]) > 1e-12 or abs(float(uv[i][1]) - pts[i][1]) > 1e-12 for i in range(nV)):
                    bad("uv-values", "uv coordinates differ from the vertex positions")
    # ---- geometry ------------------------------------------------------------------------------
    tol = 1e-9
    c, r = np.array(geo["center"], dtype=float), geo["radius"]
    if g in ("sphere_uv", "icosphere") and nV:
        d = np.linalg.norm(pts - c, axis=1)
        if np.max(np.abs(d - r)) > tol * max(1, r): bad("on-sphere", "vertices are not at the radius from the centre", f"max dev {np.max(np.abs(d - r))}")
    if g == "sphere_fibonacci" and nV:
        d = np.linalg.norm(pts, axis=1)
        if np.max(np.abs(d - r)) > tol * max(1, r): bad("on-sphere", "vertices are not at the radius from the origin")
    if g == "icosahedron":
        d = np.linalg.norm(pts - c, axis=1)
        phi = (1 + math.sqrt(5)) / 2
        if np.max(np.abs(d - r * math.sqrt(1 + phi * phi))) > tol * max(1, r): bad("on-sphere", "vertices are not equidistant from the centre at the scaled radius")
    if g == "torus":
        R = geo.get("R", 4 * r)
        d = (np.sqrt(pts[:, 0] ** 2 + pts[:, 1] ** 2) - R) ** 2 + pts[:, 2] ** 2
        if np.max(np.abs(np.sqrt(d) - r)) > tol * max(1, R): bad("on-torus", "vertices are not on the torus of the given radii")
    if g == "cylinder":
        p1 = np.array(geo["P"][0], dtype=float); ax = np.array([1., 2., 2.]) / 3.0
        N = I[0]
        side = pts[:2 * N]
        rel = side - p1
        t = rel @ ax
        d = np.linalg.norm(rel - np.outer(t, ax), axis=1)
        if np.max(np.abs(d - r)) > tol * max(1, r): bad("on-cylinder", "side vertices are not at the radius from the axis")
        if np.max(np.abs(t[:N])) > tol * 10 or np.max(np.abs(t[N:] - 3.0)) > tol * 10: bad("on-cylinder", "rings are not in the end planes")
    if g in ("unit_grid", "unit_triangle") and nV:
        if pts.min() < -tol or pts.max() > 1 + tol or np.max(np.abs(pts[:, 2])) > 0: bad("in-unit-square", "vertices leave the unit square")
        if g == "unit_grid":
            for corner in ((0, 0), (1, 0), (0, 1), (1, 1)):
                if not np.any(np.all(np.abs(pts[:, :2] - np.array(corner)) < tol, axis=1)): bad("corners", "a corner of the unit square is missing")
    if g in ("tetrahedron", "hexahedron", "triangle"):
        want = {"tetrahedron": _tet_pts(geo), "hexahedron": _hex_pts(geo), "triangle": geo["P"][:3]}[g]
        if nV == len(want) and np.max(np.abs(pts - np.array(want, dtype=float))) > 0: bad("corners", "vertices are not the requested corners")
    if g == "hexahedron_4pts" and nV == 8:
        if np.max(np.abs(pts - np.array(_hex_pts(geo), dtype=float))) > 1e-12: bad("corners", "vertices are not the requested corners")
    if g == "quad" and nV == 4:
        P0, P1, P2 = (np.array(geo["P"][k], dtype=float) for k in range(3))
        want = [P0, P1, P2 + P1 - P0, P2]
        if np.max(np.abs(pts - np.array(want))) > 1e-12: bad("corners", "vertices are not the requested corners")
    if g == "flat_ring" and nV == I[0] * I[1] + 2 and not out:
        # documented shape: apex at the origin, rim on the unit circle of the plane z = 0, every triangle with apex angle
        # (2*pi - defect)/N, turning counter-clockwise (so n_cover covers span n_cover*(2*pi - defect))
        want = max(min(geo["defect"], 2 * math.pi - 0.01), 0.)
        ang = (2 * math.pi - want) / I[0]
        if np.max(np.abs(pts[0])) > 1e-12 or np.max(np.abs(np.linalg.norm(pts[1:], axis=1) - 1)) > 1e-9 or np.max(np.abs(pts[:, 2])) > 0:
            bad("on-unit-circle", "rim vertices are not on the unit circle of the plane z=0 around the apex")
        for f in F:
            a, b = pts[f[1]], pts[f[2]]
            th = math.atan2(a[0] * b[1] - a[1] * b[0], a[0] * b[0] + a[1] * b[1])
            if abs((th - ang + math.pi) % (2 * math.pi) - math.pi) > 1e-9:
                bad("apex-angle", "a triangle of the flat ring does not have the apex angle (2*pi - defect)/N", f"face {f}: {th} vs {ang}")
                break
    if g == "ring" and nV >= I[0] * I[1] + 1 and not out:
        # rim vertex k (1-based) sits at angle 2*pi*(k-1)/N on the unit circle of the plane z = 0
        nrim = I[0] * I[1]
        for k in range(1, nrim + 1):
            t = 2 * math.pi * (k - 1) / I[0]
            if abs(pts[k][0] - math.cos(t)) > 1e-9 or abs(pts[k][1] - math.sin(t)) > 1e-9 or pts[k][2] != 0:
                bad("rim-position", "a rim vertex of the ring is not at its angle on the unit circle", f"vertex {k}"); break
        if Bo[0] and nV == nrim + 2 and np.max(np.abs(pts[nrim + 1] - pts[1])) > 0:
            bad("rim-position", "the closing vertex of the open ring is not a copy of the first rim vertex")
        if abs(pts[0][0]) > 1e-9 or abs(pts[0][1]) > 1e-9:
            bad("apex-on-axis", "the apex of the ring is not on the axis")
    if g == "ring" and I[1] == 1 and nV >= I[0] + 1 and not out:
        # apex defect = 2*pi - sum of the angles at vertex 0
        tot = 0.0
        for f in F:
            a, b = pts[f[1]] - pts[f[0]], pts[f[2]] - pts[f[0]]
            tot += math.atan2(np.linalg.norm(np.cross(a, b)), float(a @ b))
        want = max(min(geo["defect"], 2 * math.pi - 0.01), 0.)
        if abs((2 * math.pi - tot) - want) > 1e-4: bad("apex-defect", "apex angle defect differs from the request", f"{2 * math.pi - tot} vs {want}")
    return out


def nontrivial(case, obs):
    return case["gen"] != "binding" and not str(obs).startswith("err")


def classify(case, obs):
    ks = ["gen:" + case["gen"]]
    if case["gen"] in MODELLED and not case.get("volume"): ks.append("modelled")
    if len(case["ints"]) == 2 and case["ints"][0] != case["ints"][1]: ks.append("unequal-resolutions")
    if case.get("defaults"): ks.append("documented-defaults-after-other-values")
    ks.append("representation:" + ("integer coordinates, numpy.int64 resolutions" if case.get("rep") == "int" else "floats, Python ints"))
    if str(obs).startswith("err"): ks.append(str(obs))
    return ks


def describe(case):
    return {k: case[k] for k in ("gen", "ints", "bools", "defaults", "rep", "volume", "colored") if k in case}


REQUIRED_THEOREMS = ["tetrahedron_closed_oriented", "icosahedron_closed_oriented", "hexahedron_quad_closed_oriented",
                     "hexahedron_tri_closed_oriented", "hexahedron_tables_agree", "triangle_disk", "quad_disk", "switches_forwarded",
                     "unit_grid_nverts", "unit_grid_nfaces", "unit_grid_inRange", "torus_nverts", "torus_nfaces", "torus_inRange",
                     "sphere_uv_nverts", "sphere_uv_nfaces", "sphere_uv_inRange", "cylinder_nverts", "cylinder_nfaces",
                     "cylinder_inRange", "ring_nverts", "ring_nfaces", "ring_inRange", "flat_ring_nverts", "flat_ring_nfaces",
                     "flat_ring_inRange", "unit_triangle_nverts", "sphere_uv_on_sphere", "torus_on_torus",
                     "projected_on_sphere", "fibonacci_unit", "linspace_in_unit", "linspace_ends",
                     "torus_noUnused", "unit_grid_noUnused", "sphere_uv_noUnused", "cylinder_noUnused", "ring_noUnused",
                     "flat_ring_noUnused", "torus_facesSimple", "unit_grid_facesSimple",
                     "torusFaces_eq", "torus_quads_oriented", "torus_quads_closed", "torus_tris_oriented", "torus_tris_closed",
                     "torus_quad_sides_nodup", "torus_quads_dirEdges_count", "unit_gridFaces_eq", "unit_grid_quads_oriented",
                     "unit_grid_tris_oriented", "sphere_uvFaces_eq", "sphere_oriented", "sphere_closed",
                     "cylinderFaces_eq", "cylinder_oriented", "cylinder_closed", "cylinder_open_border",
                     "ringFaces_mem", "ring_oriented", "ring_border", "flat_ringFaces_eq", "flat_ring_oriented", "flat_ring_border", "unit_triangle_inRange"]
TRUSTED = [
    "Lean 4.33.0 kernel; axioms ⊆ {propext, Classical.choice, Quot.sound}",
    "translator vlib/pyloops.py + vlib/props/c14.py (Python ast -> Lean terms for loop nests and literal tables); it is itself "
    "validated on every run: the evaluated terms are compared with the face lists the implementation returns (order included)",
    "Python ints modelled as Nat (truncated subtraction): exact on admissible parameters, where no subtraction underflows",
    "geometry (radius/centre/unit square/corners/apex defect), generators built on subdivision, qhull or dual meshes, and "
    "manifoldness/topology for the parametric families are checked by the oracle on a box of parameters, not proved",
]
ASSUMPTIONS = ["floating point trigonometry of the vertex positions is not modelled", "correspondence and oracle cover the parameter box of the tier only"]
RULE = ("every generator × all integer resolutions in a box (quick 2..7, thorough 2..16, unequal resolutions included) × all boolean "
        "switches × random centres/radii/corners; non-trivial = distinct parameter tuple for which the generator returned a mesh")
MANIFEST = {
    "level_text": ("Proof over translated source. The face-emitting loop nests and literal tables of mouette/procedural/{shapes,flat,rings}.py "
                   "are re-extracted from the working tree on every run (Python ast -> functional Lean terms) and the theorems are "
                   "re-checked against them: literal tables (tetrahedron, hexahedron x2, icosahedron, triangle, quad) are closed / consistently "
                   "oriented / no unused vertex / no repeated face / chi by kernel evaluation; for ALL resolutions (equal or not) of unit_grid, "
                   "torus, sphere_uv, cylinder, ring, flat_ring (and unit_triangle for nu>=nv): vertex and face counts equal the documented "
                   "functions, every face index is in range and no vertex is unused (torus, unit_grid: faces have distinct vertices; torus: every directed edge in at most one face and its opposite in a neighbouring face = closed consistently oriented, quads and triangles; unit_grid: consistently oriented; sphere_uv (n_lat>=1, n_long>=3): closed and consistently oriented; cylinder (N>=3): consistently oriented, closed with caps, exactly the 2N rim edges unmatched without; ring / flat_ring: consistently oriented fans whose only unmatched edges are the rim (and end spokes)); hexahedron_4pts forwards its switches by name. The translator is validated "
                   "each run against the implementation's returned face lists; manifoldness/topology of the parametric families, geometry "
                   "and the non-translated generators (icosphere, fibonacci, dual, octa/dodecahedron) are oracle-checked on a parameter box (partial)."),
    "level_note": ("Trusted: Lean kernel + standard axioms; the ast translator (validated by exact face-list comparison on the box each run); "
                   "Nat for Python ints on admissible parameters; float trigonometry not modelled. Open finding: unit_triangle(nu<nv)."),
    "technique": "Lean 4 theorems over source-translated terms (decide on tables, induction/omega on loop nests) + translation validation + oracle",
}


def search_on_break(rng, broken, mismatches):
    """A proof obligation, a translation site or the correspondence broke: widen the failing-input search far beyond the
    tier's box — every integer parameter of every parametric generator is swept up to 400 (others kept small)."""
    mins = {"unit_grid": (2, 2), "unit_triangle": (2, 2), "torus": (3, 3), "sphere_uv": (1, 3), "cylinder": (3,),
            "ring": (3, 1), "flat_ring": (3, 1)}
    nb = {"unit_grid": 2, "unit_triangle": 1, "torus": 1, "sphere_uv": 0, "cylinder": 1, "ring": 1, "flat_ring": 0}
    out = []
    for g, lo in mins.items():
        for k in range(len(lo)):
            hi = 400 if not (g in ("ring", "flat_ring") and k == 1) else 6
            if g in ("unit_grid", "unit_triangle"): hi = 48      # quadratic size
            for n in range(lo[k], hi + 1):
                ints = [max(l, 3) for l in lo]
                ints[k] = n
                if g == "unit_triangle" and ints[0] < ints[1]: ints[0] = ints[1]
                bools = [rng.random() < 0.5 for _ in range(nb[g])]
                out.append({"gen": g, "ints": ints, "bools": bools, "geo": _geo(rng)})
    return out
