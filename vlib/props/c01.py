"""C01 — surface connectivity answers agree with the face list; histories of lazy queries."""
import json, os

from .. import translate as T
from ..gen import mesh as G
from ..gen import guardtable as GT
from ..gen import c01_source as CS

PID = "C01"
TITLE = "Surface connectivity answers agree with the face list"
LEAN_MODULES = ["Mouette.Props.C01", "Mouette.Props.C01Ring", "Mouette.Props.C01Source"]
REQUIRED_THEOREMS = [
    # histories (generic machine + instance on the translated guard table)
    "lazy_history_independent", "lazy_order_independent", "fresh_never_worse", "generated_table_wellguarded", "surface_history_independent",
    # answers = direct inspection of the face list
    "mem_sides_iff", "directFace_eq_spec", "directFace_none_spec", "directFaceInds_eq_spec", "faceId_eq_spec", "isEdgeOnBorder_spec", "halfEdgeToCorner_eq_spec", "cornerToHalfEdge_eq_spec",
    "next_eq_spec", "prev_eq_spec", "opposite_eq_spec", "edgeToFaces_eq_spec",
    "cornerToFace_eq_spec", "faceToCorners_contiguous", "border_partition", "vertex_border_iff",
    "edgeId_eq_spec", "edges_eq_spec", "faceToFaces_eq_spec", "vf2cn_eq", "opposite_eq_halfEdge", "halfEdge_corner_face",
    # rotational order (round 2)
    "ring_sorted", "ring_sorted_border", "ring_sorted_interior", "ring_unsorted", "vertexToCorners_perm",
    "vertexToFaces_eq_map", "vertexToEdges_eq_map", "umbrella_check_sound", "cornersAt_eq_spec", "stepB_eq_spec",
    "stepF_stepB_inverse", "ring_sorted_vertices_border", "ring_sorted_vertices_interior", "spoke_eq_spec",
    "vertexToVertices_mem_spec", "oppositeFace_eq_spec", "commonEdge_eq_spec",
    # round 4: method bodies translated imperatively from surface.py / linear.py + bridges
    "source_is_edge_on_border_eq_model", "source_interior_boundary_edges_eq_model", "source_mesh_type_eq_model",
    "source_face_id_eq_model", "source_edge_id_eq_model", "source_edge_id_spec", "source_is_edge_on_border_spec",
    "source_face_id_spec", "source_border_partition", "source_edge_to_faces_eq_model", "source_face_to_edges_eq_model",
    "source_vertex_to_edges_eq_model", "source_other_edge_end_eq_model", "source_interior_boundary_vertices_eq_model", "borderEnds_lt",
    # round 5: _compute_connectivity (corner tables, half-edge table, opposite pass) and the accessors reading these caches
    "source_half_edge_tables_eq_model", "source_previous_corner_eq_model", "source_next_corner_eq_model", "source_opposite_corner_eq_model",
    "source_corner_to_half_edge_eq_model", "source_half_edge_to_corner_eq_model", "source_vertex_to_corner_in_face_eq_model",
    "source_direct_face_eq_model", "source_direct_face_inds_eq_model", "source_opposite_face_eq_model", "source_opposite_face_inds_eq_model",
    "source_vertex_to_faces_eq_model", "source_direct_face_spec",
    # round 6: walk loops of _sort_vertex_neighborhoods; search loops and cache reads
    "source_sort_backward_walk_eq_model", "source_sort_forward_walk_eq_model", "source_sort_corner_rank_eq_model",
    "source_in_face_index_eq_model", "source_common_edge_eq_model", "source_face_to_vertices_eq_model", "source_edge_to_vertices_eq_model",
    "source_vertex_to_corners_reads_table", "source_vertex_to_vertices_reads_table",
    # round 7
    "source_face_first_corner_table_eq_model", "source_face_to_first_corner_eq_model", "source_face_to_corners_eq_model", "source_face_to_faces_eq_model", "source_cached_accessors_eq_model",
    "umbrella_check_complete", "umbrella_check_iff", "ring_sorted_of_check", "source_corner_to_face_eq_model", "source_polyline_compute_connectivity_eq_model",
]
TRUSTED = [
    "Lean 4.33.0 kernel; axioms ⊆ {propext, Classical.choice, Quot.sound}",
    "guard-table translator vlib/gen/guardtable.py (Python ast → events read/write/reset/test/call per method, flattened in "
    "source order; refuses None-tests it does not recognise)",
    "abstraction of Model/Lazy.lean: a filled cache holds the value its compute function derives from the (immutable) face "
    "list; checked by the history correspondence of each run",
    "hand-written model Mouette/Model/Surface.lean tied to surface.py/linear.py/mesh_data.py by the correspondence of this "
    "run (all accessors on all elements of every generated mesh)",
    "body translator vlib/gen/c01_pylean.py + vocabulary vlib/gen/c01_source.py (how `self.edges`, `enumerate`, `keyify`, a dict "
    "cache and the calls to other accessors are rendered in Lean); the bridges Generated = Model are theorems",
    "iteration order of Python sets is forgotten (rings of interior vertices compared up to rotation, unsorted rings as sets)",
]
ASSUMPTIONS = ["input is an oriented manifold polygon surface without isolated vertices (generator + independent check)",
               "agreement model/implementation is established on the meshes and histories explored in this run only"]
RULE = ("random oriented manifold polygon surfaces (grids, Delaunay disks, tori, annuli, spheres, genus 2, strips, single polygons; "
        "holes, merged polygons, 2 components; rotated faces, shuffled, renumbered), sorting on/off; per mesh three cases: "
        "(a) every accessor on every element in canonical order on one instance, (b) a random permutation of sampled queries with "
        "clear()/clear_boundary_data() interleaved, (c) every accessor as FIRST query of a fresh instance, (d) ordered pairs of "
        "accessors on fresh instances and ask/clear/ask-again histories; the same surfaces also given as tuples / numpy arrays / "
        "numpy scalars / rows of a 2-D array with numpy-int query arguments; non-trivial = distinct "
        "case on a mesh with ≥ 2 faces in which ≥ 10 queries returned an answer")

# accessor -> argument kinds (v vertex, f face, c corner, e edge, * list of vertices)
SIG = {
    "edge_id": "vv", "other_edge_end": "ev", "edge_to_vertices": "e", "vertex_to_vertices": "v", "vertex_to_edges": "v",
    "vertex_to_faces": "v", "vertex_to_corners": "v", "vertex_to_corner_in_face": "vf", "previous_corner": "c",
    "next_corner": "c", "opposite_corner": "c", "corner_to_half_edge": "c", "corner_to_face": "c",
    "half_edge_to_corner": "vv", "direct_face": "vv", "direct_face_inds": "vv", "edge_to_faces": "vv",
    "opposite_face": "vvf", "opposite_face_inds": "vvf", "common_edge": "ff", "face_to_vertices": "f",
    "in_face_index": "fv", "face_to_edges": "f", "face_to_first_corner": "f", "face_to_corners": "f",
    "face_to_faces": "f", "face_id": "*", "m.is_edge_on_border": "vv", "m.is_vertex_on_border": "v",
    "m.boundary_edges": "", "m.interior_edges": "", "m.boundary_vertices": "", "m.interior_vertices": "",
    "m.is_triangular": "", "m.is_quad": "", "clear": "", "m.clear_boundary_data": "", "other": "",
}
ACCESSORS = [a for a in SIG if a not in ("clear", "m.clear_boundary_data", "other")]


# ------------------------------------------------------------------------------------------------
# direct inspection of the face list (independent of mouette and of the Lean model)
# ------------------------------------------------------------------------------------------------
class Spec:
    def __init__(self, nv, faces):
        self.nv, self.F = nv, [list(f) for f in faces]
        self.off = [0]
        for f in self.F: self.off.append(self.off[-1] + len(f))
        self.nc = self.off[-1]
        self.corner = []                      # corner -> (f, i)
        self.side = {}                        # (u,v) -> (f,i)
        self.ekeys = []                       # undirected sides by first occurrence
        seen = set()
        for fi, f in enumerate(self.F):
            n = len(f)
            for i in range(n):
                self.corner.append((fi, i))
                self.side[(f[i], f[(i + 1) % n])] = (fi, i)
                k = (min(f[i], f[(i + 1) % n]), max(f[i], f[(i + 1) % n]))
                if k not in seen: seen.add(k); self.ekeys.append(k)
        self.ecanon = {k: i for i, k in enumerate(self.ekeys)}
        self.at = {v: [] for v in range(nv)}  # vertex -> corners
        for c, (fi, i) in enumerate(self.corner): self.at[self.F[fi][i]].append(c)
        self.border_keys = {k for k in self.ekeys if ((k in self.side) != ((k[1], k[0]) in self.side))}
        self.border_v = {v for k in self.border_keys for v in k}
        self.nbr = {v: set() for v in range(nv)}
        for a, b in self.ekeys: self.nbr[a].add(b); self.nbr[b].add(a)

    def cid(self, f, i): return self.off[f] + i % len(self.F[f])
    def nxt(self, c): f, i = self.corner[c]; return self.cid(f, i + 1)
    def prv(self, c): f, i = self.corner[c]; return self.cid(f, i - 1)

    def he(self, c):
        f, i = self.corner[c]; F = self.F[f]
        return (F[i], F[(i + 1) % len(F)])

    def opp(self, c):
        u, v = self.he(c)
        r = self.side.get((v, u))
        return None if r is None else self.cid(*r)

    def dface(self, u, v):
        r = self.side.get((u, v)); return None if r is None else r[0]

    def dinds(self, u, v):
        r = self.side.get((u, v))
        return (None, None, None) if r is None else (r[0], r[1], (r[1] + 1) % len(self.F[r[0]]))

    def ring_ok(self, v, spokes):
        """`spokes`: neighbours of v in a claimed rotational order. Valid iff it lists every neighbour once and consecutive
        neighbours bound a common face at v, always turning the same way; cyclically for an interior vertex, and from one
        border neighbour to the other for a border vertex."""
        if sorted(spokes) != sorted(self.nbr[v]): return False
        n = len(spokes)
        if n <= 1: return True
        wedges = set()
        for c in self.at[v]:
            wedges.add((self.F[self.corner[c][0]][(self.corner[c][1] + 1) % len(self.F[self.corner[c][0]])],
                        self.F[self.corner[c][0]][self.corner[c][1] - 1]))     # (next vertex, previous vertex)
        pairs = [(spokes[i], spokes[(i + 1) % n]) for i in range(n if v not in self.border_v else n - 1)]
        return all(p in wedges for p in pairs) or all((b, a) in wedges for a, b in pairs)

    def corner_spoke(self, c): return self.he(c)[1]

    # canonical domains ----------------------------------------------------------------------------
    def domain(self, name):
        k = SIG[name]
        nf = len(self.F)
        if k == "": return [[]]
        if k == "v": return [[v] for v in range(self.nv)]
        if k == "f": return [[f] for f in range(nf)]
        if k == "c": return [[c] for c in range(self.nc)]
        if k == "e": return [[e] for e in range(len(self.ekeys))]
        if k == "vv":
            out = []
            for (u, v) in self.side: out += [[u, v], [v, u]]
            out += [[v, (v + 2) % self.nv] for v in range(self.nv) if (v + 2) % self.nv != v]
            return out
        if k == "ev": return [[e, v] for e, kk in enumerate(self.ekeys) for v in (kk[0], kk[1], (kk[1] + 1) % self.nv)]
        if k in ("vf", "fv"):
            out = []
            for f, F in enumerate(self.F):
                for v in F + [(max(F) + 1) % self.nv]:
                    out.append([v, f] if k == "vf" else [f, v])
            return out
        if k == "vvf":
            out = []
            for (u, v), (f, i) in self.side.items():
                g = self.dface(v, u)
                out += [[u, v, f], [v, u, f], [u, v, (f + 1) % nf]]
                if g is not None: out.append([u, v, g])
            return out
        if k == "ff":
            out = []
            for f in range(nf):
                out += [[f, f], [f, (f + 1) % nf]]
                for i in range(len(self.F[f])):
                    g = self.dface(self.F[f][(i + 1) % len(self.F[f])], self.F[f][i])
                    if g is not None: out.append([f, g])
            return out
        if k == "*":
            out = []
            for F in self.F:
                out += [list(F), list(reversed(F)), F[1:] + F[:1], F[:-1] + [(max(F) + 1) % self.nv]]
            return out
        raise KeyError(k)


def expand(case, spec=None):
    spec = spec or Spec(case["nv"], case["F"])
    out = []
    for h in case["H"]:
        qs = []
        for q in h:
            if q[0] == "**":
                for a in ACCESSORS: qs += [[a, args] for args in spec.domain(a)]
            elif q[0] == "*":
                qs += [[q[1], args] for args in spec.domain(q[1])]
            else:
                qs.append([q[0], list(q[1])])
        out.append(qs)
    return out


# ------------------------------------------------------------------------------------------------
# driving the implementation
# ------------------------------------------------------------------------------------------------
REPS = ["list", "tuple", "ndarray", "int32", "npint", "array2d"]


def _faces_as(F, rep):
    """the same face list in another Python representation (the statement is about the surface, not its container types)"""
    import numpy as np
    if rep == "tuple": return [tuple(f) for f in F]
    if rep == "ndarray": return [np.array(f) for f in F]
    if rep == "int32": return [np.array(f, dtype=np.int32) for f in F]
    if rep == "npint": return [[np.int64(v) for v in f] for f in F]
    if rep == "array2d" and len({len(f) for f in F}) == 1: return list(np.array(F, dtype=np.int64))   # rows of one 2-D array (views)
    return [list(f) for f in F]


def _build(case):
    import mouette as M
    d = M.mesh.RawMeshData()
    d.vertices += [M.Vec(float(i % 7), float(i // 7), 0.0) for i in range(case["nv"])]
    d.faces += _faces_as(case["F"], case.get("rep", "list"))
    return M.mesh.SurfaceMesh(d)


def _o(x): return "N" if x is None else str(int(x))
def _l(xs): xs = list(xs); return " ".join([str(len(xs))] + [_o(x) for x in xs])


def _rotmin(xs):
    if not xs: return xs
    k = xs.index(min(xs)); return xs[k:] + xs[:k]


class Run:
    """One instance + the raw and canonical answers of a history."""

    def __init__(self, case, spec):
        self.case, self.spec = case, spec
        pre = case.get("pre")
        if pre:
            # an earlier life of the SAME object: built from other faces, queried (caches filled), then re-initialised
            # with the faces under test (what SurfaceSubdivision does with the caller's mesh object)
            import mouette as M
            self.m = _build(pre)
            for name, args in pre["Q"]:
                try: self.call_raw(name, args)
                except Exception: pass  # noqa
            d = M.mesh.RawMeshData()
            d.vertices += [M.Vec(float(i % 7), float(i // 7), 0.0) for i in range(case["nv"])]
            d.faces += _faces_as(case["F"], case.get("rep", "list"))
            self.m.__init__(d)
        else:
            self.m = _build(case)
        self._other = None
        self.sort = bool(case["sort"])
        self.npargs = bool(case.get("npargs"))

    def call_raw(self, name, args):
        """a query whose answer is not looked at (earlier life of the object)"""
        m, c = self.m, self.m.connectivity
        if name.startswith("m."):
            r = getattr(m, name[2:]); return r(*args) if callable(r) else r
        if name.endswith("_inds"): return getattr(c, name[:-5])(*args, True)
        return getattr(c, name)(*args)

    def other_mesh(self):
        """a second, different mesh object built and queried in between (state shared between instances would leak)"""
        import mouette as M
        d = M.mesh.RawMeshData()
        d.vertices += [M.Vec(float(i % 4), float(i // 4), 0.0) for i in range(12)]
        d.faces += [[0, 1, 5, 4], [1, 2, 6, 5], [2, 3, 7, 6], [4, 5, 9, 8], [5, 6, 10], [5, 10, 9]]
        o = M.mesh.SurfaceMesh(d); c = o.connectivity
        c.vertex_to_corners(5); c.vertex_to_vertices(5); c.face_id(5, 6, 10); c.edge_id(5, 6); c.half_edge_to_corner(1, 5)
        c.face_to_faces(1); c.common_edge(0, 1); o.boundary_vertices; o.interior_edges; o.is_vertex_on_border(5); o.is_quad()
        c.clear(); c.vertex_to_faces(6); o.clear_boundary_data(); o.boundary_edges
        self._other = o

    def ecanon(self, e):
        if e is None: return None
        try:
            a, b = self.m.edges[int(e)]
            return self.spec.ecanon.get((min(a, b), max(a, b)), 10 ** 6 + int(e))
        except Exception:  # noqa
            return 10 ** 6 + int(e)

    def ring(self, v, xs):
        xs = [None if x is None else int(x) for x in xs]
        if any(x is None for x in xs): return " ".join([str(len(xs))] + [_o(x) for x in xs])
        if not self.sort: return _l(sorted(xs))
        return _l(xs if v in self.spec.border_v else _rotmin(xs))

    def call(self, name, args):
        """returns (raw python answer, canonical string); raises what the implementation raises"""
        m, c = self.m, self.m.connectivity
        a = args
        if name == "other": self.other_mesh(); return None, "-"
        if name == "clear": c.clear(); return None, "-"
        if name == "m.clear_boundary_data": m.clear_boundary_data(); return None, "-"
        if name == "edge_id": r = c.edge_id(*a); return r, _o(self.ecanon(r))
        if name == "other_edge_end":
            r = c.other_edge_end(self._eid(a[0]), a[1]); return r, _o(r)
        if name == "edge_to_vertices":
            r = c.edge_to_vertices(self._eid(a[0])); return r, f"{int(r[0])} {int(r[1])}"
        if name == "vertex_to_vertices": r = c.vertex_to_vertices(a[0]); return list(r), self.ring(a[0], r)
        if name == "vertex_to_edges":
            r = c.vertex_to_edges(a[0]); return list(r), self.ring(a[0], [self.ecanon(e) for e in r])
        if name == "vertex_to_faces": r = c.vertex_to_faces(a[0]); return list(r), self.ring(a[0], r)
        if name == "vertex_to_corners": r = c.vertex_to_corners(a[0]); return list(r), self.ring(a[0], r)
        if name == "vertex_to_corner_in_face": r = c.vertex_to_corner_in_face(*a); return r, _o(r)
        if name in ("previous_corner", "next_corner", "opposite_corner", "corner_to_face", "face_to_first_corner"):
            r = getattr(c, name)(a[0]); return r, _o(r)
        if name == "corner_to_half_edge":
            r = c.corner_to_half_edge(a[0]); return r, ("N N" if r is None else f"{int(r[0])} {int(r[1])}")
        if name in ("half_edge_to_corner", "direct_face"): r = getattr(c, name)(*a); return r, _o(r)
        if name == "direct_face_inds":
            r = c.direct_face(a[0], a[1], True); return tuple(r), " ".join(_o(x) for x in r)
        if name == "edge_to_faces": r = c.edge_to_faces(*a); return tuple(r), " ".join(_o(x) for x in r)
        if name == "opposite_face": r = c.opposite_face(*a); return r, _o(r)
        if name == "opposite_face_inds":
            r = c.opposite_face(a[0], a[1], a[2], True); return tuple(r), " ".join(_o(x) for x in r)
        if name == "common_edge": r = c.common_edge(*a); return tuple(r), " ".join(_o(x) for x in r)
        if name == "face_to_vertices": r = c.face_to_vertices(a[0]); return list(r), _l(r)
        if name == "in_face_index": r = c.in_face_index(*a); return r, _o(r)
        if name == "face_to_edges": r = c.face_to_edges(a[0]); return list(r), _l([self.ecanon(e) for e in r])
        if name == "face_to_corners": r = c.face_to_corners(a[0]); return list(r), _l(r)
        if name == "face_to_faces": r = c.face_to_faces(a[0]); return list(r), _l(sorted(int(x) for x in r))
        if name == "face_id": r = c.face_id(*a); return r, _o(r)
        if name == "m.is_edge_on_border": r = m.is_edge_on_border(*a); return r, ("1" if r else "0")
        if name == "m.is_vertex_on_border": r = m.is_vertex_on_border(a[0]); return r, ("1" if r else "0")
        if name in ("m.boundary_edges", "m.interior_edges"):
            r = list(getattr(m, name[2:])); return r, _l(sorted(self.ecanon(e) for e in r))
        if name in ("m.boundary_vertices", "m.interior_vertices"):
            r = list(getattr(m, name[2:])); return r, _l(sorted(int(x) for x in r))
        if name in ("m.is_triangular", "m.is_quad"): r = getattr(m, name[2:])(); return r, ("1" if r else "0")
        raise KeyError(name)

    def _eid(self, canon_e):
        """container index of the canonical edge (arguments are given in canonical numbering)"""
        k = self.spec.ekeys[canon_e]
        for i, e in enumerate(self.m.edges):
            if (min(e), max(e)) == k: return i
        return canon_e


def _err(e):
    n = type(e).__name__
    return {"TypeError": "err:Type", "KeyError": "err:Key", "IndexError": "err:Index", "ValueError": "err:Value"}.get(n, f"err:Other({n})")


def run_history(case, spec, qs):
    """-> list of (name, args, raw, canon, exception-or-None)"""
    import mouette.config as cfg
    old = cfg.sort_neighborhoods
    cfg.sort_neighborhoods = bool(case["sort"])
    try:
        r = Run(case, spec)
        out = []
        for name, args in qs:
            try:
                if r.npargs:
                    import numpy as np
                    raw, can = r.call(name, [np.int64(a) for a in args])   # ids coming out of numpy arrays
                else:
                    raw, can = r.call(name, args)
                out.append((name, args, raw, can, None))
            except Exception as e:  # noqa
                out.append((name, args, None, _err(e), e))
        return out, r
    finally:
        cfg.sort_neighborhoods = old


_CACHE = {"k": None, "v": None}


def _runs(case):
    k = json.dumps(case, sort_keys=True)
    if _CACHE["k"] != k:
        spec = Spec(case["nv"], case["F"])
        hs = expand(case, spec)
        _CACHE["k"], _CACHE["v"] = k, (spec, hs, [run_history(case, spec, qs) for qs in hs])
    return _CACHE["v"]


def impl_observe(case):
    spec, hs, runs = _runs(case)
    return " || ".join(" | ".join(t[3] for t in out) for out, _ in runs)


def model_request(case):
    spec, hs, _ = _runs(case)
    toks = ["h", "1" if case["sort"] else "0", str(case["nv"]), str(len(case["F"]))]
    for f in case["F"]: toks += [str(len(f))] + [str(v) for v in f]
    toks.append(str(len(hs)))
    for qs in hs:
        toks.append(str(len(qs)))
        for name, args in qs:
            toks += [name, str(len(args))] + [str(a) for a in args]
    return " ".join(toks)


def compare(case, model, impl):
    wf, _, model = model.partition(" ## ")
    if wf != "wf:1" and G.surface_stats(case["nv"], case["F"])["manifold"]:
        return f"the hypothesis of the theorems (Oriented, faces without repeated vertex, umbrella condition at every vertex) does not hold on a manifold input: {wf}"
    if model == impl: return None
    mh, ih = model.split(" || "), impl.split(" || ")
    if len(mh) != len(ih): return f"history count differs (model reply: {model[:80]})"
    spec, hs, _ = _runs(case)
    for hi, (a, b) in enumerate(zip(mh, ih)):
        ma, ia = a.split(" | "), b.split(" | ")
        if len(ma) != len(ia): return f"history {hi}: answer count differs"
        for qi, (x, y) in enumerate(zip(ma, ia)):
            if x == y: continue
            if x == "err:Uninit" and y in ("err:Other(AttributeError)", "err:Type"): continue
            if x.startswith("?") and (y == x[1:] or y in ("err:Other(AttributeError)", "err:Type")): continue
            q = hs[hi][qi]
            return f"history {hi} query {qi} {q[0]}{tuple(q[1])}: model {x!r} implementation {y!r}"
    return None


# ------------------------------------------------------------------------------------------------
# oracle: the property stated directly on the implementation
# ------------------------------------------------------------------------------------------------
def check_answer(spec, run, name, a, raw):
    """None if `raw` is what direct inspection of the face list yields, else a short reason."""
    S, m = spec, run.m
    ekey = lambda e: None if e is None else (min(m.edges[e]), max(m.edges[e]))
    k2 = lambda u, v: (min(u, v), max(u, v))
    if name in ("clear", "m.clear_boundary_data", "other"): return None
    if name == "edge_id":
        k = k2(*a)
        if k not in S.ecanon: return None if raw is None else "id for a non-edge"
        return None if (raw is not None and ekey(raw) == k) else "wrong edge id"
    if name == "other_edge_end":
        k = S.ekeys[a[0]]
        want = k[1] if a[1] == k[0] else k[0] if a[1] == k[1] else None
        return None if raw == want else "wrong end"
    if name == "edge_to_vertices": return None if k2(*raw) == S.ekeys[a[0]] else "wrong vertices"
    if name == "face_id":
        want = [f for f, F in enumerate(S.F) if sorted(F) == sorted(a)]
        return None if (raw in want if want else raw is None) else "wrong face id"
    if name == "next_corner": return None if raw == S.nxt(a[0]) else "wrong"
    if name == "previous_corner": return None if raw == S.prv(a[0]) else "wrong"
    if name == "opposite_corner": return None if raw == S.opp(a[0]) else "wrong"
    if name == "corner_to_half_edge": return None if raw is not None and tuple(raw) == S.he(a[0]) else "wrong"
    if name == "corner_to_face": return None if raw == S.corner[a[0]][0] else "wrong"
    if name == "half_edge_to_corner":
        r = S.side.get((a[0], a[1])); return None if raw == (None if r is None else S.cid(*r)) else "wrong"
    if name == "direct_face": return None if raw == S.dface(*a) else "wrong"
    if name == "direct_face_inds": return None if tuple(raw) == S.dinds(*a) else "wrong"
    if name == "edge_to_faces": return None if tuple(raw) == (S.dface(a[0], a[1]), S.dface(a[1], a[0])) else "wrong"
    if name in ("opposite_face", "opposite_face_inds"):
        u, v, F = a
        d1, d2 = S.dinds(u, v), S.dinds(v, u)
        d2 = (d2[0], d2[2], d2[1])   # local indices of u, v in the other face
        want = d2 if (d1[0] == F and F is not None) else d1 if (d2[0] == F and F is not None) else (None, None, None)
        if d1[0] is not None and d1[0] == d2[0]: return None   # same face on both sides: not manifold input
        if name == "opposite_face": return None if raw == want[0] else "wrong"
        return None if tuple(raw) == want else "wrong"
    if name == "common_edge":
        f1, f2 = a
        F = S.F[f1]
        shared = {k2(F[i], F[(i + 1) % len(F)]) for i in range(len(F)) if S.dface(F[(i + 1) % len(F)], F[i]) == f2}
        if not shared: return None if tuple(raw) == (None, None) else "edge reported between non-adjacent faces"
        return None if tuple(raw) in shared else "not a common edge"
    if name == "face_to_vertices": return None if list(raw) == S.F[a[0]] else "wrong"
    if name == "in_face_index":
        F = S.F[a[0]]; return None if raw == (F.index(a[1]) if a[1] in F else None) else "wrong"
    if name == "vertex_to_corner_in_face":
        F = S.F[a[1]]; return None if raw == (S.cid(a[1], F.index(a[0])) if a[0] in F else None) else "wrong"
    if name == "face_to_edges":
        F = S.F[a[0]]
        want = [k2(F[i], F[(i + 1) % len(F)]) for i in range(len(F))]
        return None if len(raw) == len(want) and all(e is not None and ekey(e) == w for e, w in zip(raw, want)) else "wrong"
    if name == "face_to_first_corner": return None if raw == S.off[a[0]] else "wrong"
    if name == "face_to_corners": return None if list(raw) == list(range(S.off[a[0]], S.off[a[0] + 1])) else "wrong"
    if name == "face_to_faces":
        F = S.F[a[0]]
        want = [S.dface(F[(i + 1) % len(F)], F[i]) for i in range(len(F))]
        return None if sorted(raw) == sorted(w for w in want if w is not None) else "wrong"
    if name in ("vertex_to_corners", "vertex_to_faces", "vertex_to_vertices", "vertex_to_edges"):
        v = a[0]
        try:
            if name == "vertex_to_corners":
                if sorted(raw) != sorted(S.at[v]): return "not the corners at the vertex"
                spokes = [S.corner_spoke(c) for c in raw]
                full = None
            elif name == "vertex_to_faces":
                if sorted(raw) != sorted(S.corner[c][0] for c in S.at[v]): return "not the faces at the vertex"
                spokes = [S.corner_spoke(S.cid(f, S.F[f].index(v))) for f in raw]
                full = None
            elif name == "vertex_to_vertices":
                spokes = list(raw); full = spokes
            else:
                ks = [ekey(e) for e in raw]
                if any(k is None or v not in k for k in ks): return "edge not incident to the vertex"
                spokes = [k[0] if k[1] == v else k[1] for k in ks]; full = spokes
        except Exception as e:  # noqa
            return f"malformed ring ({type(e).__name__})"
        if full is not None and sorted(full) != sorted(S.nbr[v]): return "not the neighbours of the vertex"
        if not run.sort: return None
        if full is None:
            # corner/face rings have one spoke per corner: on a border vertex the neighbour without half-edge is missing
            missing = [w for w in S.nbr[v] if w not in spokes]
            if len(missing) > 1: return "ring misses neighbours"
            cand = [missing + spokes, spokes + missing] if missing else [spokes]
            return None if any(S.ring_ok(v, c) for c in cand) else "not in rotational order"
        return None if S.ring_ok(v, spokes) else "not in rotational order"
    if name == "m.is_edge_on_border": return None if bool(raw) == (k2(*a) in S.border_keys) else "wrong"
    if name == "m.is_vertex_on_border": return None if bool(raw) == (a[0] in S.border_v) else "wrong"
    if name in ("m.boundary_edges", "m.interior_edges"):
        ks = [ekey(e) for e in raw]
        want = S.border_keys if name == "m.boundary_edges" else set(S.ekeys) - S.border_keys
        return None if len(set(ks)) == len(ks) and set(ks) == want else "wrong set"
    if name in ("m.boundary_vertices", "m.interior_vertices"):
        want = S.border_v if name == "m.boundary_vertices" else set(range(S.nv)) - S.border_v
        return None if len(set(raw)) == len(raw) and set(int(x) for x in raw) == want else "wrong set"
    if name == "m.is_triangular": return None if bool(raw) == all(len(F) == 3 for F in S.F) else "wrong"
    if name == "m.is_quad": return None if bool(raw) == all(len(F) == 4 for F in S.F) else "wrong"
    return f"no rule for {name}"


def oracle(case):
    spec, hs, runs = _runs(case)
    st = G.surface_stats(case["nv"], case["F"])
    if not st["manifold"]: return []            # outside the statement
    out, seen = [], set()

    def add(key, what, detail):
        if key not in seen:
            seen.add(key); out.append({"key": key, "what": what, "detail": detail})
    # the edge container is what edge identifiers refer to: it must list every undirected side once
    m0 = runs[0][1].m if runs else None
    if m0 is not None:
        ks = [(min(e), max(e)) for e in m0.edges]
        if len(set(ks)) != len(ks) or set(ks) != set(spec.ekeys):
            add("C01/edges/container", "mesh.edges is not the set of undirected face sides", str(ks[:8]))
    firsts = {}
    for hi, (res, run) in enumerate(runs):
        for qi, (name, args, raw, can, exc) in enumerate(res):
            if exc is not None:
                firsts.setdefault((name, tuple(args)), []).append((hi, qi, False, can))
                # does the same query succeed after other queries have been made?
                warm = [["direct_face", [0, 1]], ["edge_id", [0, 1]], ["face_id", list(case["F"][0])], ["m.boundary_vertices", []]]
                again, _ = run_history(case, spec, warm + [[name, args]])
                later_ok = again[-1][4] is None
                if later_ok:
                    add(f"C01/history/fresh-fails/{name}", f"{name} raised {type(exc).__name__} on a freshly built (or cleared) mesh "
                        "but succeeds after other queries", f"history {hi} query {qi} {name}{tuple(args)}: {exc}")
                else:
                    add(f"C01/raises/{name}/{type(exc).__name__}", f"{name} raised {type(exc).__name__} on a valid element",
                        f"history {hi} query {qi} {name}{tuple(args)}: {exc}")
                continue
            firsts.setdefault((name, tuple(args)), []).append((hi, qi, True, can))
            why = check_answer(spec, run, name, args, raw)
            if why:
                add(f"C01/answer/{name}", f"{name} differs from direct inspection of the face list ({why})",
                    f"history {hi} query {qi} {name}{tuple(args)} -> {str(raw)[:80]} sort={case['sort']}")
    # histories: same query, different position => same canonical answer
    for (name, args), occ in firsts.items():
        cans = {c for _, _, ok, c in occ if ok}
        if len(cans) > 1:
            add(f"C01/history/order-dependent/{name}", f"{name} answers differently depending on the queries made before",
                f"{name}{args}: {sorted(cans)[:3]}")
    # each accessor that appears: run its first occurrence ALONE on a fresh instance and compare
    done = set()
    budget = 60
    for hi, (res, run) in enumerate(runs):
        for qi, (name, args, raw, can, exc) in enumerate(res):
            if name in done or qi == 0 or budget <= 0: continue
            done.add(name); budget -= 1
            alone, _ = run_history(case, spec, [[name, args]])
            a_ok, a_can = alone[0][4] is None, alone[0][3]
            if exc is None and not a_ok:
                add(f"C01/history/fresh-fails/{name}", f"{name} raised {type(alone[0][4]).__name__} as first query on a freshly built mesh "
                    "but succeeds after other queries", f"{name}{tuple(args)}: fresh {a_can}, after {qi} queries {can}")
            elif exc is None and a_can != can:
                add(f"C01/history/order-dependent/{name}", f"{name} answers differently depending on the queries made before",
                    f"{name}{tuple(args)}: fresh {a_can[:60]} vs {can[:60]}")
    return out


# ------------------------------------------------------------------------------------------------
# generators
# ------------------------------------------------------------------------------------------------
def _sample_queries(rng, spec, n):
    qs = []
    for _ in range(n):
        a = rng.choice(ACCESSORS)
        d = spec.domain(a)
        qs.append([a, rng.choice(d)])
    return qs


def mesh_cases(rng, s, max_full=10 ** 9, pairs=0, rep_p=0.0):
    spec = Spec(len(s["V"]), s["F"])
    base = {"nv": len(s["V"]), "F": s["F"], "tag": s["tag"]}
    sort = rng.random() < 0.7
    out = []
    if spec.nc <= max_full:
        out.append(dict(base, sort=sort, mode="full", H=[[["**"]]]))
    # (b) permutation of sampled queries on a fresh instance, clears interleaved
    qs = _sample_queries(rng, spec, rng.randint(20, 80))
    for _ in range(rng.randint(0, 3)):
        qs.insert(rng.randrange(len(qs) + 1), [rng.choice(["clear", "m.clear_boundary_data"]), []])
    rng.shuffle(qs)
    out.append(dict(base, sort=(sort if rng.random() < 0.8 else not sort), mode="perm", H=[qs]))
    # (c) each accessor as first query of a fresh instance, followed by two others
    H = []
    for a in ACCESSORS:
        H.append([[a, rng.choice(spec.domain(a))]] + _sample_queries(rng, spec, 2))
    out.append(dict(base, sort=sort, mode="first", H=H))
    # (d) ordered PAIRS of accessors on a fresh instance (a cheap query may fill part of the caches the next one relies on),
    #     and "ask, clear, ask again": the lazily cached structure is requested again after connectivity.clear() /
    #     clear_boundary_data(); same answers expected (the mesh did not change)
    if pairs:
        H = []
        for _ in range(pairs):
            a, b = rng.choice(ACCESSORS), rng.choice(ACCESSORS)
            H.append([[a, rng.choice(spec.domain(a))], [b, rng.choice(spec.domain(b))]])
        for a in rng.sample(ACCESSORS, min(len(ACCESSORS), max(4, pairs // 4))):
            qa = [a, rng.choice(spec.domain(a))]
            clr = rng.choice([["clear", []], ["m.clear_boundary_data", []], ["clear", []]])
            H.append([qa, clr, qa] + _sample_queries(rng, spec, 1) + [qa])
        for _ in range(max(3, pairs // 5)):
            a, b = rng.choice(ACCESSORS), rng.choice(ACCESSORS)
            qa = [a, rng.choice(spec.domain(a))]
            H.append([qa, ["other", []], [b, rng.choice(spec.domain(b))], ["other", []], qa])
        out.append(dict(base, sort=(sort or rng.random() < 0.7), mode="pairs", H=H))
        if rng.random() < 0.5:
            # the same OBJECT had other faces before (queried, then re-initialised): stale caches / boundary data would show
            ps = G.random_surface(rng, rng.choice([6, 14]))
            pspec = Spec(len(ps["V"]), ps["F"])
            pre = {"nv": len(ps["V"]), "F": ps["F"], "sort": sort, "Q": _sample_queries(rng, pspec, 25) +
                   [["m.boundary_vertices", []], ["m.interior_edges", []], ["vertex_to_corners", [0]], ["face_id", list(ps["F"][0])], ["edge_id", [ps["F"][0][0], ps["F"][0][1]]]]}
            c = dict(rng.choice(out[-3:]), pre=pre)
            out.append(c)
    # input representation: the same surface given as tuples / numpy arrays / numpy scalars, ids passed as numpy ints
    if rng.random() < rep_p:
        c = dict(rng.choice(out))
        c["rep"] = rng.choice(REPS[1:])
        c["npargs"] = rng.random() < 0.5
        if c["mode"] == "full" and spec.nc > 400: c = dict(c, mode="perm", H=[_sample_queries(rng, spec, 60)])
        out.append(c)
    return out


def cases(rng, tier):
    if tier == "quick":
        plan = [(150, 60, 10 ** 9)]
    else:
        plan = [(1000, 120, 10 ** 9), (80, 600, 1500)]
    for n, mf, max_full in plan:
        for k in range(n):
            size = mf if k % 3 == 0 else max(4, mf // 3) if k % 3 == 1 else 12
            s = G.random_surface(rng, size)
            for c in mesh_cases(rng, s, max_full, pairs=(40 if k % 3 == 2 else 12 if k % 3 == 1 else 0), rep_p=0.5):
                yield c
    # hand-made corner cases
    for F, nv in [([[0, 1, 2]], 3), ([[0, 1, 2], [2, 1, 3]], 4), ([[0, 1, 2, 3]], 4),
                  ([[0, 1, 2], [0, 2, 3], [0, 3, 1], [1, 3, 2]], 4)]:
        for sort in (True, False):
            yield {"nv": nv, "F": F, "tag": "hand", "sort": sort, "mode": "full", "H": [[["**"]]]}


def nontrivial(case, obs):
    if len(case["F"]) < 2: return False
    toks = [t for h in obs.split(" || ") for t in h.split(" | ")]
    return sum(1 for t in toks if not t.startswith("err") and t != "-") >= 10


def classify(case, obs):
    st = G.surface_stats(case["nv"], case["F"])
    nf = len(case["F"])
    ks = ["mode:" + case.get("mode", "?"), "sort:" + ("on" if case["sort"] else "off"),
          "faces-as:" + case.get("rep", "list"), "args-as:" + ("numpy-int" if case.get("npargs") else "int"),
          "family:" + case.get("tag", "?").split("+")[0],
          "faces:" + ("1" if nf == 1 else "2-9" if nf < 10 else "10-39" if nf < 40 else "40-149" if nf < 150 else "150+"),
          "loops:" + str(min(st["loops"], 3)) + ("+" if st["loops"] >= 3 else ""), "chi:" + str(st["chi"]),
          "arity:" + ("tri" if all(len(f) == 3 for f in case["F"]) else "quad" if all(len(f) == 4 for f in case["F"]) else "mixed")]
    for t in {t for h in obs.split(" || ") for t in h.split(" | ") if t.startswith("err")}: ks.append(t)
    if case.get("pre"): ks.append("history:object-reinitialised-with-other-faces")
    if case.get("mode") != "full":
        for h in case["H"]:
            for q in h: ks.append("q:" + q[0])
            if any(q[0] == "other" for q in h): ks.append("history:other-mesh-queried-in-between")
            if len(h) >= 3 and h[1][0] in ("clear", "m.clear_boundary_data") and h[0] == h[2]: ks.append("history:ask-clear-ask-again")
            elif case.get("mode") == "pairs": ks.append("history:ordered-pair")
    return ks


def describe(case):
    return {"nv": case["nv"], "faces": case["F"][:12], "n_faces": len(case["F"]), "sort": case["sort"], "mode": case.get("mode"),
            "tag": case.get("tag"), "faces_given_as": case.get("rep", "list"), "numpy_int_arguments": bool(case.get("npargs")),
            "histories": len(case["H"]), "first_history": [q for q in case["H"][0][:6]]}


# ------------------------------------------------------------------------------------------------
# shrinking
# ------------------------------------------------------------------------------------------------
def _remap_after_face_removal(case, k):
    """remove face k, compact vertices, remap explicit query arguments; None if impossible"""
    F = case["F"]
    G2 = F[:k] + F[k + 1:]
    if not G2: return None
    used = sorted({v for f in G2 for v in f})
    vm = {o: n for n, o in enumerate(used)}
    NF = [[vm[v] for v in f] for f in G2]
    if not G.surface_stats(len(used), NF)["manifold"]: return None
    old, new = Spec(case["nv"], F), Spec(len(used), NF)
    fm = {f: (f if f < k else f - 1) for f in range(len(F)) if f != k}
    cm = {}
    for c, (f, i) in enumerate(old.corner):
        if f != k: cm[c] = new.cid(fm[f], i)
    em = {}
    for e, (a, b) in enumerate(old.ekeys):
        if a in vm and b in vm and (min(vm[a], vm[b]), max(vm[a], vm[b])) in new.ecanon:
            em[e] = new.ecanon[(min(vm[a], vm[b]), max(vm[a], vm[b]))]
    maps = {"v": vm, "f": fm, "c": cm, "e": em}
    H = []
    for h in case["H"]:
        nh = []
        for q in h:
            if q[0] in ("*", "**"): nh.append(q); continue
            sig = SIG[q[0]]
            kinds = ["v"] * len(q[1]) if sig == "*" else list(sig)
            try:
                nh.append([q[0], [maps[kd][x] for kd, x in zip(kinds, q[1])]])
            except KeyError:
                pass
        if nh: H.append(nh)
    if not H: return None
    return dict(case, nv=len(used), F=NF, H=H)


def shrink(case, still):
    budget = [250]

    def ok(c):
        if budget[0] <= 0: return False
        budget[0] -= 1
        return still(c)
    cur = case
    # 1. a single history
    if len(cur["H"]) > 1:
        for h in cur["H"]:
            t = dict(cur, H=[h])
            if ok(t): cur = t; break
    # 2. fewer faces (bulk queries stay meaningful, explicit ones are remapped)
    changed = True
    while changed and budget[0] > 0:
        changed = False
        for k in range(len(cur["F"]) - 1, -1, -1):
            t = _remap_after_face_removal(cur, k)
            if t is not None and ok(t):
                cur = t; changed = True; break
    # 3. explicit queries: make bulk explicit when small, then drop chunks
    spec = Spec(cur["nv"], cur["F"])
    hs = expand(cur, spec)
    if sum(len(h) for h in hs) <= 4000:
        t = dict(cur, H=hs)
        if ok(t):
            cur = t
            for hi in range(len(cur["H"])):
                h = cur["H"][hi]
                chunk = max(1, len(h) // 2)
                while chunk >= 1 and budget[0] > 0:
                    i = 0
                    while i < len(h) and budget[0] > 0:
                        h2 = h[:i] + h[i + chunk:]
                        t = dict(cur, H=cur["H"][:hi] + [h2] + cur["H"][hi + 1:])
                        if h2 and ok(t): h = h2; cur = t
                        else: i += chunk
                    chunk //= 2
    return cur


def search_on_break(rng, broken, mismatches):
    """extra inputs for the failing-input search: small meshes of every family, every accessor first + full sweep"""
    for _ in range(40):
        s = G.random_surface(rng, rng.choice([6, 16, 40]))
        for c in mesh_cases(rng, s, pairs=40, rep_p=0.3):
            yield c


# ------------------------------------------------------------------------------------------------
# translated fragment: the guard table
# ------------------------------------------------------------------------------------------------
EXPECT_GUARDED = {  # accessor -> cache it must test (sanity of the extraction itself, not of the code)
}


def extract_table():
    ts, _ = T.load("mouette/mesh/datatypes/surface.py")
    tl, _ = T.load("mouette/mesh/datatypes/linear.py")
    pl = GT.ClassInfo("PolyLine._Connectivity", T.find_def(tl, "PolyLine._Connectivity"))
    sc = GT.ClassInfo("SurfaceMesh._Connectivity", T.find_def(ts, "SurfaceMesh._Connectivity"), pl)
    sm = GT.ClassInfo("SurfaceMesh", T.find_def(ts, "SurfaceMesh"))
    xc, xm = GT.Extractor(sc, "conn"), GT.Extractor(sm, "mesh")
    xc.links["mesh"] = xm; xm.links["connectivity"] = xc
    return GT.build_table([xc, xm], ["SurfaceMesh._Connectivity.__init__", "SurfaceMesh.__init__"])


FALLBACK = ("def queryNames : List (String × Nat) := []\ndef cacheNames : List String := []\ndef fnNames : List String := []\n"
            "/- the translator refused the current source: a stub table that is NOT well guarded (one query reading a cache nobody initialises), so that\n"
            "   `generated_table_wellguarded` does not build on it -/\n"
            "def table : Mouette.Lazy.Table := { ncaches := 1, bodies := [[(false, .read 0)]], init := [], queries := [0], fuel := 2, rounds := 2 }\n")


def translate():
    state = {}

    def site():
        t = extract_table()
        state["t"] = t
        need = ["conn." + a for a in SIG if not a.startswith("m.") and not a.endswith("_inds") and a != "other"] + \
               ["mesh." + a[2:] for a in SIG if a.startswith("m.")]
        have = {a for a, _ in t["qnames"]}
        miss = [n for n in need if n not in have]
        if miss: raise T.TranslateError(f"public accessors not found in the classes: {miss}")
        if not t["caches"]: raise T.TranslateError("no cache attribute found")
        return {"caches": len(t["caches"]), "functions": len(t["fns"]), "queries": len(t["queries"]),
                "guards": sum(1 for b in t["bodies"] for e in b if e[0] == "test")}
    r = T.site("surface.py+linear.py: _Connectivity/SurfaceMesh guard table (tests against None, compute calls, reads, writes, __init__/clear)", site)
    header = "import Mouette.Model.Lazy\nnamespace Mouette.Generated.C01\nopen Mouette.Lazy\n\n"
    body = GT.lean_table(state["t"]) if r["ok"] else FALLBACK
    T.write_generated("C01Guards", body + "\nend Mouette.Generated.C01\n", header)
    return [r] + CS.translate_sites()



# ------------------------------------------------------------------------------------------------
# SOURCE_MAP: every function of the anchor files -> how it is tied to the Lean side
#   translated  = its BODY is compiled to Generated/C01Src.lean on every run and a bridge theorem of Props/C01Source uses it
#   modelled    = hand-written in Model/Surface.lean (tied by the correspondence run); for the lazily cached accessors the guard
#                 structure (None-tests, compute calls, reads, writes, resets) IS translated (Generated/C01Guards.lean), the answer is not
# ------------------------------------------------------------------------------------------------
def _smap():
    S, L, M = "mouette/mesh/datatypes/surface.py::", "mouette/mesh/datatypes/linear.py::", "mouette/mesh/mesh_data.py::"
    g = "modelled: guard structure translated (C01Guards), answer hand-modelled in Model/Surface.lean"
    m = {}
    for f in CS.FUNCTIONS + CS.CC_FUNCTIONS + CS.ACC2_FUNCTIONS:
        m[(S if f.startswith("SurfaceMesh") else L) + f] = "translated"
    m[S + "SurfaceMesh._Connectivity._compute_connectivity"] = ("translated: corner loop, half-edge loops, opposite pass (Generated/C01HE.lean, bridge "
                                                                "source_half_edge_tables_eq_model); the base-class call (_adjV2V) and the final "
                                                                "call of _sort_vertex_neighborhoods are recognised and left to the hand model")
    for f in ["SurfaceMesh.__init__", "SurfaceMesh.clear_boundary_data",
              
              
              "SurfaceMesh._Connectivity.__init__", "SurfaceMesh._Connectivity.clear", 
              
              
              
              
              
              
              ]:
        m[S + f] = g
    for a in CS.ACC4:
        m[S + a[1]] = "translated: returns its cache, filled by the translated compute function (the lazy guard is checked on the guard table)"
    m[S + "SurfaceMesh._Connectivity._sort_vertex_neighborhoods"] = (
        "modelled: the whole body is compiled on every run (Generated/C01Sort.lean, refused shapes break the obligation) and its two walk loops "
        "are bridged to the model's walkBack / walkFwd, the rank lookup to keyOf (source_sort_*); the use of len(sort_index) as iteration count, "
        "the two sorts and the per-vertex assembly are tied by the correspondence run only")
    for f in ["SurfaceMesh._Connectivity.vertex_to_corners"]:
        m[S + f] = "translated: the cache read (Generated/C01Acc.lean); what the table holds is _sort_vertex_neighborhoods' business"
    m[L + "PolyLine._Connectivity.vertex_to_vertices"] = m[S + "SurfaceMesh._Connectivity.vertex_to_corners"]
    for f in ["SurfaceMesh.id_vertices", "SurfaceMesh.id_edges", "SurfaceMesh.id_faces", "SurfaceMesh.id_corners"]:
        m[S + f] = "modelled: range shortcut (List.range in the model)"
    m[S + "SurfaceMesh.__str__"] = "out-of-scope: printing"
    m[S + "SurfaceMesh.ith_vertex_of_face"] = "out-of-scope: plain indexing helper, not an adjacency answer of the statement"
    m[S + "SurfaceMesh.pt_of_face"] = "out-of-scope: coordinates (C07), not connectivity"
    for f in ["PolyLine._Connectivity.__init__", "PolyLine._Connectivity.clear",
              ]:
        m[L + f] = g
    for f in ["PolyLine.__init__", "PolyLine.__str__", "PolyLine.id_vertices", "PolyLine.id_edges"]:
        m[L + f] = "out-of-scope: the PolyLine mesh class itself (only its _Connectivity is the base class of the surface connectivity)"
    m[M + "RawMeshData._complete_edges_from_faces"] = "modelled: Model/Surface.lean edgesOf (edge container = undirected sides by first occurrence)"
    m[M + "RawMeshData._generate_face_corners"] = "modelled: Model/Surface.lean faceCorners"
    m[M + "RawMeshData._prepare_edges"] = "oracle-only: the oracle checks that mesh.edges lists every undirected side once"
    m[M + "RawMeshData._prepare_edges.is_valid"] = "oracle-only: part of _prepare_edges"
    for f in ["RawMeshData.__init__", "RawMeshData.id_vertices", "RawMeshData.id_edges", "RawMeshData.id_faces", "RawMeshData.id_cells",
              "RawMeshData.id_facecorners", "RawMeshData.id_cellcorners", "RawMeshData.dimensionality", "RawMeshData._compute_dimensionality",
              "RawMeshData.prepare", "RawMeshData._prepare_vertices", "RawMeshData._prepare_faces"]:
        m[M + f] = "out-of-scope: normalisation of raw input data is property C02"
    for f in ["RawMeshData._prepare_cells", "RawMeshData._generate_cell_corners", "RawMeshData._generate_cell_faces",
              "RawMeshData._complete_faces_from_cells"]:
        m[M + f] = "out-of-scope: volume meshes (C02/C03)"
    return m


SOURCE_MAP = _smap()

MANIFEST = {
    "level_text": ("Proof. Lean 4 theorems about an executable model of SurfaceMesh connectivity built exactly like the code (half-edge "
                   "dictionary with last-write-wins lookups, corner numbering, opposite pass, edge completion, border lists): under the "
                   "decidable hypothesis that every directed side occurs once, direct_face/half_edge_to_corner/corner_to_half_edge/"
                   "next/previous/opposite corner/edge_to_faces/corner_to_face/face_to_corners/edge ids equal their quantifier-style "
                   "definitions on the face list, and border ∪ interior partitions edges and vertices; ring_sorted: under the umbrella "
                   "condition at a vertex (decidable, evaluated by the driver on every input) vertex_to_corners is the rotational ring "
                   "(consecutive corners related by opposite∘previous; starts at the border corner for a border vertex; cyclic for an "
                   "interior vertex) whatever corner the walk starts from, and vertex_to_vertices/faces/edges are its images in the "
                   "matching order with the half-edge-less border neighbour first; the umbrella condition is DECIDED by the checker the driver "
                   "evaluates (umbrella_check_iff: sound and complete on built oriented meshes), so ring_sorted_of_check needs decidable "
                   "hypotheses only; set-level specs of vertex_to_vertices, "
                   "opposite_face, common_edge; for histories a generic theorem "
                   "about lazily filled caches (any guard table that passes a decidable closure check answers every query, after every "
                   "finite history, with the pure answer and never raises) is instantiated by `decide` on the guard table re-extracted "
                   "from surface.py/linear.py with Python ast on every run. The model is tied to the code by running every accessor on "
                   "every element of generated manifold surfaces in three query orders, plus a direct face-list oracle. Round 4: the BODIES of "
                   "is_edge_on_border, _compute_interior_boundary_edges, _compute_interior_boundary_vertices, _compute_mesh_type, "
                   "_compute_face_ids, face_id, _compute_edge_id, edge_id, edge_to_faces, face_to_edges, other_edge_end, vertex_to_edges are "
                   "compiled statement by statement from surface.py/linear.py into Generated/C01Src.lean on every run and proved equal to "
                   "the model (Props/C01Source), so the border-partition / edge-id / face-id theorems speak about the source text."),
    "level_note": ("Trusted: Lean kernel + propext/Classical.choice/Quot.sound; the ast translator of the guard table; the abstraction "
                   "'filled cache = pure function of the face list'; hand-written Surface model (sampled agreement only); set iteration "
                   "order forgotten (the ring theorems hold for every starting corner)."),
    "technique": "Lean 4 refinement proof (model = face-list spec) + generic lazy-cache state machine instantiated on an ast-translated guard table; differential history correspondence",
}
