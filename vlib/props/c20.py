"""C20 — union-find and priority queue conform to their abstract models."""
import math
from fractions import Fraction

PID = "C20"
TITLE = "Union-find and the priority queue conform to their abstract models"
LEAN_MODULES = ["Mouette.Props.C20", "Mouette.Props.C20Source", "Mouette.Props.C20Size", "Mouette.Props.C20Height", "Mouette.Props.C20Refine"]
REQUIRED_THEOREMS = ["inv_init", "inv_step", "inv_run", "find_root", "uf_refines", "elts_eq_present", "counts", "nComps_counts_classes",
                     "queries_preserve_partition", "component_joined", "component_partition", "components_spec",
                     "component_mapping_spec", "pop_ok", "pop_none_iff", "empty_correct", "drain_perm", "drain_sorted", "trace_perm",
                     # round 3: bridges from the definitions re-extracted from the source (Generated/C20UF.lean, C20PQ.lean)
                     "init_bridge", "contains_bridge", "len_bridge", "addStep_bridge", "findLoopBody_bridge", "findLoop_bridge",
                     "find_bridge", "connected_bridge", "union_bridge", "roots_bridge", "component_bridge", "srcStep_bridge",
                     "srcRun_bridge", "ctor_bridge", "ctor_is_history", "srcRunFrom_bridge",
                     "uf_attrs_are_instance_state", "raises_bridge",
                     "lt_is_priority_lt", "data_is_instance_state", "push_bridge", "pop_bridge", "front_bridge", "empty_bridge",
                     # the headline theorems on the extracted definitions
                     "uf_refines_source", "uf_refines_source_from", "counts_source", "union_total_source", "find_root_source",
                     "find_terminates_source", "data_is_heap", "pop_ok_source", "trace_pop_model_source", "trace_perm_source",
                     "drain_perm_source", "pq_instances_isolated", "uf_instances_isolated", "class_attribute_would_be_shared",
                     # round 3: sizes, heights, all roots kept by find
                     "find_preserves_every_root", "siz_root_eq_card", "card_eq_component_length", "siz_eq_component_length",
                     # round 4: the size comparison is extracted (`sizCmp`) and the history theorems hold for either spelling; components()
                     # and __getitem__ translated as folds with bridges; union by size => height <= log2(size)
                     "sizCmp_is_size_order", "uf_refinesC", "elts_eq_presentC", "countsC", "getitem_bridge", "compsFold_bridge",
                     "components_bridge", "components_source", "siz_root_eq_card_source", "find_terminates_log_source",
                     "rank_witness", "rank_witness_spelled", "rank_witness_lt", "rank_witness_le", "height_le_log2_size_state",
                     "height_le_log2_size", "height_le_log2_size_lt", "find_within_log2_n_state", "find_within_log2_n",
                     "find_is_log2_loop", "height_bound_needs_size_order",
                     # round 5: component_mapping() and __setitem__ translated with bridges; ONE refinement translated union-find => hand-model
                     # API, for the properties that use the union-find (C10 Kruskal, C11/C12/C16 cutting)
                     "cmFold_bridge", "component_mapping_bridge", "component_mapping_source", "setitem_bridge", "setitem_breaks_indx",
                     "sizCmp_spelling", "sim_init", "sim_add", "sim_ctor", "sim_range", "sim_len", "sim_nComps", "sim_contains", "sim_find",
                     "sim_connected", "sim_unionC", "sim_union_lt", "sim_srcUnion", "sim_applyUnions", "sim_applyUnions_lt", "sim_findAll",
                     "sim_findFaces", "mKStep_lt", "sim_kStep", "sim_kruskalLoop", "sim_kruskalLoop_lt", "views_agree_source"]

# which functions of the anchor files are translated from the working tree on every run (a Generated definition comes from the body AND
# a bridge theorem of Props/C20Source.lean uses it), which are only modelled by hand, which are out of the statement's scope
SOURCE_MAP = {
    "mouette/utils/unionfind.py::UnionFind.__init__": "translated",          # C20.init/initAttrs/ctor: init_bridge, ctor_bridge, uf_attrs_are_instance_state
    "mouette/utils/unionfind.py::UnionFind.__len__": "translated",           # C20.len: len_bridge
    "mouette/utils/unionfind.py::UnionFind.__contains__": "translated",      # C20.contains: contains_bridge
    "mouette/utils/unionfind.py::UnionFind.__getitem__": "translated",       # C20.getitem: getitem_bridge
    "mouette/utils/unionfind.py::UnionFind.add": "translated",               # C20.add: addStep_bridge
    "mouette/utils/unionfind.py::UnionFind.find": "translated",              # C20.findCond/findBody/findLoop/find: findLoop_bridge, find_bridge
    "mouette/utils/unionfind.py::UnionFind.connected": "translated",         # C20.connected: connected_bridge
    "mouette/utils/unionfind.py::UnionFind.union": "translated",             # C20.sizCmp/union: sizCmp_is_size_order, union_bridge
    "mouette/utils/unionfind.py::UnionFind.component": "translated",         # C20.component: component_bridge
    "mouette/utils/unionfind.py::UnionFind.roots": "translated",             # C20.roots: roots_bridge
    "mouette/utils/unionfind.py::UnionFind.components": "translated",        # C20.componentsFor1Step/components: components_bridge, components_source
    "mouette/utils/unionfind.py::UnionFind.component_mapping": "translated",  # C20.componentMappingFor1Step/componentMapping: component_mapping_bridge, component_mapping_source
    "mouette/utils/unionfind.py::UnionFind.__setitem__": "translated",       # C20.setitem: setitem_bridge; setitem_breaks_indx proves why it is not an operation of the histories
    "mouette/utils/unionfind.py::UnionFind.__repr__": "out-of-scope: debug string of the private arrays, no clause of the statement is about it",
    "mouette/utils/priority_queue.py::PriorityItem.__lt__": "translated",    # C20PQ.itemLt: lt_is_priority_lt
    "mouette/utils/priority_queue.py::PriorityQueue.__init__": "translated",  # C20PQ.dataHome/initData: data_is_instance_state
    "mouette/utils/priority_queue.py::PriorityQueue.empty": "translated",    # C20PQ.empty: empty_bridge
    "mouette/utils/priority_queue.py::PriorityQueue.front": "translated",    # C20PQ.front: front_bridge
    "mouette/utils/priority_queue.py::PriorityQueue.get": "translated",      # C20PQ.get_: pop_bridge
    "mouette/utils/priority_queue.py::PriorityQueue.pop": "translated",      # C20PQ.pop_: pop_bridge
    "mouette/utils/priority_queue.py::PriorityQueue.push": "translated",     # C20PQ.push: push_bridge
}
TRUSTED = [
    "Lean 4.33.0 kernel; axioms ⊆ {propext, Classical.choice, Quot.sound}",
    "the translator vlib/gen/c20_translate.py (Python ast -> Lean): that the state-passing Lean definitions it writes to Generated/C20UF.lean, "
    "C20PQ.lean denote the Python statements it read (vocabulary: Model/UFSource.lean - dict as association list, out-of-range list reads "
    "totalised, `raise` = none, `set(..)` = duplicate-free list in first-occurrence order, `while` = recursion on fuel len(_par), proved "
    "sufficient - and log2(n) proved sufficient; local dict/bucket reads raise = none, proved never to happen); "
    "local dicts of sets are insertion-ordered association lists, the iteration order inside a Python set is not modelled)",
    "elements are mapped to integer ids by the harness (hash/eq of Python hashables trusted); priorities are floats without NaN",
    "heapq: CPython's heappush/heappop implement the algorithm of Lib/heapq.py (append + _siftdown; pop last, replace root, bottom-up _siftup) "
    "- modelled in Model/BinHeap.lean; the heap contract (heap invariant w.r.t. __lt__ kept, multiset kept, pop returns heap[0] <= every item) "
    "is PROVED for that model (Lemmas/BinHeap.lean), and the model's pop order, ties included, is compared with the implementation on every history",
    "Python object model: an attribute assigned on self in __init__ is per-instance, an attribute of the class body is shared "
    "(Lemmas/C20SourceRun.lean `World`); dataclass(compare=False) keeps `x` out of comparisons",
]
ASSUMPTIONS = ["agreement model/implementation is established on the histories explored in this run only (the model is additionally "
               "proved equal to the definitions extracted from the source, see *_bridge)"]
RULE = ("random histories over ints/strings/tuples/mixed elements (adds, repeated adds, unions incl. self and absent, "
        "find/connected/component queries) and queue histories (ties, negatives, ±inf); observed after every "
        "operation (uf: answer, both counters, canonical partition; pq: answer incl. WHICH item a pop hands out, and `front`, compared "
        "with the proved model of heapq); non-trivial = distinct history with ≥1 union joining two components (uf) or ≥2 pops (pq); "
        "thorough adds all histories of length ≤ 5 over 3 elements")


def _elements(kind, n, rng):
    if kind == "int":
        return rng.sample(range(-5, 50), n)
    if kind == "str":
        return [f"s{i}" for i in rng.sample(range(100), n)]
    if kind == "tuple":
        return [(i, i + 1) for i in rng.sample(range(100), n)]
    pool = rng.sample(range(30), n)
    return [i if j % 3 == 0 else (f"e{i}" if j % 3 == 1 else (i, "t")) for j, i in enumerate(pool)]


def cases(rng, tier):
    n_uf, n_pq, maxlen = (400, 400, 40) if tier == "quick" else (6000, 6000, 80)
    for _ in range(n_uf):
        kind = rng.choice(["int", "int", "str", "tuple", "mixed"])
        ne = rng.randint(1, 12)
        L = rng.randint(1, maxlen)
        ops = []
        pa = rng.choice([0.1, 0.3])
        for _ in range(L):
            r = rng.random()
            x, y = rng.randrange(ne), rng.randrange(ne)
            if r < pa: ops.append(["a", x])
            elif r < pa + 0.35: ops.append(["u", x, y if rng.random() > 0.1 else x])
            elif r < pa + 0.5: ops.append(["f", x])
            elif r < pa + 0.65: ops.append(["c", x, y])
            elif r < pa + 0.8: ops.append(["k", x])
            elif r < pa + 0.9: ops.append(["r"])
            else: ops.append(["m"])
        c = {"t": "uf", "kind": kind, "elems": _elements(kind, ne, rng), "ops": ops}
        if rng.random() < 0.3:
            c["init"] = {"idx": [rng.randrange(ne) for _ in range(rng.randint(0, ne + 2))], "as": rng.choice(["list", "tuple", "iter", "keys"])}
        if rng.random() < 0.3: c["decoy"] = rng.choice(["empty", "init"])
        yield c
    # deep trees: binomial merges of equal-size components through their current representatives, in either
    # argument order, with NO query before the first whole-structure query (path halving must not have flattened them)
    for _ in range(n_uf // 4):
        kind = rng.choice(["int", "str", "tuple"])
        k = rng.choice([2, 3, 3, 4])
        ne = 2 ** k
        order = list(range(ne)); rng.shuffle(order)
        ops = [["a", i] for i in order] if rng.random() < 0.5 else []
        groups = [[i] for i in order]
        reps = {i: i for i in order}          # a root-ish representative: the element that stayed root (by model of weighted union)
        while len(groups) > 1:
            nxt = []
            for a, b in zip(groups[0::2], groups[1::2]):
                x, y = (a[0], b[0]) if rng.random() < 0.5 else (b[0], a[0])
                ops.append(["u", x, y])
                # with equal sizes the FIRST argument's root stays root
                nxt.append(([x] + [e for e in a + b if e != x]))
            groups = nxt
        tail = rng.choice([["r"], ["m"], ["k", rng.randrange(ne)], ["r"], ["m"]])
        ops.append(tail)
        for _ in range(rng.randint(0, 4)):
            ops.append(rng.choice([["r"], ["m"], ["k", rng.randrange(ne)], ["c", rng.randrange(ne), rng.randrange(ne)]]))
        yield {"t": "uf", "kind": kind, "elems": _elements(kind, ne, rng), "ops": ops, "fam": "binomial"}
    if tier == "thorough":
        # exhaustive small scope (a test of the model tie, not a proof)
        import itertools
        alpha = [["a", 0], ["a", 1], ["u", 0, 1], ["u", 1, 2], ["u", 0, 0], ["c", 0, 2], ["k", 1], ["f", 2], ["r"], ["m"]]
        for L in range(1, 5):
            for seq in itertools.product(alpha, repeat=L):
                yield {"t": "uf", "kind": "int", "elems": [7, 8, 9], "ops": [list(o) for o in seq]}
    for _ in range(n_pq):
        L = rng.randint(1, maxlen)
        ops = []
        regime = rng.choice(["ties", "spread", "fill-drain", "sawtooth"])
        prios = [Fraction(rng.randint(-6, 6), rng.choice([1, 1, 2, 4])) for _ in range(4)]

        def prio():
            if regime == "ties":
                return str(rng.choice(prios + ["-inf", "+inf"])) if rng.random() < 0.8 else str(Fraction(rng.randint(-50, 50), 8))
            if rng.random() < 0.05: return rng.choice(["-inf", "+inf"])
            return str(Fraction(rng.randint(-400, 400), 8))
        if regime == "fill-drain":
            n = rng.randint(2, maxlen)
            ops = [["p", i, prio()] for i in range(n)]
            ops += [rng.choice([["o"], ["o"], ["o"], ["e"]]) for _ in range(n + 2)]
        elif regime == "sawtooth":
            i = 0
            while len(ops) < L + 4:
                for _ in range(rng.randint(1, 9)):
                    ops.append(["p", i, prio()]); i += 1
                for _ in range(rng.randint(0, 5)):
                    ops.append(["o"])
                if rng.random() < 0.3: ops.append(["e"])
        else:
            for i in range(L):
                r = rng.random()
                if r < 0.55: ops.append(["p", i, prio()])
                elif r < 0.9: ops.append(["o"])
                else: ops.append(["e"])
        c = {"t": "pq", "ops": ops, "regime": regime}
        if rng.random() < 0.4: c["elems"] = "mixed"
        if rng.random() < 0.4: c["prio_rep"] = rng.choice(["int", "numpy"])
        if rng.random() < 0.3: c["decoy"] = "empty"
        yield c


def model_request(case):
    if case["t"] == "uf":
        ops = [["a", i] for i in (case.get("init") or {"idx": []})["idx"]] + case["ops"]
        toks = ["uf", str(len(ops))]
        for o in ops:
            toks += [str(t) for t in o]
        return " ".join(toks)
    toks = ["pq", str(len(case["ops"]))]
    for o in case["ops"]:
        toks += [str(t) for t in o]
    return " ".join(toks)


def _hashable(e):
    return tuple(e) if isinstance(e, list) else e


def _new_uf(case, elems):
    """the instance under test: empty, or built from an initial container (list / tuple / iterator / dict keys, possibly with
    repetitions) - the documented equivalent of adding the elements in that order"""
    from mouette.utils.unionfind import UnionFind
    init = case.get("init")
    if init is None: return UnionFind()
    xs = [elems[i] for i in init["idx"]]
    cont = {"list": list, "tuple": tuple, "iter": iter, "keys": lambda l: dict.fromkeys(l).keys()}[init["as"]](xs)
    return UnionFind(cont)


class _Decoy:
    """a second, independent instance of the same class that is used between the operations of the history: nothing done to it
    may show in the instance under test (no state shared between instances)"""

    def __init__(self, case, elems=None):
        self.on = bool(case.get("decoy"))
        if not self.on: return
        if case["t"] == "uf":
            from mouette.utils.unionfind import UnionFind
            self.o = UnionFind(list(elems)) if case["decoy"] == "init" else UnionFind()
            self.elems = list(elems)
        else:
            from mouette.utils.priority_queue import PriorityQueue
            self.o = PriorityQueue()
        self.k = 0

    def poke(self):
        if not self.on: return
        self.k += 1
        try:
            if hasattr(self, "elems"):
                n = len(self.elems)
                self.o.union(self.elems[self.k % n], self.elems[(self.k * 7 + 3) % n])
                if self.k % 3 == 0: self.o.find(self.elems[(self.k * 5) % n])
            else:
                self.o.push(("decoy", self.k), float((self.k * 37) % 11 - 20))
                if self.k % 4 == 0: self.o.pop()
        except Exception:  # noqa  (the decoy's own behaviour is not under test here)
            pass


def _pq_elem(case, i):
    """element pushed as item i: its position (an int), or - `mixed` - ints, strings and tuples in turn (the element types the
    statement names; values of different types are not orderable: the queue orders by priority only, ties included)"""
    if case.get("elems") != "mixed": return i
    return i if i % 3 == 0 else f"e{i}" if i % 3 == 1 else (i, "t")


def _pq_prio(case, t):
    """priority as the caller passes it: float, or - `prio_rep` - Python int / numpy scalar where the value allows"""
    w = _prio(t)
    rep = case.get("prio_rep")
    if rep == "int" and w == w and abs(w) != math.inf and float(w).is_integer(): return int(w)
    if rep == "numpy":
        import numpy as np
        return np.float64(w) if (abs(w) == math.inf or not float(w).is_integer()) else np.int64(int(w))
    return w


def _uf_labels(uf):
    """partition labels from the *public* API: for each element (in insertion order) the position of
    the first element it is connected to."""
    import copy
    uf = copy.deepcopy(uf)      # observing must not compress the paths of the instance under test
    elts = [uf[i] for i in range(len(uf))]
    labs = []
    for i, e in enumerate(elts):
        for j in range(i + 1):
            if uf.connected(elts[j], e):
                labs.append(j); break
    return elts, labs


def _run_uf(case):
    from mouette.utils.unionfind import UnionFind
    elems = [_hashable(e) for e in case["elems"]]
    uf = _new_uf(case, elems)
    decoy = _Decoy(case, elems)
    recs, checks = [], []
    for o in case["ops"]:
        decoy.poke()
        k = o[0]
        x = elems[o[1]] if len(o) > 1 else None
        ans = "-"
        try:
            if k == "r":
                eltsb, labsb = _uf_labels(uf)
                rs = uf.roots()
                import copy
                pr = copy.deepcopy(uf)
                good = sum(1 for r in rs if isinstance(r, int) and 0 <= r < len(uf) and pr.find(pr[r]) == r)
                rl = sorted(labsb[r] for r in rs if isinstance(r, int) and 0 <= r < len(uf))
                ans = f"{len(rs)}:{good}:{len(rl)}{''.join(' ' + str(l) for l in rl)}"
            elif k == "m":
                comps = uf.components()
                keys = sorted(" ".join([str(len(c))] + [str(i) for i in sorted(elems.index(e) for e in c)]) for c in comps)
                ans = f"{len(comps)}/" + "/".join(keys)
            elif k == "a": uf.add(x)
            elif k == "u": uf.union(x, elems[o[2]])
            elif k == "f":
                present = x in uf
                if present:
                    eltsb, labsb = _uf_labels(uf)
                r = uf.find(x)
                isroot = (uf.find(uf[r]) == r)
                ans = f"{labsb[eltsb.index(x)]}:{1 if isroot else 0}"
            elif k == "c":
                ans = "1" if uf.connected(x, elems[o[2]]) else "0"
            elif k == "k":
                comp = uf.component(x)
                ans = " ".join([str(len(comp))] + [str(i) for i in sorted(elems.index(_hashable(c) if not hasattr(c, "item") else c.item()) for c in comp)])
        except ValueError as e:
            ans = "err:Value" if "is not an element" in str(e) else f"err:Other({type(e).__name__})"
        except Exception as e:  # noqa
            ans = f"err:Other({type(e).__name__})"
        elts, labs = _uf_labels(uf)
        recs.append(f"{ans};{uf.n_elts};{uf.n_comps};{len(uf)};{len(labs)}{''.join(' ' + str(l) for l in labs)}")
        checks.append((o, ans, elts, labs, uf))
    return " | ".join(recs), uf


def _prio(t):
    return -math.inf if t == "-inf" else math.inf if t == "+inf" else float(Fraction(t))


def _fmt_prio(w):
    if w == -math.inf: return "-inf"
    if w == math.inf: return "+inf"
    f = Fraction(w)
    return str(f.numerator) if f.denominator == 1 else f"{f.numerator}/{f.denominator}"


def _run_pq(case):
    """one record per operation: `<answer>;<front after the operation>`; a pop answers WHICH item came out (`id:priority`)"""
    from mouette.utils.priority_queue import PriorityQueue
    q = PriorityQueue()
    decoy = _Decoy(case)
    out = []
    rev = {}

    def item(it):
        return f"{rev.get(it.x, '?')}:{_fmt_prio(float(it.priority))}"

    def front():
        try:
            return item(q.front)
        except IndexError:
            return "-"
        except Exception as e:  # noqa
            return f"err:Other({type(e).__name__})"
    for o in case["ops"]:
        decoy.poke()
        if o[0] == "p":
            try:
                x = _pq_elem(case, o[1]); rev[x] = o[1]
                q.push(x, _pq_prio(case, o[2])); a = "-"
            except Exception as e:  # noqa
                a = f"err:Other({type(e).__name__})"
        elif o[0] == "o":
            try:
                a = item(q.pop())
            except IndexError:
                a = "err:Index"
            except Exception as e:  # noqa
                a = f"err:Other({type(e).__name__})"
        else:
            a = "1" if q.empty() else "0"
        out.append(f"{a};{front()}")
    return " | ".join(out)


def impl_observe(case):
    if case["t"] == "uf":
        return _run_uf(case)[0]
    return _run_pq(case)


def oracle(case):
    """The property stated directly on the implementation, independent of the Lean model."""
    out = []
    if case["t"] == "uf":
        from mouette.utils.unionfind import UnionFind
        elems = [_hashable(e) for e in case["elems"]]
        try:
            uf = _new_uf(case, elems)
        except Exception as e:  # noqa
            return [{"key": f"C20/uf/init/raises/{case['kind']}", "what": f"UnionFind(elements) raised {type(e).__name__}", "detail": str(e)}]
        decoy = _Decoy(case, elems)
        present, pairs = [], []
        for i in (case.get("init") or {"idx": []})["idx"]:
            if elems[i] not in present: present.append(elems[i])

        def classes():
            # reference partition by naive closure
            lab = {e: i for i, e in enumerate(present)}
            changed = True
            while changed:
                changed = False
                for a, b in pairs:
                    if lab[a] != lab[b]:
                        m, M = min(lab[a], lab[b]), max(lab[a], lab[b])
                        for e in lab:
                            if lab[e] == M: lab[e] = m
                        changed = True
            return lab
        import copy
        for step, o in enumerate(case["ops"]):
            decoy.poke()
            k, x = o[0], (elems[o[1]] if len(o) > 1 else None)
            try:
                if k == "r": uf.roots()
                elif k == "m": uf.components()
                elif k == "a":
                    uf.add(x)
                    if x not in present: present.append(x)
                elif k == "u":
                    y = elems[o[2]]
                    uf.union(x, y)
                    for e in (x, y):
                        if e not in present: present.append(e)
                    pairs.append((x, y))
                elif k == "f":
                    if x in present: uf.find(x)
                elif k == "c":
                    y = elems[o[2]]
                    if x in present and y in present: uf.connected(x, y)
                elif k == "k":
                    if x in present:
                        comp = uf.component(x)  # (the history's own query, on the instance itself)
                        lab = classes()
                        want = {e for e in present if lab[e] == lab[x]}
                        got = set(c.item() if hasattr(c, "item") else c for c in comp)
                        if got != want:
                            out.append({"key": f"C20/uf/component/{case['kind']}", "what": "component(x) is not the class of x",
                                        "detail": f"step {step}: got {sorted(map(str, got))} want {sorted(map(str, want))}"})
            except Exception as e:  # noqa
                out.append({"key": f"C20/uf/{k}/raises/{case['kind']}", "what": f"{k} raised {type(e).__name__} on present {case['kind']} elements",
                            "detail": f"step {step} op {o}: {e}"})
                return out
            lab = classes()
            n_classes = len(set(lab.values()))
            if len(uf) != len(present) or uf.n_elts != len(present):
                out.append({"key": "C20/uf/count-elts", "what": "element count wrong", "detail": f"step {step}"})
            if uf.n_comps != n_classes:
                out.append({"key": "C20/uf/count-comps", "what": "component count wrong", "detail": f"step {step}: {uf.n_comps} vs {n_classes}"})
            # every whole-structure query is asked FIRST on its own deep copy of the state reached by the history,
            # so that no earlier query of the oracle has compressed paths for it
            probe = copy.deepcopy(uf)
            missing = [a for a in present if a not in uf]
            if missing:
                out.append({"key": "C20/uf/contains", "what": "an element that was added (or named in a union) is not in the structure",
                            "detail": f"step {step} op {o}: missing {missing[:3]}"})
                return out
            for a in present:
                for b in present:
                    if probe.connected(a, b) != (lab[a] == lab[b]):
                        out.append({"key": "C20/uf/connected", "what": "connected differs from union-chain closure",
                                    "detail": f"step {step}: {a},{b}"})
                        return out
            # root handles: find(x) is an index; the element stored there (uf[index]) must belong to the class of x
            # (a root that cannot be resolved to a member of its class does not describe the partition)
            p0 = copy.deepcopy(uf)
            for a in present:
                try:
                    r = p0.find(a)
                    e = p0[r]
                except Exception as ex:  # noqa
                    out.append({"key": f"C20/uf/root-index/raises/{case['kind']}", "what": f"uf[find(x)] raised {type(ex).__name__}",
                                "detail": f"step {step}: x={a}: {ex}"})
                    return out
                if e not in lab or lab[e] != lab[a]:
                    out.append({"key": "C20/uf/root-index", "what": "the element stored at index find(x) is not in the class of x",
                                "detail": f"step {step}: x={a} root index {r} holds {e}"})
                    return out
            try:
                p1 = copy.deepcopy(uf)
                roots = p1.roots()
                p1b = copy.deepcopy(uf)
                if len(roots) != n_classes or {p1b.find(e) for e in present} != set(roots):
                    out.append({"key": "C20/uf/roots", "what": "root set does not describe the partition", "detail": f"step {step}: roots()={sorted(map(str, roots))} for {n_classes} classes"})
                comps = copy.deepcopy(uf).components()
                flat = [e for c in comps for e in c]
                if sorted(map(repr, flat)) != sorted(map(repr, present)) or \
                        any(len({lab[e] for e in c}) != 1 for c in comps) or len(comps) != n_classes:
                    out.append({"key": "C20/uf/components", "what": "components() is not the partition", "detail": f"step {step}"})
            except Exception as e:  # noqa
                out.append({"key": f"C20/uf/roots-components/raises/{case['kind']}", "what": f"roots/components raised {type(e).__name__}", "detail": str(e)})
            if present:
                try:
                    cm = copy.deepcopy(uf).component_mapping()
                    ok = set(cm.keys()) == set(present) and all(
                        {c.item() if hasattr(c, "item") else c for c in cm[e]} == {f for f in present if lab[f] == lab[e]} for e in present)
                    if not ok:
                        out.append({"key": f"C20/uf/component_mapping/{case['kind']}", "what": "component_mapping() does not describe the partition",
                                    "detail": f"step {step}"})
                except Exception as e:  # noqa
                    out.append({"key": f"C20/uf/component_mapping/raises/{case['kind']}", "what": f"component_mapping raised {type(e).__name__}", "detail": str(e)})
            if out:
                return out
    else:
        from mouette.utils.priority_queue import PriorityQueue
        q = PriorityQueue()
        decoy = _Decoy(case)
        pending = []
        for step, o in enumerate(case["ops"]):
            decoy.poke()
            if o[0] == "p":
                try:
                    q.push(_pq_elem(case, o[1]), _pq_prio(case, o[2]))
                except Exception as e:  # noqa
                    out.append({"key": f"C20/pq/push/raises/{type(e).__name__}", "what": f"push raised {type(e).__name__}", "detail": f"step {step} op {o}: {e}"}); return out
                pending.append((_pq_elem(case, o[1]), _prio(o[2])))
            elif o[0] == "o":
                if not pending:
                    try:
                        q.pop(); out.append({"key": "C20/pq/pop-empty", "what": "pop on empty queue returned", "detail": f"step {step}"})
                    except IndexError:
                        pass
                else:
                    try:
                        it = q.pop()
                    except Exception as e:  # noqa
                        out.append({"key": f"C20/pq/pop/raises/{type(e).__name__}", "what": f"pop raised {type(e).__name__} on a non-empty queue", "detail": f"step {step}: {e}"}); return out
                    if (it.x, it.priority) not in pending:
                        out.append({"key": "C20/pq/pop-not-pending", "what": "popped item was not pending", "detail": f"step {step}"}); return out
                    if it.priority > min(p for _, p in pending):
                        out.append({"key": "C20/pq/pop-not-min", "what": "popped item is not of minimum priority", "detail": f"step {step}"}); return out
                    pending.remove((it.x, it.priority))
            if q.empty() != (len(pending) == 0):
                out.append({"key": "C20/pq/empty", "what": "empty() wrong", "detail": f"step {step}"}); return out
            if pending and q.front.priority != min(p for _, p in pending):
                out.append({"key": "C20/pq/front", "what": "front is not minimal", "detail": f"step {step}"}); return out
    return out


def _prio_only(trace):
    return " | ".join(";".join(f.split(":")[-1] for f in rec.split(";")) for rec in trace.split(" | "))


def compare(case, model, impl):
    if case["t"] == "uf":
        if case.get("init"):
            # the constructor's elements are `add`s for the model; the implementation has no record for them
            model = " | ".join(model.split(" | ")[len(case["init"]["idx"]):])
        return None if model == impl else "model trace differs from implementation trace"
    if model == impl: return None
    if _prio_only(model) == _prio_only(impl):
        return ("priorities, emptiness and errors agree, but WHICH of several equal-priority items is handed out / is at the front differs from "
                "the heapq model of Model/BinHeap.lean (tie-breaking order is not a clause of the property; the model of heapq is no longer exact)")
    return "model trace differs from implementation trace"


def nontrivial(case, obs):
    if case["t"] == "uf":
        recs = obs.split(" | ")
        comps = [r.split(";")[2] for r in recs]
        return any(o[0] == "u" and i > 0 and comps[i] < comps[i - 1] for i, o in enumerate(case["ops"]))
    return sum(1 for o in case["ops"] if o[0] == "o") >= 2


def search_on_break(rng, broken, mismatches):
    """a bridge / translation site / the correspondence broke: targeted inputs for the failing-input search (oracle only).
    Exhaustive small scope, a second instance in use in every case (shared state), constructor containers with
    repetitions, deep trees, tie-heavy queues."""
    import itertools
    alpha = [["a", 0], ["a", 1], ["u", 0, 1], ["u", 1, 2], ["u", 0, 0], ["u", 2, 0], ["c", 0, 2], ["k", 1], ["f", 2], ["r"], ["m"]]
    for L in range(1, 4):
        for seq in itertools.product(alpha, repeat=L):
            yield {"t": "uf", "kind": "int", "elems": [7, 8, 9], "ops": [list(o) for o in seq]}
    for seq in itertools.product([["u", 0, 1], ["u", 2, 3], ["u", 1, 0], ["u", 3, 1], ["u", 0, 2], ["a", 4], ["u", 4, 0]], repeat=4):
        yield {"t": "uf", "kind": "int", "elems": [3, 4, 5, 6, 7], "ops": [list(o) for o in seq] + [["r"], ["m"], ["k", 0]]}
    for i, c in enumerate(cases(rng, "quick")):
        if i % 2 == 0:
            c = dict(c, decoy=("init" if (c["t"] == "uf" and i % 4 == 0) else "empty"))
        if c["t"] == "uf" and i % 3 == 0 and not c.get("init"):
            ne = len(c["elems"])
            c = dict(c, init={"idx": [rng.randrange(ne) for _ in range(rng.randint(1, ne + 3))], "as": rng.choice(["list", "tuple", "iter", "keys"])})
        yield c


def classify(case, obs):
    ks = [case["t"] + ":" + o[0] for o in case["ops"]]
    if case["t"] == "uf":
        ks.append("uf-kind:" + case["kind"])
        ks.append("uf-built:" + ("empty" if not case.get("init") else "from-" + case["init"]["as"]))
    else:
        ks.append("pq-regime:" + case.get("regime", "?"))
        ks.append("pq-elements:" + case.get("elems", "ints")); ks.append("pq-priorities-as:" + case.get("prio_rep", "float"))
    ks.append("other-instance-in-use:" + str(bool(case.get("decoy"))))
    ks += ["err:" + r.split(";")[0] for r in obs.split(" | ") if r.startswith("err")]
    return ks


def shrink(case, still):
    ops = list(case["ops"])
    i = 0
    while i < len(ops):
        trial = dict(case, ops=ops[:i] + ops[i + 1:])
        if still(trial): ops = trial["ops"]
        else: i += 1
    return dict(case, ops=ops)

from ..gen.c20_translate import translate  # noqa: E402

MANIFEST = {
    "level_text": ("Proof. Lean 4 theorems about an executable model of UnionFind (weighted quick-union with path halving, exactly "
                   "the code's arrays and counters) and of the priority queue: representation invariant preserved by every operation "
                   "incl. the mutation inside queries, find terminates within fuel and returns a root, connected(x,y) <-> equivalence "
                   "closure of the unions so far for EVERY finite history (refinement), counts/roots/components describe that "
                   "partition, queries preserve it (every element keeps its root), the size field of every root is the cardinality of its "
                   "class and 2^depth <= size; queue: the heap contract is PROVED for a Lean model of heapq (sift-up/sift-down over a list), "
                   "hence every pop returns a pending minimum, each pushed item comes out once, emptiness is exact. On every run the methods "
                   "of unionfind.py and priority_queue.py are re-extracted with Python ast into state-passing Lean definitions "
                   "(add, find incl. its while loop, union incl. the size comparison and link orientation, connected, component, roots, "
                   "__init__, __contains__, __len__; PriorityItem.__lt__, push/pop/get/front/empty, where `data` lives) and BRIDGE theorems "
                   "prove them equal to the model, so that the headline theorems hold of what the source says now (uf_refines_source, "
                   "pop_ok_source, drain_perm_source, trace_pop_model_source, find_terminates_source, instances isolated, constructor = fold "
                   "of add). Round 4: the size comparison of union is extracted as a definition and every history theorem is proved for an "
                   "ARBITRARY comparison (so `<` and `<=` are both covered by the same bridge); components() and __getitem__ are translated "
                   "as the folds they are and proved to return the model's listing without raising (components_bridge, components_source); "
                   "union by size => a rank witness with 2^rank <= size exists after every history, hence the while loop of find exits "
                   "within log2(n) iterations (height_le_log2_size, find_terminates_log_source). Round 5: component_mapping() (both loops, the dict of "
                   "sets) and __setitem__ are translated and bridged (component_mapping_bridge, component_mapping_source), so every method of "
                   "both anchor files except __repr__ is read from the working tree; Props/C20Refine.lean proves once that the translated "
                   "union-find simulates the hand-model API (init/add/find/connected/union and the Kruskal / cutting folds built on it). The tie with the running code is additionally sampled by a history correspondence (observed after every "
                   "operation, pop order on ties included) and a direct oracle, which also produce the failing input when a bridge breaks."),
    "level_note": ("Trusted: Lean kernel + propext/Classical.choice/Quot.sound; the ast->Lean translator and its vocabulary "
                   "(Model/UFSource.lean); Python hash/eq of the elements; 'CPython's heapq implements the algorithm of Lib/heapq.py' "
                   "(its contract is proved for the model, its pop order is compared on every history); Python's attribute lookup rule "
                   "(instance vs class body)."),
    "technique": ("Lean 4 refinement proof (invariant + equivalence-closure spec) over an executable model; source methods translated by "
                  "Python ast into Lean definitions each run and proved equal to the model by bridge theorems (kernel-checked, lake build); "
                  "proved binary-heap contract; differential history correspondence + oracle for the failing-input search"),
}
