"""C11 — k-d tree queries are exact and construction always terminates."""
import json, random, signal
from fractions import Fraction

from ..gen import points as G
from .c11_translate import translate as _translate_guards  # translated fragments: query write sets and single-form guards
from ..gen import c11_source as _SRC                       # translated BODIES (round 4): Generated/C11Src.lean
from ..translate import site as T_site
from ..gen import c12_source as _BOX                       # translated BODIES of aabb.py: Generated/C12Box.lean (shared with C12)

_BOX_SITES = ("AABB.__init__", "AABB.dim", "AABB.mini", "AABB.maxi", "AABB.infinite", "AABB.distance")


def translate():
    """every site of the translators; a site that is not understood comes back ok=False (broken obligation).  Of aabb.py only
    the methods KDTree uses count here (the others belong to property C12)."""
    box = [s for s in _BOX.translate() if any(s["site"].startswith("aabb.py: " + m + " ") for m in _BOX_SITES) or "class AABB" in s["site"]]
    from ..gen import c20_translate as _C20       # PriorityQueue bodies (translator of property C20): Generated/C20PQ.lean
    pq = T_site("priority_queue.py: PriorityItem fields + __lt__, PriorityQueue.data home, push/get/pop/front/empty over heapq",
                _C20._stubbed("C20PQ", _C20.PQ_HEADER, "Mouette.Generated.C20PQ", _C20.site_priority_queue))
    vec = [s for s in _BOX.translate_vec() if s["site"] in ("geometry.py: norm (body)", "geometry.py: distance (body)") or "vector.py / geometry.py" in s["site"]]
    return _translate_guards() + _SRC.translate() + box + [pq] + vec


PID = "C11"
TITLE = "k-d tree queries are exact and construction always terminates"
LEAN_MODULES = ["Mouette.Props.C11", "Mouette.Props.C11F", "Mouette.Props.C11G", "Mouette.Props.C11S", "Mouette.Props.C11B", "Mouette.Props.C11Q"]
REQUIRED_THEOREMS = ["build_terminates", "buildRoot_terminates", "build_partition", "buildRoot_partition", "build_boxes",
                     "buildRoot_boxes", "radius_exact", "knn_exact", "knn_distances_k_smallest", "kdtree_correct",
                     "buildOriginal_diverges", "knnOriginal_wrong",
                     # flat model = the code's data structures (Props/C11F.lean)
                     "buildBFSRoot_terminates", "buildBFSRoot_refines", "buildBFSRoot_ids", "buildBFSRoot_leaves",
                     "buildBFS_partition", "knnFlat_refines", "knnFlat_exact", "radiusFlat_refines", "radiusFlat_exact",
                     # bridges Generated (translated from the current kdtree.py) = model (Props/C11G.lean)
                     "gen_queries_read_only", "gen_radiusPrune", "gen_radiusKeep", "gen_trimGuard", "gen_heldGuard",
                     "furthest_eq_gen", "gen_fallbackGuard",
                     # round 4: the BODIES of kdtree.py translated on every run (Generated/C11Src.lean) = flat model; headline
                     # theorems restated on the extracted definitions (Props/C11S.lean)
                     "splitPoints_bridge", "splitPoints_ok", "newLeaf_bridge", "initBody_bridge", "init_bridge", "isLeaf_bridge",
                     "trim_bridge", "trim_exits", "query_bridge", "queryRadius_bridge", "ctor_copies_points",
                     "init_source_correct", "source_children_ordered", "query_source_exact", "query_radius_source_exact",
                     # the box operations KDTree relies on, as extracted from aabb.py (Generated/C12Box.lean; Props/C11B.lean)
                     "kd_box_ctor", "kd_box_infinite", "kd_box_bounds", "kd_box_distance", "kd_box_distance_le", "kd_point_distance",
                     # round 5: _find_pivot / BuildStrategy.from_string translated; C11 for every strategy and every outcome of
                     # numpy.random.choice; the PriorityQueue assumption proved on the extracted priority_queue.py (Props/C11Q.lean)
                     "findPivot_bridge", "findPivot_total", "strategy_table", "kdtree_source_all_strategies",
                     "run_isHeap", "pq_assumption_source", "pq_order_is_priority"]

# Which function of the anchor files is tied to the model how (computed by hand from what the translators emit and what
# the bridge theorems of Props/C11S.lean, Props/C11G.lean, Props/C12S.lean use).
SOURCE_MAP = {
    "mouette/spatial/kdtree.py::KDTree.__init__": "translated",          # C11S.init* = buildBFS (init_bridge)
    "mouette/spatial/kdtree.py::KDTree._new_leaf": "translated",         # C11S.newLeaf (newLeaf_bridge)
    "mouette/spatial/kdtree.py::KDTree._split_points": "translated",     # C11S.splitPoints = splitIdx (splitPoints_bridge)
    "mouette/spatial/kdtree.py::KDTree.is_leaf": "translated",           # C11S.isLeaf (isLeaf_bridge)
    "mouette/spatial/kdtree.py::KDTree.query": "translated",             # C11S.query = knnFlat (query_bridge)
    "mouette/spatial/kdtree.py::KDTree.query_radius": "translated",      # C11S.queryRadius = radiusFlat (queryRadius_bridge)
    "mouette/spatial/kdtree.py::KDTree.Leaf.size": "translated",         # C11S.leafSize (used by initBody_bridge)
    "mouette/spatial/kdtree.py::KDTree._find_pivot": "translated",       # C11S.findPivot (findPivot_bridge, kdtree_source_all_strategies); numpy.random.choice = arbitrary parameters
    "mouette/spatial/kdtree.py::KDTree.BuildStrategy.from_string": "translated",   # C11S.strategyOfString / acceptedStrategies (strategy_table)
    "mouette/geometry/aabb.py::AABB.__init__": "translated",             # C12Box.ctor / ctorCopies (kd_box_ctor)
    "mouette/geometry/aabb.py::AABB.infinite": "translated",             # C12Box.infinite (kd_box_infinite)
    "mouette/geometry/aabb.py::AABB.distance": "translated",             # C12Box.distance = Box.dist2 (kd_box_distance)
    "mouette/geometry/aabb.py::AABB.mini": "translated",                 # kd_box_bounds
    "mouette/geometry/aabb.py::AABB.maxi": "translated",
    "mouette/geometry/aabb.py::AABB.dim": "translated",                  # C12Box.dim (used by kd_box_distance)
    "mouette/geometry/aabb.py::AABB.IncompatibleDimensionError.__init__": "out-of-scope: exception class",
    "mouette/geometry/aabb.py::AABB.__repr__": "out-of-scope: printing",
    "mouette/utils/priority_queue.py::PriorityItem.__lt__": "translated",   # Generated/C20PQ.lean (translator of C20); Props/C11Q.lean: pq_assumption_source discharges the assumption of Model/KDSource.lean
    "mouette/utils/priority_queue.py::PriorityQueue.__init__": "translated",   # Generated/C20PQ.lean (translator of C20); Props/C11Q.lean: pq_assumption_source discharges the assumption of Model/KDSource.lean
    "mouette/utils/priority_queue.py::PriorityQueue.empty": "translated",   # Generated/C20PQ.lean (translator of C20); Props/C11Q.lean: pq_assumption_source discharges the assumption of Model/KDSource.lean
    "mouette/utils/priority_queue.py::PriorityQueue.front": "translated",   # Generated/C20PQ.lean (translator of C20); Props/C11Q.lean: pq_assumption_source discharges the assumption of Model/KDSource.lean
    "mouette/utils/priority_queue.py::PriorityQueue.get": "translated",   # Generated/C20PQ.lean (translator of C20); Props/C11Q.lean: pq_assumption_source discharges the assumption of Model/KDSource.lean
    "mouette/utils/priority_queue.py::PriorityQueue.pop": "translated",   # Generated/C20PQ.lean (translator of C20); Props/C11Q.lean: pq_assumption_source discharges the assumption of Model/KDSource.lean
    "mouette/utils/priority_queue.py::PriorityQueue.push": "translated",   # Generated/C20PQ.lean (translator of C20); Props/C11Q.lean: pq_assumption_source discharges the assumption of Model/KDSource.lean
}
for _f in ("unit_cube", "of_points", "of_mesh", "span", "center", "intersection", "__and__", "do_intersect", "union", "__or__",
           "pad", "contains_point", "project", "is_empty"):
    SOURCE_MAP["mouette/geometry/aabb.py::AABB." + _f] = "out-of-scope: not called by KDTree (covered by property C12)"
TRUSTED = [
    "Lean 4.33.0 kernel; axioms ⊆ {propext, Classical.choice, Quot.sound}",
    "hand-written model Mouette/Model/KDTree.lean + AABB.lean tied to mouette/spatial/kdtree.py, geometry/aabb.py by the correspondence of this run "
    "(leaf-partition invariants, sorted squared k-NN distances, radius sets; the shape of tree.nodes is compared with the flat model informationally only)",
    "two models: the recursive tree (theorems of Props/C11.lean) and the flat model Model/KDTreeFlat.lean = the code's own data structures (flat node list with ids, FIFO construction queue, explicit query stack); "
    "Props/C11F.lean proves that the flat model refines the recursive one (tree read back from the flat list = recursive tree; stack k-NN = recursive k-NN; FIFO radius traversal = recursive radius up to order)",
    "the pivot (`_find_pivot`, numpy.random.choice, numpy.median) is a parameter of the model: theorems hold for every pivot function",
    "floating point: inputs are small dyadic rationals, for which squared distances are exact in binary64 and sqrt preserves order and ties; rounding on other inputs is not modelled",
    "PriorityQueue/heapq abstracted to 'pop returns a candidate of maximum distance' (sorted list truncated to k)",
    "round 4: the BODIES of KDTree.__init__, _new_leaf, _split_points, Leaf.size, is_leaf, query, query_radius (vlib/gen/c11_source.py -> Generated/C11Src.lean) and of "
    "AABB.__init__/dim/mini/maxi/infinite/distance (vlib/gen/c12_source.py -> Generated/C12Box.lean) are re-extracted from the working tree on every run and PROVED equal to "
    "the flat model / the box algebra (Props/C11S.lean, Props/C11B.lean); trusted there: the two translators and the vocabulary of Model/KDSource.lean, Model/BoxSource.lean "
    "(numpy masks / argsort(kind='stable') / extract as list operations; deque as FIFO/LIFO list; distances compared on their squares; PriorityQueue.pop returns an entry "
    "of minimal priority; _find_pivot an arbitrary function; the ghost heap-path id that keys it)",
]
ASSUMPTIONS = ["agreement model/implementation is established on the cases explored in this run only",
               "k >= 1, max_leaf_size >= 1, radius >= 0, points form an (N,d) array with d >= 1"]
RULE = ("point sets of dimension 1..5 (uniform, integer lattice, clustered, collinear, duplicated, axis-degenerate, all identical, "
        "two-valued with majority maximum), n 0..60 (quick) / ..400 (thorough), leaf sizes 1..12, strategies balanced/fast/random with "
        "numpy.random.choice patched to recorded choices (seeded, always-max, always-min); construction under a split-count + wall-clock "
        "watchdog; the caller's points as float64 / int64 / float32 / nested lists / int lists / Fortran order / non-contiguous view / "
        "read-only array and the query point as ndarray / list / tuple / int array / Vec / float32 (same values); the queries of a case "
        "form a HISTORY on one tree (tree, caller array and query object snapshotted by value around every call; second pass in "
        "reverse order; pass after the caller overwrote its array); k = 0 accepted as empty answer or rejection; 3-6 queries per tree (on data points, near, far outside), k in 1..n+2 (biased to k close to n), radii 0 / exact rational "
        "point distances / dyadic; non-trivial = distinct case whose tree has >= 1 split and with a query returning >= 1 neighbour")

_WALL = 6.0


class _NonTermination(Exception):
    pass


def _fake_choice(case):
    import numpy as np
    mode = case["choice"]["mode"]; seed = case["choice"]["seed"]
    state = {"n": 0}

    def choice(a, size=None, replace=True, p=None):
        a = np.asarray(a)
        n = a.shape[0]
        state["n"] += 1
        scalar = size is None
        m = 1 if scalar else int(size)
        if mode == "argmax":
            order = list(np.argsort(a, kind="stable")[::-1])
        elif mode == "argmin":
            order = list(np.argsort(a, kind="stable"))
        else:
            rnd = random.Random(f"{seed}-{state['n']}")
            order = rnd.sample(range(n), n) if not replace else [rnd.randrange(n) for _ in range(max(m, 1))]
        if not replace and m > n:
            raise ValueError("Cannot take a larger sample than population when 'replace=False'")
        pos = [order[i % len(order)] for i in range(m)]
        out = a[pos]
        return out[0] if scalar else out
    return choice


_cache = {"key": None, "val": None}


POINT_REPS = ["float64", "int", "float32", "list", "intlist", "fortran", "view", "readonly"]
QUERY_REPS = ["ndarray", "list", "tuple", "int", "vec", "float32"]


def _integral(rows):
    return all(Fraction(c).denominator == 1 for r in rows for c in r)


def _f32_exact(rows):
    return all(Fraction(c).denominator in (1, 2, 4, 8) and abs(Fraction(c)) <= 64 for r in rows for c in r)


def _eff_rep(case):
    rep = case.get("rep", "float64")
    if len(case["pts"]) == 0: return "float64"
    if rep in ("int", "intlist") and not _integral(case["pts"]): return "float64"
    if rep == "float32" and not _f32_exact(case["pts"]): return "float64"
    return rep


def _points_obj(case):
    """the object the caller passes to KDTree(...), in the representation the case asks for (same VALUES in every
    representation; a representation that cannot hold the values exactly falls back to float64)"""
    import numpy as np
    n, d = len(case["pts"]), case["dim"]
    rep = case.get("rep", "float64")
    P = np.array([[float(Fraction(c)) for c in p] for p in case["pts"]], dtype=float).reshape((n, d))
    if n == 0: return P, "float64"
    if rep in ("int", "intlist") and not _integral(case["pts"]): rep = "float64"
    if rep == "float32" and not _f32_exact(case["pts"]): rep = "float64"
    if rep == "int": return P.astype(np.int64), rep
    if rep == "float32": return P.astype(np.float32), rep
    if rep == "list": return [[float(x) for x in r] for r in P], rep
    if rep == "intlist": return [[int(x) for x in r] for r in P], rep
    if rep == "fortran": return np.asfortranarray(P), rep
    if rep == "view":
        big = np.full((n, 2 * d), 12345.0); big[:, ::2] = P
        return big[:, ::2], rep
    if rep == "readonly":
        P.setflags(write=False); return P, rep
    return P, "float64"


def _query_obj(qu, dim):
    import numpy as np
    from mouette.geometry import Vec
    vals = [float(Fraction(c)) for c in qu["q"]]
    rep = qu.get("qrep", "ndarray")
    if rep == "int" and not _integral([qu["q"]]): rep = "ndarray"
    if rep == "float32" and not _f32_exact([qu["q"]]): rep = "ndarray"
    if rep == "list": return list(vals)
    if rep == "tuple": return tuple(vals)
    if rep == "int": return np.array([int(v) for v in vals], dtype=np.int64)
    if rep == "vec": return Vec(np.array(vals))
    if rep == "float32": return np.array(vals, dtype=np.float32)
    return np.array(vals)


def _snap(obj):
    """value snapshot of a caller object (ndarray / nested list / tuple)"""
    import numpy as np
    if isinstance(obj, np.ndarray):
        return ("nd", obj.shape, str(obj.dtype), np.ascontiguousarray(obj).tobytes())
    return ("py", repr(obj))


def _tree_snap(tree):
    """value snapshot of everything a query could change: the node list and the stored points"""
    import numpy as np
    from mouette.spatial import KDTree
    out = [_snap(np.asarray(tree.points))]
    for nd in tree.nodes:
        bb = (np.asarray(nd.bb.mini, dtype=float).tobytes(), np.asarray(nd.bb.maxi, dtype=float).tobytes())
        if isinstance(nd, KDTree.Leaf):
            out.append(("L", int(nd.id), np.asarray(nd.points).tobytes(), bb))
        else:
            out.append(("N", int(nd.id), int(nd.split_axis), float(nd.split_value), int(nd.left), int(nd.right), bb))
    return out


def _build(case):
    """Run KDTree(...) on the real code under the watchdog. Returns dict(status, tree, detail)."""
    key = json.dumps(case, sort_keys=True)
    if _cache["key"] == key:
        return _cache["val"]
    import numpy as np
    from mouette.spatial import KDTree
    n, d = len(case["pts"]), case["dim"]
    P, used_rep = _points_obj(case)
    p_before = _snap(P)
    bound = 64 * (n + 1) * d + 1000
    cnt = {"n": 0}
    orig_split = getattr(KDTree, "_split_points", None)
    orig_pivot = getattr(KDTree, "_find_pivot", None)
    orig_choice = np.random.choice
    pivots = []

    def rec_pivot(self, *a, **k):
        v = orig_pivot(self, *a, **k)
        pivots.append(v)
        return v

    def counted(self, *a, **k):
        cnt["n"] += 1
        if cnt["n"] > bound:
            raise _NonTermination(f"more than {bound} cell splits for {n} points")
        return orig_split(self, *a, **k)

    def on_alarm(*a):
        raise _NonTermination(f"construction still running after {_WALL}s ({cnt['n']} splits so far)")
    res = {"status": "ok", "tree": None, "detail": "", "P": P, "pivots": pivots, "rep": used_rep, "effects": []}
    old = signal.signal(signal.SIGALRM, on_alarm)
    try:
        np.random.choice = _fake_choice(case)
        if orig_split is not None:
            KDTree._split_points = counted
        if orig_pivot is not None:
            KDTree._find_pivot = rec_pivot
        signal.setitimer(signal.ITIMER_REAL, _WALL)
        try:
            res["tree"] = KDTree(P, case["leaf"], case["strategy"])
        finally:
            signal.setitimer(signal.ITIMER_REAL, 0)
    except _NonTermination as e:
        res["status"] = "nonterminating"; res["detail"] = str(e)
    except MemoryError as e:
        res["status"] = "nonterminating"; res["detail"] = "MemoryError"
    except Exception as e:  # noqa
        res["status"] = f"err:Other({type(e).__name__})"; res["detail"] = str(e)[:200]
    finally:
        np.random.choice = orig_choice
        if orig_split is not None:
            KDTree._split_points = orig_split
        if orig_pivot is not None:
            KDTree._find_pivot = orig_pivot
        signal.signal(signal.SIGALRM, old)
    if _snap(P) != p_before:
        res["effects"].append(("C11/effect/mutates/points/build", "KDTree(points) changed the caller's point object"))
    _cache["key"], _cache["val"] = key, res
    return res


def _leaves_and_nodes(tree):
    from mouette.spatial import KDTree
    leaves = [nd for nd in tree.nodes if isinstance(nd, KDTree.Leaf)]
    inner = [nd for nd in tree.nodes if isinstance(nd, KDTree.Node)]
    return leaves, inner


def _exact_bound(x):
    x = float(x)
    if x == float("inf"): return "+inf"
    if x == float("-inf"): return "-inf"
    return Fraction(x)


def _inside_closed(bb, p):
    lo = [_exact_bound(v) for v in bb.mini]; hi = [_exact_bound(v) for v in bb.maxi]
    if len(lo) != len(p) or len(hi) != len(p): return False
    for l, h, c in zip(lo, hi, p):
        if l == "+inf" or h == "-inf": return False
        if l != "-inf" and not (l <= c): return False
        if h != "+inf" and not (c <= h): return False
    return True


def _invariants(case, tree):
    """(partition ok, boxes ok, sizes ok) of the leaves of the implementation's tree"""
    n = len(case["pts"])
    pts = [[Fraction(c) for c in p] for p in case["pts"]]
    leaves, inner = _leaves_and_nodes(tree)
    stored = sorted(int(i) for lf in leaves for i in lf.points)
    part = stored == list(range(n))
    box = all(0 <= int(i) < n and _inside_closed(lf.bb, pts[int(i)]) for lf in leaves for i in lf.points)
    size = all(len(lf.points) <= case["leaf"] for lf in leaves)
    return part, box, size


def _box_witness(case, tree):
    """a stored point that lies outside the box of its leaf AND that the queries at that very point lose; '' if none"""
    import numpy as np
    pts = [[Fraction(c) for c in p] for p in case["pts"]]
    leaves, _ = _leaves_and_nodes(tree)
    tried = 0
    for lf in leaves:
        for i in lf.points:
            i = int(i)
            if 0 <= i < len(pts) and not _inside_closed(lf.bb, pts[i]):
                tried += 1
                if tried > 8: return ""
                q = np.array([float(c) for c in pts[i]])
                try:
                    rad = [int(j) for j in tree.query_radius(q, 0.0)]
                    nn = [int(j) for j in tree.query(q, 1)]
                except Exception as e:  # noqa
                    return f"point {i}: a query at that point raised {type(e).__name__}"
                if not any(pts[j] == pts[i] for j in rad if 0 <= j < len(pts)):
                    return f"point {i} is outside the box of its leaf and query_radius(points[{i}], 0) returns {rad[:6]}"
                if not (nn and 0 <= nn[0] < len(pts) and pts[nn[0]] == pts[i]):
                    return f"point {i} is outside the box of its leaf and query(points[{i}], 1) returns {nn[:3]}"
    return ""


def _one_query(tree, qu, dim, effects, tag):
    """one k-NN + one radius query through the monitor: the query point object and the tree must be left as found"""
    qobj = _query_obj(qu, dim)
    q_before = _snap(qobj)
    t_before = _tree_snap(tree)
    try:
        nn = [int(i) for i in tree.query(qobj, qu["k"])]
    except Exception as e:  # noqa
        nn = f"err:Other({type(e).__name__})"
    if qu["k"] == 0 and (isinstance(nn, str) or nn == []):
        nn = []       # k = 0 is outside the statement (k >= 1): an empty answer and a rejection are both accepted
    if _tree_snap(tree) != t_before:
        effects.append(("C11/history/query-changes-tree/query", f"query() changed the tree ({tag})"))
        t_before = _tree_snap(tree)
    try:
        rad = [int(i) for i in tree.query_radius(qobj, float(Fraction(qu["r"])))]
    except Exception as e:  # noqa
        rad = f"err:Other({type(e).__name__})"
    if _tree_snap(tree) != t_before:
        effects.append(("C11/history/query-changes-tree/query_radius", f"query_radius() changed the tree ({tag})"))
    if _snap(qobj) != q_before:
        effects.append(("C11/effect/mutates/query-point", f"a query changed the caller's query point object ({tag})"))
    return nn, rad


def _queries(case, b):
    """Runs every query in sequence on the ONE tree (a history), then - according to case['hist'] - once more in reverse
    order, and once more after the caller changed the point object given to the constructor.  Returns the first-pass
    answers [(knn | err, radius | err)]; differences between passes and side effects go to b['effects']."""
    if "answers" in b:
        return b["answers"]
    import numpy as np
    tree, dim, eff = b["tree"], case["dim"], b["effects"]
    p_snap = _snap(b["P"])
    first = [_one_query(tree, qu, dim, eff, f"query {j}") for j, qu in enumerate(case["queries"])]
    hist = case.get("hist", "")
    if "repeat" in hist:
        again = [_one_query(tree, qu, dim, eff, f"query {j}, second pass") for j, qu in reversed(list(enumerate(case["queries"])))][::-1]
        for j, (a, c) in enumerate(zip(first, again)):
            if a[0] != c[0] or (isinstance(a[1], list) and isinstance(c[1], list) and sorted(a[1]) != sorted(c[1])) or (isinstance(a[1], str) != isinstance(c[1], str)):
                eff.append(("C11/history/repeat-differs", f"query {j} answers differently the second time on the same tree: {str(a)[:120]} then {str(c)[:120]}"))
                break
    if _snap(b["P"]) != p_snap:
        eff.append(("C11/effect/mutates/points/query", "a query changed the caller's point object"))
    if "mutate" in hist and len(case["pts"]) > 0 and b["rep"] != "readonly":
        P = b["P"]
        # the caller reuses / overwrites its array after the build
        if isinstance(P, np.ndarray):
            P[...] = P[::-1].copy() + 1000
        else:
            for r in P:
                for a in range(len(r)): r[a] = r[a] + 1000
        after = [_one_query(tree, qu, dim, eff, f"query {j}, after the caller changed its array") for j, qu in enumerate(case["queries"])]
        for j, (a, c) in enumerate(zip(first, after)):
            if a[0] != c[0] or (isinstance(a[1], list) and isinstance(c[1], list) and sorted(a[1]) != sorted(c[1])) or (isinstance(a[1], str) != isinstance(c[1], str)):
                eff.append(("C11/history/caller-array-change-alters-answers",
                            f"query {j} answers differently after the caller modified the array it had passed to KDTree(): {str(a)[:120]} then {str(c)[:120]}"))
                break
    b["answers"] = first
    return first


def impl_observe(case):
    b = _build(case)
    if b["status"] != "ok":
        return b["status"]
    part, box, size = _invariants(case, b["tree"])
    recs = [f"ok part={int(part)} box={int(box)} size={int(size)}"]
    for qu, (nn, rad) in zip(case["queries"], _queries(case, b)):
        if isinstance(nn, str):
            a = nn
        else:
            ds = [G.sq_dist(case["pts"][i], qu["q"]) if 0 <= i < len(case["pts"]) else Fraction(-1) for i in nn]
            a = " ".join([str(len(ds))] + [G.fs(x) for x in ds])
        if isinstance(rad, str):
            r = rad
        else:
            r = " ".join([str(len(rad))] + [str(i) for i in sorted(rad)])
        recs.append(f"{a} ; {r}")
    return " | ".join(recs) + " || " + _shape(b["tree"])


def _shape(tree):
    """the implementation's tree.nodes in the format of the model's flat node list (informational)"""
    from mouette.spatial import KDTree
    out = []
    for nd in tree.nodes:
        if isinstance(nd, KDTree.Leaf):
            pts = sorted(int(i) for i in nd.points)
            out.append(" ".join(["L", str(len(pts))] + [str(i) for i in pts]))
        else:
            out.append(f"N {int(nd.split_axis)} {G.fs(Fraction(float(nd.split_value)))} {int(nd.left)} {int(nd.right)}")
    return ",".join(out)


SHAPE = {"same": 0, "differs": 0}


def _report_shape():
    if SHAPE["same"] + SHAPE["differs"]:
        print(f"C11 shape of tree.nodes vs flat model (informational): same={SHAPE['same']} differs={SHAPE['differs']}")
        try:
            import json as _j, os as _o
            from ..leanio import ROOT as _R
            _o.makedirs(_o.path.join(_R, "evidence_extra"), exist_ok=True)
            _j.dump(SHAPE, open(_o.path.join(_R, "evidence_extra", "C11_shape.json"), "w"))
        except Exception:  # noqa
            pass


import atexit
atexit.register(_report_shape)


def model_request(case):
    b = _build(case)
    pivs = []
    if b["status"] == "ok":
        leaves, inner = _leaves_and_nodes(b["tree"])
        path = {0: 1}
        inner = sorted(inner, key=lambda x: x.id)
        # the k-th call of _find_pivot belongs to the k-th internal node in id (= dequeue) order; when the private
        # method is not there any more, fall back to the split values stored in the nodes
        rec = b.get("pivots") or []
        use_rec = len(rec) == len(inner)
        for k, nd in enumerate(inner):
            if nd.id not in path:
                continue
            path[nd.left] = 2 * path[nd.id]; path[nd.right] = 2 * path[nd.id] + 1
            pivs.append((path[nd.id], Fraction(float(rec[k] if use_rec else nd.split_value))))
    toks = ["kd", str(case["dim"]), str(case["leaf"]), str(len(case["pts"]))]
    for p in case["pts"]:
        toks += list(p)
    toks.append(str(len(pivs)))
    for pa, v in pivs:
        toks += [str(pa), G.fs(v)]
    toks.append(str(len(case["queries"])))
    for qu in case["queries"]:
        toks += list(qu["q"]) + [str(qu["k"]), qu["r"]]
    return " ".join(toks)


def compare(case, model, impl):
    mp, ip = model.split(" || "), impl.split(" || ")
    if len(mp) == 3:
        if mp[2] != "flat=1":
            return "model-internal: the flat BFS/stack model does not agree with the recursive model on this case (" + mp[2] + ")"
        if len(ip) == 2:
            SHAPE["same" if mp[1] == ip[1] else "differs"] += 1
    model, impl = mp[0], ip[0]
    if model == impl:
        return None
    m, i = model.split(" | "), impl.split(" | ")
    if m[0] != i[0]:
        return f"construction: model '{m[0]}' vs implementation '{i[0]}'"
    for j, (a, b) in enumerate(zip(m[1:], i[1:])):
        if a != b:
            ka, kb = a.split(" ; "), b.split(" ; ")
            which = "k-NN squared distances" if ka[0] != kb[0] else "radius answer"
            return f"query {j} ({which}): model '{a[:120]}' vs implementation '{b[:120]}'"
    return "replies differ in length"


def _degeneracy(case):
    pts = [tuple(p) for p in case["pts"]]
    most = max((pts.count(p) for p in set(pts)), default=0)
    return "identical-points" if most > case["leaf"] else "degenerate-split"


def oracle(case):
    """The property stated directly on the implementation (no Lean model involved)."""
    out = []
    b = _build(case)
    n = len(case["pts"])
    if b["status"] == "nonterminating":
        out.append({"key": f"C11/build/nontermination/{_degeneracy(case)}",
                    "what": "KDTree construction does not terminate (watchdog: " + b["detail"] + ")",
                    "detail": f"n={n} dim={case['dim']} leaf={case['leaf']} strategy={case['strategy']} choice={case['choice']['mode']}"})
        return out
    if b["status"] != "ok":
        out.append({"key": f"C11/build/raises/{b['status']}", "what": "KDTree construction raised " + b["status"], "detail": b["detail"]})
        return out
    part, box, size = _invariants(case, b["tree"])
    if not part:
        out.append({"key": "C11/leaves/partition", "what": "the leaves do not store every input index exactly once", "detail": ""})
    if not box:
        # Round 4, soundness: the statement speaks of the ANSWERS, not of the stored boxes. A point outside the box of its leaf is
        # reported only when a query witnesses it: the radius-0 query / the 1-NN query AT that point does not return a point at distance 0.
        w = _box_witness(case, b["tree"])
        if w:
            out.append({"key": "C11/leaves/box", "what": "a stored point lies outside the bounding box of its leaf", "detail": w})
    # (a leaf larger than max_leaf_size is not a clause of the statement: it is still compared with the model - `size=` of the
    # observation - but it is no longer a finding of its own)
    answers = _queries(case, b)
    seen_eff = set()
    for key, detail in b["effects"]:
        if key not in seen_eff:
            seen_eff.add(key)
            out.append({"key": key, "what": detail.split(" (")[0], "detail": detail + f" [points as {b['rep']}]"})
    for j, (qu, (nn, rad)) in enumerate(zip(case["queries"], answers)):
        all_d = [G.sq_dist(p, qu["q"]) for p in case["pts"]]
        k = qu["k"]
        if isinstance(nn, str):
            out.append({"key": f"C11/knn/raises/{nn}", "what": "query raised " + nn, "detail": f"query {j} (points as {b['rep']}, query point as {qu.get('qrep', 'ndarray')})"})
        else:
            if any(not (0 <= i < n) for i in nn) or len(set(nn)) != len(nn):
                out.append({"key": "C11/knn/indices", "what": "k-NN answer holds invalid or repeated indices", "detail": f"query {j}: {nn}"})
            else:
                ds = [all_d[i] for i in nn]
                if len(nn) != min(k, n):
                    out.append({"key": "C11/knn/count", "what": f"k-NN answer does not hold min(k,n) indices",
                                "detail": f"query {j}: k={k} n={n} got {len(nn)}"})
                if any(ds[i] > ds[i + 1] for i in range(len(ds) - 1)):
                    out.append({"key": "C11/knn/order", "what": "k-NN answer is not in non-decreasing distance order", "detail": f"query {j}"})
                if sorted(ds) != sorted(all_d)[:len(ds)]:
                    out.append({"key": "C11/knn/not-nearest", "what": "k-NN answer distances are not the smallest distances to the query point",
                                "detail": f"query {j}: k={k} n={n} got {[G.fs(x) for x in sorted(ds)][:8]} want {[G.fs(x) for x in sorted(all_d)[:len(ds)]][:8]}"})
        if isinstance(rad, str):
            out.append({"key": f"C11/radius/raises/{rad}", "what": "query_radius raised " + rad, "detail": f"query {j} (points as {b['rep']}, query point as {qu.get('qrep', 'ndarray')})"})
        else:
            r2 = Fraction(qu["r"]) ** 2
            want = [i for i in range(n) if all_d[i] <= r2]
            if len(set(rad)) != len(rad):
                out.append({"key": "C11/radius/duplicates", "what": "radius answer repeats an index", "detail": f"query {j}"})
            if sorted(set(rad)) != want:
                miss = sorted(set(want) - set(rad)); extra = sorted(set(rad) - set(want))
                out.append({"key": "C11/radius/wrong-set/" + ("missing" if miss else "extra"),
                            "what": "radius answer is not the set of points within the radius",
                            "detail": f"query {j}: r={qu['r']} missing {miss[:6]} extra {extra[:6]}"})
    return out


def nontrivial(case, obs):
    if not obs.startswith("ok"):
        return False
    recs = obs.split(" || ")[0].split(" | ")[1:]
    return len(case["pts"]) > case["leaf"] and any(not r.startswith("0 ;") and not r.startswith("err") for r in recs)


def classify(case, obs):
    n = len(case["pts"])
    ks = [f"dim:{case['dim']}", f"strategy:{case['strategy']}", f"choice:{case['choice']['mode']}", f"kind:{case['kind']}",
          "n:" + ("0" if n == 0 else "1-10" if n <= 10 else "11-60" if n <= 60 else "61-150" if n <= 150 else ">150"),
          "leaf:" + ("1" if case["leaf"] == 1 else "2-4" if case["leaf"] <= 4 else ">4"),
          "build:" + obs.split(" ")[0], "splits:" + ("yes" if n > case["leaf"] else "no"),
          "points-as:" + _eff_rep(case), "history:" + (case.get("hist") or "single-pass"),
          "queries-on-one-tree:" + str(len(case["queries"]))]
    for qu in case["queries"]:
        k = qu["k"]
        ks.append("query-point-as:" + qu.get("qrep", "ndarray"))
        ks.append("k:" + ("0" if k == 0 else "1" if k == 1 else ">n" if k > n else "=n" if k == n else "n-3..n-1" if k >= n - 3 else "<n-3"))
        r = Fraction(qu["r"])
        tie = any(G.sq_dist(p, qu["q"]) == r * r for p in case["pts"])
        ks.append("r:" + ("0" if r == 0 else "tie" if tie else "generic"))
        ks.append("q:" + ("on-point" if list(qu["q"]) in [list(p) for p in case["pts"]] else "off-point"))
    return ks


def describe(case):
    d = dict(case)
    if len(d["pts"]) > 12:
        d = dict(d, pts=d["pts"][:12] + [f"... {len(case['pts'])} points"])
    return d


def _mk_case(rng, kind, n, dim, leaf, strategy, mode, nq):
    pts = G.point_set(rng, kind, n, dim)
    qs = []
    for _ in range(nq):
        q = G.query_point(rng, pts, dim)
        r = rng.random()
        if r < 0.45: k = max(1, n - rng.randint(0, 3))
        elif r < 0.6: k = n + rng.randint(1, 2)
        elif r < 0.7: k = 1
        else: k = rng.randint(1, max(1, n))
        if rng.random() < 0.03: k = 0
        qs.append({"q": q, "k": k, "r": G.radius_for(rng, pts, q)})
    case = {"kind": kind, "dim": dim, "leaf": leaf, "strategy": strategy,
            "choice": {"mode": mode, "seed": rng.randint(0, 10 ** 6)}, "pts": pts, "queries": qs}
    # representation of the inputs (same values) and history on the one tree
    r = rng.random()
    if r < 0.45:
        if rng.random() < 0.5 and not _integral(pts) and len(pts) <= 80:
            # make the values integral so that the integer representations apply (keeps duplicates / degeneracies)
            case["pts"] = [[G.fs(round(Fraction(c))) for c in p] for p in pts]
            case["queries"] = [dict(qu, q=[G.fs(round(Fraction(c))) for c in qu["q"]] if rng.random() < 0.7 else qu["q"],
                                    r=qu["r"]) for qu in qs]
        case["rep"] = rng.choice(POINT_REPS[1:])
    if rng.random() < 0.5:
        case["queries"] = [dict(qu, qrep=rng.choice(QUERY_REPS)) for qu in case["queries"]]
    h = rng.random()
    if h < 0.25: case["hist"] = "repeat"
    elif h < 0.4: case["hist"] = "mutate"
    elif h < 0.5: case["hist"] = "repeat+mutate"
    return case


def cases(rng, tier):
    ncase, nmax = (1200, 70) if tier == "quick" else (7000, 400)
    for i in range(ncase):
        kind = rng.choice(G.KINDS + ["uniform", "lattice", "clustered"])
        dim = rng.choice([1, 1, 2, 2, 3, 3, 4, 5])
        r = rng.random()
        n = rng.randint(0, 3) if r < 0.05 else rng.randint(2, 25) if r < 0.6 else rng.randint(20, nmax)
        if kind in ("identical", "two-values") and tier == "quick":
            n = min(n, 40)
        leaf = rng.choice([1, 1, 2, 3, 5, 5, 10, 12])
        strategy = rng.choice(["balanced", "fast", "random"])
        mode = rng.choice(["seeded", "seeded", "argmax", "argmin"]) if strategy != "balanced" else "seeded"
        yield _mk_case(rng, kind, n, dim, leaf, strategy, mode, rng.randint(3, 6))
    if tier == "thorough":
        # sub-sample branch of 'fast' (more than 50 points in a cell) and larger trees
        for i in range(60):
            yield _mk_case(rng, rng.choice(G.KINDS), rng.randint(60, 400), rng.choice([1, 2, 3]), rng.choice([1, 3, 10]),
                           "fast", rng.choice(["seeded", "argmax", "argmin"]), 4)
    else:
        for i in range(8):
            yield _mk_case(rng, rng.choice(["uniform", "lattice", "duplicated"]), rng.randint(60, 120), rng.choice([1, 2, 3]),
                           rng.choice([3, 10]), "fast", rng.choice(["seeded", "argmax", "argmin"]), 3)


def search_on_break(rng, broken, mismatches):
    for i in range(150):
        yield _mk_case(rng, rng.choice(G.KINDS), rng.randint(2, 40), rng.choice([1, 2, 3]), rng.choice([1, 2, 5]),
                       rng.choice(["balanced", "fast", "random"]), rng.choice(["seeded", "argmax", "argmin"]), 5)


def shrink(case, still):
    cur = case
    # fewer queries
    for j in range(len(cur["queries"]) - 1, -1, -1):
        if len(cur["queries"]) <= 1: break
        t = dict(cur, queries=cur["queries"][:j] + cur["queries"][j + 1:])
        if still(t): cur = t
    # fewer points (chunks, then single)
    step = max(1, len(cur["pts"]) // 2)
    while step >= 1:
        i = 0
        while i < len(cur["pts"]) and len(cur["pts"]) > 1:
            t = dict(cur, pts=cur["pts"][:i] + cur["pts"][i + step:])
            qs = [dict(q, k=min(q["k"], len(t["pts"]) + 2)) for q in t["queries"]]
            t2 = dict(t, queries=qs)
            if still(t2): cur = t2
            elif still(t): cur = t
            else: i += step
        step //= 2
    # fewer dimensions
    while cur["dim"] > 1:
        t = dict(cur, dim=cur["dim"] - 1, pts=[p[:-1] for p in cur["pts"]],
                 queries=[dict(q, q=q["q"][:-1]) for q in cur["queries"]])
        if still(t): cur = t
        else: break
    for strat in ("balanced",):
        t = dict(cur, strategy=strat, choice={"mode": "seeded", "seed": 0})
        if cur["strategy"] != strat and still(t): cur = t
    return cur


MANIFEST = {
    "level_text": ("Proof. Lean 4 theorems about an executable model of KDTree (recursive cells, split on '<= pivot' with the repaired "
                   "rank-split fallback, boxes as coded over rationals with ±inf, stack-order k-NN traversal with the bounded candidate "
                   "list and the repaired pruning rule, radius traversal), for EVERY point function, dimension, leaf size >= 1 and EVERY "
                   "pivot function (= every strategy and random choice): construction terminates within fuel n (build_terminates), the "
                   "leaves are a permutation of the input indices, each of size <= leaf size, and every index lies in the closed box of "
                   "every cell above it (build_partition, build_boxes); query_radius returns exactly the indices within the radius "
                   "(radius_exact); query returns min(k,n) distinct valid indices in non-decreasing distance such that every index not "
                   "returned is at least as far as every index returned (knn_exact), equivalently the returned distances are the first k entries of the sorted list of all distances (knn_distances_k_smallest). The rules of the pinned tree are refuted: "
                   "construction diverges for every fuel on identical points for every pivot that returns an element "
                   "(buildOriginal_diverges), and the original pruning rule loses neighbours (knnOriginal_wrong). The model is tied to "
                   "the Python class by a correspondence on generated cases (invariants, sorted squared distances, radius sets) and a "
                   "direct brute-force oracle on exact fractions, with construction under a watchdog. A second, FLAT model mirrors the code's own data "
                   "structures (self.nodes with ids and children ids, FIFO construction queue, explicit query stack, FIFO radius queue); it is proved to "
                   "refine the recursive model (buildBFSRoot_refines: the tree read back from the flat list IS the recursive tree; buildBFSRoot_leaves; "
                   "knnFlat_refines; radiusFlat_refines), so termination, partition, boxes, k-NN and radius exactness hold for the code's shape "
                   "(buildBFS_partition, knnFlat_exact, radiusFlat_exact); the flat node list is compared with tree.nodes informationally."),
    "level_round4": ("Round 4: the bodies of KDTree.__init__, _new_leaf, _split_points, Leaf.size, is_leaf, query, query_radius and of the AABB methods they use are "
                     "translated from the working tree on every run (Generated/C11Src.lean, C12Box.lean) and PROVED equal to the flat model (init_bridge, query_bridge, "
                     "queryRadius_bridge, splitPoints_bridge, kd_box_*); termination, partition, boxes, k-NN and radius exactness are restated on the extracted "
                     "definitions (init_source_correct, query_source_exact, query_radius_source_exact). The split rule of the model now follows np.extract "
                     "(order of the cell kept): the flat model's node list equals tree.nodes on every generated case."),
    "level_note": ("Trusted: Lean kernel + propext/Classical.choice/Quot.sound; the hand-written models (recursive + flat; checked against the code on the cases of each run only); floats not modelled (inputs are dyadic "
                   "rationals for which the code's comparisons are exact); heapq abstracted."),
    "technique": "Lean 4 invariant proofs by structural induction over an executable k-d tree model; differential correspondence + brute-force oracle",
}

# the round-4 paragraph belongs to the level text (tools/mkmanifest.py reads level_text / level_note / technique)
MANIFEST["level_text"] = MANIFEST["level_text"] + " " + MANIFEST.pop("level_round4")
