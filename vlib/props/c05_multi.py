"""C05, round 3 — SEVERAL attributes on ONE container (histories on one object).

case = {"t": "multi", "n0": n, "names": K, "ops": [...]}; attribute `a` (0 <= a < K) is called "a<a>", stored sparse when
`a` is even and dense when `a` is odd, so that both storages live on the same container at the same time.
ops:  ["on", a, <attribute op>]   with the single-attribute ops of c05.py: ["create", ty, k, dflt] ["delete"] ["set", i, val]
                                  ["get", i] ["mut", i, c, tok] ["clear"] ["arr"]
      ["append"] ["extl", n] ["extc", m] ["exts"] ["cclear"]        container operations (reach EVERY attribute)
Observed after every op: the op's answer, the container size and the length of every attribute.
Oracle: every attribute is its own total map; an operation on attribute x changes NO answer of attribute y; growth keeps
every attribute aligned; delete / re-create under the same name starts from the default again.
"""
from fractions import Fraction  # noqa

from . import c05 as B


def dense_of(a):
    return a % 2 == 1


class _MRun:
    def __init__(self, n0, K):
        from mouette.mesh.data_container import DataContainer
        self.DC = DataContainer
        self.c = DataContainer(id="t")
        for j in range(n0): self.c.append(j)
        self.K = K
        self.meta = [None] * K      # (ty, k) of the live attribute

    def name(self, a):
        return f"a{a}"

    def do(self, op):
        c = self.c
        kind = op[0]
        try:
            if kind == "append": c.append(len(c)); return "-"
            if kind == "extl":
                c += ([7] * op[1] if len(op) > 2 and op[2] == "dups" else [len(c) + j for j in range(op[1])]); return "-"
            if kind == "extc":
                o = self.DC(id="o")
                for j in range(op[1]): o.append(100 + j)
                c += o; return "-"
            if kind == "exts": c += c; return "-"
            if kind == "cclear":
                c.clear(); return "-"
            a, sub = op[1], op[2]
            k2 = sub[0]
            if k2 == "create":
                ty, k, d = sub[1], sub[2], sub[3]
                c.create_attribute(self.name(a), B.PYT[ty], k, dense=dense_of(a), default_value=None if d is None else B.tok_value(d))
                self.meta[a] = (ty, k); return "-"
            if k2 == "delete":
                c.delete_attribute(self.name(a)); self.meta[a] = None; return "-"
            at = c.get_attribute(self.name(a))
            ty, k = self.meta[a]
            if k2 == "set": at[B.mk_index(sub)] = B.mk_value(sub[2]); return "-"
            if k2 == "get": return B.canon_read(ty, at[B.mk_index(sub)])
            if k2 == "mut":
                v = at[sub[1]]
                if k > 1:
                    try: v[sub[2]] = B.tok_value(sub[3])
                    except (OverflowError, TypeError, ValueError): pass
                return "-"
            if k2 == "clear": at.clear(); return "-"
            if k2 == "arr":
                rows = B.canon_rows(ty, k, at.as_array(len(c)))
                return "A " + str(len(rows)) + " " + str(k) + "".join(" " + t for r in rows for t in r)
        except Exception as e:  # noqa
            return B.err_token(e)
        raise ValueError(op)

    def summary(self):
        c = self.c
        lens = [str(len(c.get_attribute(self.name(a)))) if c.has_attribute(self.name(a)) else "-" for a in range(self.K)]
        return f"{len(c)};{','.join(lens)}"


def _sub_case(case, a):
    """the script as attribute `a` sees it (its own operations + every container operation)"""
    ops = []
    for op in case["ops"]:
        if op[0] == "on":
            if op[1] == a: ops.append(op[2])
        else: ops.append(op)
    return {"n0": case["n0"], "ops": ops}


def _trace(case):
    r = _MRun(case["n0"], case["names"])
    recs = []
    for op in case["ops"]:
        o = r.do(op)
        recs.append(f"{o};{r.summary()}")
    return recs


def _mask(case, recs):
    """mask, per attribute, the entry updated in place through a read (as in the single-attribute harness)"""
    K = case["names"]
    taint = [set() for _ in range(K)]
    ks = [1] * K
    out = []
    for op, rec in zip(case["ops"], recs):
        obs, size, lens = rec.rsplit(";", 2)
        if op[0] == "on":
            a, sub = op[1], op[2]
            k2 = sub[0]
            if k2 == "get" and sub[1] in taint[a] and not obs.startswith("err"): obs = "?"
            if k2 == "arr" and obs.startswith("A ") and taint[a]:
                t = obs.split(" "); n, k = int(t[1]), int(t[2]); body = t[3:]
                for i in taint[a]:
                    j = i if i >= 0 else i + n
                    if 0 <= j < n: body[j * k:(j + 1) * k] = ["?"] * k
                obs = " ".join(t[:3] + body)
            if k2 == "create" and obs == "-": ks[a] = sub[2]; taint[a].clear()
            if k2 == "mut" and obs == "-" and ks[a] > 1: taint[a].add(sub[1])
            if k2 == "set" and obs == "-": taint[a].discard(sub[1])
            if k2 in ("clear", "delete") and obs == "-": taint[a].clear()
        elif op[0] == "cclear":
            for t_ in taint: t_.clear()
        out.append(f"{obs};{size};{lens}")
    return out


def impl_observe(case):
    return " | ".join(_mask(case, _trace(case)))


def model_request(case):
    toks = ["multi", str(case["n0"]), str(case["names"]), str(len(case["ops"]))]
    for op in case["ops"]:
        if op[0] == "on":
            sub = op[2]
            if sub[0] == "set" and sub[2][0] == "S" and sub[2][1].startswith("s:"):
                pass
            one = B.model_request({"n0": 0, "ops": [sub]})
            if one is None: return None
            toks += ["on", str(op[1])] + one.split(" ")[2:]
        else:
            one = B.model_request({"n0": 0, "ops": [op]})
            toks += ["cont"] + one.split(" ")[2:]
    # a bare str offered to a vector attribute is outside the modelled region (see c05.py)
    for a in range(case["names"]):
        if B._str_scalar_on_vector(_sub_case(case, a)): return None
    return " ".join(toks)


def compare(case, model, impl):
    if " | " not in model and ";" not in model:
        return f"model rejected the request: {model[:80]}"
    m = " | ".join(_mask(case, model.split(" | ")))
    if m == impl: return None
    a, b = m.split(" "), impl.split(" ")
    i = next((j for j, (x, y) in enumerate(zip(a, b)) if x != y), min(len(a), len(b)))
    return f"multi-attribute trace differs at token {i}: model …{' '.join(a[max(0, i - 6):i + 4])}… impl …{' '.join(b[max(0, i - 6):i + 4])}…"


# ------------------------------------------------------------------------------------------------
def oracle(case):
    """direct statement: K independent total maps on one container"""
    out = []
    K = case["names"]
    r = _MRun(case["n0"], K)
    size = case["n0"]
    st = [None] * K       # per name: dict(ty, k, dflt, ref, taint) or None

    def F(cat, what, detail):
        out.append({"key": f"C05/multi/{cat}", "what": what, "detail": detail})

    def check_all(step, op, touched):
        c = r.c
        if len(c) != size:
            F("container-size", "container size wrong", f"step {step}: {len(c)} vs {size}"); return False
        for a in range(K):
            nm = r.name(a)
            if st[a] is None:
                if c.has_attribute(nm): F("attribute-not-deleted", f"attribute {nm} still answers after delete", f"step {step} {op}"); return False
                continue
            if not c.has_attribute(nm): F("attribute-lost", f"attribute {nm} disappeared", f"step {step} {op}"); return False
            at = c.get_attribute(nm)
            S = st[a]
            who = "same" if a == touched else ("growth" if touched is None else "other")
            if dense_of(a) and len(at) != size:
                F(f"{who}/misaligned", f"dense attribute {nm} has {len(at)} entries for a container of {size}", f"step {step} {op}"); return False
            try:
                rows = B.canon_rows(S["ty"], S["k"], at.as_array(size))
            except Exception as e:  # noqa
                F(f"{who}/as_array-raises({type(e).__name__})", f"as_array of {nm} raised", f"step {step} {op}: {e}"); return False
            if len(rows) != size:
                F(f"{who}/as_array-rows", f"as_array of {nm} has {len(rows)} rows for {size} elements", f"step {step} {op}"); return False
            for i in range(size):
                if i in S["taint"]: continue
                want = S["ref"].get(i, S["dflt"])
                try:
                    got = B.canon_read(S["ty"], at[i])
                except Exception as e:  # noqa
                    F(f"{who}/read-raises({type(e).__name__})", f"{nm}[{i}] raised", f"step {step} {op}: {e}"); return False
                w = ("S " + want[0]) if S["k"] == 1 else "V " + " ".join([str(S["k"])] + want)
                if got != w or rows[i] != want:
                    cat = {"same": "total-map/entry-reads-wrong", "growth": "growth/entry-reads-wrong",
                           "other": "other-attribute-changed"}[who]
                    F(cat, f"after an operation on {'the container' if touched is None else 'a' + str(touched)}, {nm}[{i}] does not read its last write / default",
                      f"step {step} {op}: {nm}[{i}] reads {got} (export row {rows[i]}), expected {w}"); return False
        return True

    for step, op in enumerate(case["ops"]):
        kind = op[0]
        if kind != "on":
            obs = r.do(op)
            if obs.startswith("err"):
                F(f"growth/{kind}/raises({obs})", f"`{kind}` raised with {sum(s is not None for s in st)} attributes alive", f"step {step}"); return out
            if kind == "cclear":
                size = 0
                for a_ in range(K):        # dropping the attributes or keeping them (emptied, aligned) are both accepted
                    if st[a_] is not None and r.c.has_attribute(r.name(a_)): st[a_]["ref"], st[a_]["taint"] = {}, set()
                    else: st[a_] = None
            else:
                size += {"append": 1, "extl": op[1] if kind == "extl" else 0, "extc": op[1] if kind == "extc" else 0, "exts": size}[kind]
            if not check_all(step, op, None): return out
            continue
        a, sub = op[1], op[2]
        k2 = sub[0]
        S = st[a]
        idx = sub[1] if k2 in ("set", "get", "mut") else None
        if idx is not None and S is not None and not (0 <= idx < size):
            if not dense_of(a): continue          # sparse storage outside the container: not constrained
            obs = r.do(op)
            if obs != "err:OutOfBounds":
                F("oob", f"dense attribute: index {idx} outside a container of {size} not reported as out of bounds", f"step {step} {op}: {obs}"); return out
            if not check_all(step, op, a): return out
            continue
        obs = r.do(op)
        failed = obs.startswith("err")
        if k2 == "create":
            d = sub[3]
            if d is not None and B.tok_type(d) != sub[1]:
                if not failed: return out
            else:
                if failed: F("create/raises", f"create raised {obs}", f"step {step} {op}"); return out
                ty, k = sub[1], sub[2]
                dfl = [B.tok_canon(ty, d if d is not None else {"bool": "b:0", "int": "i:0", "float": "f:0", "complex": "c:0,0", "str": "s:"}[ty])] * k
                st[a] = {"ty": ty, "k": k, "dflt": dfl, "ref": {}, "taint": set()}
        elif k2 == "delete":
            st[a] = None
        elif S is None:
            if not failed: F("absent-attribute-answers", f"`{k2}` on a deleted / never created attribute answered", f"step {step} {op}"); return out
        elif k2 == "set":
            acc, why = B._expect_accept(S["ty"], S["k"], sub[2])
            if acc and failed: F("set/rejects", f"acceptable value rejected: {obs}", f"step {step} {op}"); return out
            if not acc and not failed: F(f"set/accepts/{why}", "unacceptable value accepted", f"step {step} {op}"); return out
            if acc:
                S["ref"][idx] = [B.tok_canon(S["ty"], sub[2][1])] if sub[2][0] == "S" else [B.tok_canon(S["ty"], t) for t in sub[2][1]]
                S["taint"].discard(idx)
        elif k2 == "mut":
            if S["k"] > 1: S["taint"].add(idx)
        elif k2 == "clear":
            if failed: F("clear/raises", f"clear raised {obs}", f"step {step}"); return out
            S["ref"], S["taint"] = {}, set()
        elif k2 in ("get", "arr") and failed:
            F(f"{k2}/raises", f"`{k2}` raised {obs}", f"step {step} {op}"); return out
        if not check_all(step, op, a): return out
    return out


# ------------------------------------------------------------------------------------------------
def script(rng, maxlen):
    K = rng.choice([2, 2, 3])
    n0 = rng.choice([0, 1, 2, 3, 4])
    size = n0
    meta = [None] * K
    ops = []

    def create(a):
        ty, k = rng.choice(B.TYPES), rng.choice([1, 1, 2, 3])
        d = B._scalar(rng, ty) if rng.random() < 0.35 else None
        ops.append(["on", a, ["create", ty, k, d]]); meta[a] = (ty, k)
    for a in range(K):
        if rng.random() < 0.8: create(a)
    L = rng.randint(4, maxlen)
    while len(ops) < L:
        r = rng.random()
        a = rng.randrange(K)
        if meta[a] is None and rng.random() < 0.7:
            create(a); continue
        ty, k = meta[a] if meta[a] else ("float", 1)
        if r < 0.32:
            v = B._value(rng, ty, k)
            if v[0] == "S" and v[1].startswith("s:") and k > 1: v = ["V", [B._scalar(rng, ty) for _ in range(k)]]
            ops.append(["on", a, ["set", B._index(rng, size), v]])
        elif r < 0.47: ops.append(["on", a, ["get", B._index(rng, size)]])
        elif r < 0.55: ops.append(["on", a, ["mut", B._index(rng, size), rng.randrange(max(k, 1)), B._scalar(rng, ty, numpy_ok=False)]])
        elif r < 0.63: ops.append(["append"]); size += 1
        elif r < 0.68:
            n = rng.randint(0, 3); ops.append(["extl", n] + (["dups"] if rng.random() < 0.4 else [])); size += n
        elif r < 0.72:
            n = rng.randint(0, 3); ops.append(["extc", n]); size += n
        elif r < 0.75 and size <= 8: ops.append(["exts"]); size *= 2
        elif r < 0.82: ops.append(["on", a, ["clear"]])
        elif r < 0.90: ops.append(["on", a, ["arr"]])
        elif r < 0.94: ops.append(["on", a, ["delete"]]); meta[a] = None
        elif r < 0.985: create(a)
        else: ops.append(["cclear"]); size = 0; meta = [None] * K
    return {"t": "multi", "n0": n0, "names": K, "ops": ops}


def nontrivial(case, obs):
    wrote = set()
    for op, rec in zip(case["ops"], obs.split(" | ")):
        o = rec.rsplit(";", 2)[0]
        if op[0] == "on":
            if op[2][0] == "set" and o == "-": wrote.add(op[1])
            if op[2][0] in ("get", "arr") and not o.startswith("err") and len(wrote) >= 1 and (wrote - {op[1]} or op[1] in wrote):
                if len(wrote) >= 2 or op[1] in wrote: return True
    return False


def classify(case, obs):
    ks = ["multi:attributes=" + str(case["names"])]
    alive, deleted = set(), set()
    for op, rec in zip(case["ops"], obs.split(" | ")):
        o = rec.rsplit(";", 2)[0]
        if op[0] == "on":
            ks.append("multi:op:" + op[2][0])
            if op[2][0] == "create":
                if op[1] in deleted: ks.append("multi:re-create-after-delete")
                alive.add(op[1]); deleted.discard(op[1])
            if op[2][0] == "delete" and op[1] in alive: alive.discard(op[1]); deleted.add(op[1])
            if o.startswith("err"): ks.append(f"multi:{op[2][0]}:{o}")
        else:
            ks.append("multi:op:" + op[0])
            if op[0] != "cclear" and len(alive) >= 2: ks.append("multi:growth-with->=2-attributes")
            if op[0] == "cclear": alive, deleted = set(), set()
    return ks


def shrink(case, still):
    ops = list(case["ops"])
    i = len(ops) - 1
    while i >= 0:
        trial = dict(case, ops=ops[:i] + ops[i + 1:])
        if still(trial): ops = trial["ops"]
        i -= 1
    return dict(case, ops=ops)
