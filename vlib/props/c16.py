"""C16 — cutting along singularities yields a disk with faces in bijection (partial)."""
import json, hashlib

from ..gen import mesh as G
from ..gen import cutgen as CG

PID = "C16"
TITLE = "Cutting along singularities yields a disk with faces in bijection"
LEAN_MODULES = ["Mouette.Props.C16", "Mouette.Props.C16Source"]
REQUIRED_THEOREMS = ["faces_in_bijection", "ref_vertex_face_by_face", "ref_vertex_onto", "output_vertices_all_used",
                     "corner_positions_preserved", "glued_only_if_linked", "glued_same_vertex", "uncut_edges_glued",
                     "stable_roots", "prune_keeps_singular_core", "prune_subset", "prune_keeps_loops", "faces_nested",
                     "prune_queue_empty", "prune_fixpoint", "prune_fixpoint_run", "vertex_count", "twin_sides_shared",
                     "edge_count_partial", "euler_characteristic_partial", "euler_formula_partial", "euler_iff_vertex_count",
                     "euler_formula_of_report", "all_unions_effective_of_dual_forest", "euler_characteristic_of_dual_tree_partial",
                     # round 4: bridges to the fragments translated from cutting.py on every run (Props/C16Source.lean)
                     "build_cut_edges_tree_source", "prune_source", "run_source", "run_stages_source", "corner_loop_source", "union_loop_source",
                     "imap_loop_source", "build_source", "cut_adj_is_adjacency_source", "prune_only_removes_source",
                     "prune_keeps_loops_source", "prune_keeps_singular_core_source", "prune_fixpoint_source",
                     # round 4, part B: the edge hypotheses hR / hdisj of the Euler count are theorems
                     "no_corner_starts_two_glued_sides", "euler_characteristic_of_dual_tree_partial2", "euler_formula_partial2",
                     "uncut_pairs_distinct_source", "euler_characteristic_of_dual_tree_source_partial",
                     # round 5: the dual Dijkstra as written simulates the C09 Dijkstra model on the dual graph
                     "dual_tree_refines_dijkstra_source", "dual_tree_result_source", "dual_tree_terminates_source",
                     "dual_tree_is_forest_source", "dual_tree_spans_source",
                     # round 5: find loop, renumbering loop, order_verts of _build_mesh_with_cuts
                     "find_loop_source", "map_loop_source", "order_verts_source", "build_stages_source",
                     # round 6: chi = 1 on the source's own dual tree
                     "dual_tree_structure_source", "euler_characteristic_of_source_dual_tree_partial", "build_ref_source",
                     # round 7: __init__ (self.singularities / self.singu_set) and what the pruning reads
                     "init_singularities_source", "prune_reads_singularities_source",
                     # round 8: _build_singularity_spanning_tree_no_features
                     "spanning_tree_kruskal_source", "all_candidates_offered_source", "spanning_forest_source", "flag_loop_source",
                     # round 9
                     "spanning_forest_with_features_source"]
TRUSTED = [
    "Lean 4.33.0 kernel; axioms ⊆ {propext, Classical.choice, Quot.sound}",
    "hand-written model Mouette/Model/Cutting.lean (_build_cut_edges_tree, _prune_edge_tree, _build_mesh_with_cuts over the C20 "
    "union-find model) tied to mouette/processing/cutting.py by the correspondence of this run AND (round 4) by refinement theorems "
    "from the definitions re-translated from the source on every run (Generated/C16Cut.lean: _build_cut_edges_tree, _prune_edge_tree, "
    "run/_run_no_features/_run_with_features, three loops of _build_mesh_with_cuts); vocabulary of the translation (meaning of "
    "set/dict/deque operations, edge_id, direct_face): Model/CutSource.lean; the find / order_verts / ref_vertex stages of "
    "_build_mesh_with_cuts stay hand-modelled",
    "the stages before the cut graph (shortest paths, Kruskal over paths, dual Dijkstra, feature regions) are NOT modelled: "
    "their result `evisited` is observed on the implementation and handed to the model",
    "tree-cotree theorem (the cut surface is a disk) is NOT proved: checked per run by vlib/gen/mesh.py: surface_stats on output_mesh",
]
ASSUMPTIONS = ["agreement model/implementation and the disk property are established on the cases explored in this run only"]
RULE = ("connected oriented triangulated surfaces (sphere, tetrahedron, tori, genus 2, grids, Delaunay disks, annuli; holes punched → "
        "0-3+ border loops; regular variants with many equal edge lengths) × singularity sets (empty, one, few, many, border-only, "
        "mixed; passed as list / tuple / set / ndarray / numpy scalars / vertex attribute / ONE-SHOT iterables: generator, iterator, map object) × features (none, real FeatureEdgeDetector, detector with an imposed interior feature set); plus regular grids with one "
        "removed triangle and every singular pair next to the hole (thorough: all 2512 + 1256 two-cutter histories, quick: 200 sampled + all 1256 histories); non-trivial = in-domain "
        "case whose run succeeded and cut at least one interior edge")


# ------------------------------------------------------------------------------------------------
def _nats(l):
    return " ".join([str(len(l))] + [str(int(x)) for x in l])


def _faces(F):
    return " ".join([str(len(F))] + [_nats(f) for f in F])


def _errname(e):
    n = type(e).__name__
    return {"TypeError": "err:Type", "ValueError": "err:Value", "KeyError": "err:Key", "IndexError": "err:Index"}.get(n, f"err:Other({n})")


_CACHE = {}


def _key(case):
    return hashlib.sha1(json.dumps(case, sort_keys=True, default=str).encode()).hexdigest()


def _make_features(case, mesh):
    import mouette as M
    feat = case.get("feat")
    if not feat:
        return None
    det = M.processing.FeatureEdgeDetector(verbose=False)
    if feat["mode"] == "detector":
        det.run(mesh)
        return det
    # imposed set: what the detector would hand over for a geometry whose creases are exactly these interior
    # edges: border edges are always features (FeatureEdgeDetector._add_border_to_features)
    det.clear()
    ids = set(int(e) for e in mesh.boundary_edges)
    for a, b in feat["edges"]:
        e = mesh.connectivity.edge_id(a, b)
        if e is not None: ids.add(int(e))
    det.feature_edges = ids
    det.feature_vertices = set()
    for e in ids:
        a, b = mesh.edges[e]
        det.feature_vertices.add(int(a)); det.feature_vertices.add(int(b))
    return det


REPS = ("list", "tuple", "set", "ndarray", "ndarray32", "npints", "attribute", "generator", "iter", "map")
HISTS = ("none", "rerun", "second", "graph-first", "out-first", "detector-twice", "interleave")


def _make_sing(rep, sing, mesh):
    """the singularity set in the representation `rep` (all are accepted by the constructor: list, any iterable - also a one-shot one:
    generator expression, iterator, map object -, ndarray,
    or a vertex attribute whose keys are the singular vertices as FrameField integration passes it)"""
    import numpy as np
    if rep == "tuple": return tuple(sing)
    if rep == "set": return set(sing)
    if rep == "ndarray": return np.array(sing, dtype=np.int64)
    if rep == "ndarray32": return np.array(sing, dtype=np.int32)
    if rep == "npints": return [np.int64(x) for x in sing]
    # one-shot iterables (round 7): the constructor accepts any iterable; these can be walked only ONCE
    if rep == "generator": return (x for x in list(sing))
    if rep == "iter": return iter(list(sing))
    if rep == "map": return map(int, list(sing))
    if rep == "attribute":
        a = mesh.vertices.create_attribute("singuls", int)
        for i, x in enumerate(sing): a[x] = 1 if i % 2 == 0 else -1
        return a
    return list(sing)


def _snapshot(cutter, nV):
    return (sorted(int(e) for e in cutter.cut_edges), [sorted(int(x) for x in cutter.cut_adj[v]) for v in range(nV)])


def _run(case):
    k = _key(case)
    if k in _CACHE:
        return _CACHE[k]
    import mouette as M
    rec = {"err_run": None, "err_out": None, "err_graph": None, "hist_findings": []}
    rep, hist = case.get("rep", "list"), case.get("hist", "none")
    mesh = G.build_surface(case)
    rec["E"] = [(int(a), int(b)) for a, b in mesh.edges]
    rec["interior"] = [int(e) for e in mesh.interior_edges]
    rec["border_e"] = sorted(int(e) for e in mesh.boundary_edges)
    rec["nV"] = len(mesh.vertices)
    nV = rec["nV"]
    ev = []

    def hf(key, what, detail=""):
        rec["hist_findings"].append((key, what, str(detail)[:300]))
    try:
        feat = _make_features(case, mesh)
        if hist == "detector-twice" and case.get("feat") and case["feat"]["mode"] == "detector":
            feat.run(mesh)      # the mesh already carries the `feature` attributes of a previous detection
        if hist == "second":
            # a first cutter (other singularities, same features) has already worked on this mesh object
            first = M.processing.SingularityCutter(mesh, list(case.get("hist_sing", [])), features=feat, verbose=False)
            first.run(); first.output_mesh
        sing_obj = _make_sing(rep, case["sing"], mesh)
        cutter = M.processing.SingularityCutter(mesh, sing_obj, features=feat, verbose=False)
        rec["has_features"] = bool(cutter.has_features)
        orig = cutter._build_cut_edges_tree

        def wrapped(evisited):
            ev.append(sorted(int(e) for e in evisited))
            return orig(evisited)
        cutter._build_cut_edges_tree = wrapped
        if hist == "interleave":
            # another cutter works on a DIFFERENT mesh between construction and run of the one under test
            V2, F2 = CG.regular_grid_tri(4, 5, 2)
            om = G.build_surface({"V": V2, "F": F2})
            oc = M.processing.SingularityCutter(om, [6, 13], verbose=False); oc.run(); oc.output_mesh; oc.cut_graph
        cutter.run()
        snap0 = _snapshot(cutter, nV)
        if hist == "rerun":
            cutter.run()
            if _snapshot(cutter, nV) != snap0:
                hf("history/rerun/cut-differs", "a second run() of the same cutter gives another cut than the first")
            snap0 = _snapshot(cutter, nV)
        rec["evisited"] = ev[-1]
        if hist == "graph-first":
            cutter.cut_graph
        if hist == "out-first":
            cutter.output_mesh; cutter.cut_graph
        if _snapshot(cutter, nV) != snap0:
            hf(f"history/{hist}/cut_edges-changed-by-accessor", "reading cut_graph / output_mesh changed cut_edges or cut_adj")
        if rep in ("list", "npints") and [int(x) for x in sing_obj] != [int(x) for x in case["sing"]]:
            hf("input/singularities-mutated", "the caller's singularity list was modified")
    except Exception as e:  # noqa
        rec["err_run"] = _errname(e); rec["err_run_msg"] = repr(e)[:200]
        if ev: rec["evisited"] = ev[-1]
    if rec["err_run"] is None:
        try:
            out = cutter.output_mesh
            rec["outF"] = [[int(v) for v in f] for f in out.faces]
            rec["outV"] = [tuple(float(c) for c in p) for p in out.vertices]
            rec["ref"] = {int(k2): int(v) for k2, v in cutter.ref_vertex.items()}
            out2 = cutter.output_mesh
            if [[int(v) for v in f] for f in out2.faces] != rec["outF"]:
                hf("history/output_mesh/second-read-differs", "a second read of output_mesh gives other faces")
        except Exception as e:  # noqa
            rec["err_out"] = _errname(e); rec["err_out_msg"] = repr(e)[:200]
        try:
            cg = cutter.cut_graph
            rec["graphE"] = [(int(a), int(b)) for a, b in cg.edges]
            rec["graphV"] = [tuple(float(c) for c in p) for p in cg.vertices]
        except Exception as e:  # noqa
            rec["err_graph"] = _errname(e); rec["err_graph_msg"] = repr(e)[:200]
        # the values the property is checked on are read LAST (after every accessor); by value
        rec["cut"], rec["adj"] = _snapshot(cutter, nV)
        if (rec["cut"], rec["adj"]) != snap0:
            hf(f"history/{hist}/cut_edges-changed-by-accessor", "reading cut_graph / output_mesh changed cut_edges or cut_adj")
        if [[int(v) for v in f] for f in mesh.faces] != [list(f) for f in case["F"]] or \
                [tuple(float(c) for c in p) for p in mesh.vertices] != [tuple(float(c) for c in p) for p in case["V"]]:
            hf("input/mesh-mutated", "the input mesh (vertices or faces) was modified by the cutter")
    if len(_CACHE) > 64:
        _CACHE.clear()
    _CACHE[k] = rec
    return rec


def _canon_pos(case):
    first = {}
    canon = []
    for i, p in enumerate(case["V"]):
        t = tuple(float(c) for c in p)
        first.setdefault(t, i)
        canon.append(first[t])
    return canon, first


def impl_observe(case):
    rec = _run(case)
    if rec["err_run"]:
        return rec["err_run"]
    adj = " ".join(_nats(a) for a in rec["adj"])
    head = f"{_nats(rec['cut'])} ; Q0 ; {adj} ; B "
    if rec["err_out"]:
        return head + rec["err_out"]
    canon, first = _canon_pos(case)
    nOut = len(rec["outV"])
    ref = " ".join(str(rec["ref"][k]) if k in rec["ref"] else "N" for k in range(nOut))
    pos = " ".join(str(first[p]) if p in first else "N" for p in rec["outV"])
    return head + f"{_faces(rec['outF'])} ; {ref} ; {pos} ; S1"


def model_request(case):
    rec = _run(case)
    if "evisited" not in rec or rec["err_run"]:
        return None
    E = " ".join([str(len(rec["E"]))] + [f"{a} {b}" for a, b in rec["E"]])
    return f"cut {rec['nV']} {_faces(case['F'])} {E} {_nats(rec['evisited'])} {_nats(case['sing'])} {_nats(rec['interior'])}"


def _check_euler(case, xsec, ip):
    """the model's Euler report `X V' eff |uncut| hyp` against the implementation's own output mesh"""
    t = xsec.split()
    if len(t) != 5 or t[0] != "X" or any(len(f) != 3 for f in case["F"]):
        return None     # the Euler theorems are about triangle lists
    Vp, eff, u, hyp = int(t[1]), int(t[2]), int(t[3]), t[4]
    ftoks = ip[3].split()
    if ftoks[0] != "B" or ftoks[1].startswith("err"):
        return None
    nF = int(ftoks[1]); faces = []; k = 2
    for _ in range(nF):
        m = int(ftoks[k]); faces.append([int(x) for x in ftoks[k + 1:k + 1 + m]]); k += 1 + m
    nOut = len(ip[4].split())
    if Vp != nOut:
        return f"model vertex count V'={Vp} / implementation has {nOut} output vertices"
    so = G.surface_stats(nOut, faces)
    if hyp == "0":
        # legitimate only when, on the implementation's mesh too, some sides coincide without coming from an uncut edge (the
        # one-edge slit, an open finding reported by the oracle): then the number of interior edges differs from |uncut|
        if so["manifold"] and so["E"] - so["border_edges"] == u:
            return ("the model reports that the edge hypotheses of the Euler theorem fail although the implementation's mesh is a "
                    "manifold whose interior edges are exactly the uncut edges")
        return None
    if hyp == "1":
        chi_model = nF + u - eff
        if so["chi"] != chi_model:
            return f"Euler characteristic: model formula F+|uncut|-effective = {chi_model} / measured on the implementation's mesh {so['chi']}"
    return None


def compare(case, model, impl):
    if model == impl:
        return None
    mp0 = model.split(" ; ")
    if len(mp0) == 8 and mp0[7].startswith("X"):
        why = _check_euler(case, mp0[7], impl.split(" ; "))
        if why:
            return why
        model = " ; ".join(mp0[:7])
        if model == impl:
            return None
    # positions: the model names the original vertex whose position is carried; canonicalise to the first vertex
    # with the same coordinates
    mp, ip = model.split(" ; "), impl.split(" ; ")
    if len(mp) == len(ip) == 7:
        canon, _ = _canon_pos(case)
        pos = [t if t == "N" else str(canon[int(t)]) for t in mp[5].split()]
        mp[5] = " ".join(pos)
        if mp == ip:
            return None
        for name, a, b in zip(["cut_edges", "queue", "cut_adj", "faces", "ref_vertex", "positions", "stable-roots"], mp, ip):
            if a != b:
                return f"model and implementation differ on {name}: model {a[:120]} / impl {b[:120]}"
    return f"model reply differs from implementation observation: {model[:150]} / {impl[:150]}"


# ------------------------------------------------------------------------------------------------
def in_domain(case):
    F = case["F"]
    if not F or any(len(f) != 3 for f in F):
        return False
    st = G.surface_stats(len(case["V"]), F)
    return st["manifold"] and st["components"] == 1 and st["unused"] == 0 and len(set(case["sing"])) == len(case["sing"]) \
        and all(0 <= s < len(case["V"]) for s in case["sing"])


def _kind(case):
    st = G.surface_stats(len(case["V"]), case["F"])
    genus = (2 - st["chi"] - st["loops"]) // 2
    feat = case.get("feat")
    fm = "nofeat" if not feat else feat["mode"]
    extra = ""
    if case.get("rep", "list") != "list": extra += "/rep:" + case["rep"]
    if case.get("hist", "none") != "none": extra += "/hist:" + case["hist"]
    return st, f"g{genus}/b{min(st['loops'], 3)}{'+' if st['loops'] > 3 else ''}/{fm}{extra}"


def oracle(case):
    """The property stated directly on the implementation's outputs (independent of the Lean model)."""
    if not in_domain(case):
        return []
    out = []
    rec = _run(case)
    st, kind = _kind(case)
    F, V, sing = case["F"], case["V"], list(case["sing"])
    nV = len(V)

    def bad(key, what, detail=""):
        out.append({"key": f"C16/{key}", "what": what, "detail": str(detail)[:400]})

    if rec["err_run"]:
        bad(f"run/raises/{rec['err_run']}/{kind}", f"SingularityCutter.run raised {rec['err_run']} on a connected triangulated surface", rec.get("err_run_msg"))
        return out
    if rec["err_out"]:
        bad(f"output_mesh/raises/{rec['err_out']}/{kind}", f"output_mesh raised {rec['err_out']}", rec.get("err_out_msg"))
        return out
    for (hk, hw, hd) in rec["hist_findings"]:
        bad(hk, hw, hd)
    sphere_uncut = (st["chi"] == 2 and st["loops"] == 0 and len(sing) < 2)
    outF, outV, ref, cut, E = rec["outF"], rec["outV"], rec["ref"], set(rec["cut"]), rec["E"]
    # 1. same faces, same order, same corner positions
    if len(outF) != len(F) or any(len(a) != len(b) for a, b in zip(outF, F)):
        bad("faces/count-or-arity", "output faces are not in bijection with the input faces", f"{len(outF)} vs {len(F)}")
        return out
    for i, (f2, f) in enumerate(zip(outF, F)):
        for j in range(len(f)):
            if not (0 <= f2[j] < len(outV)):
                bad("faces/index-out-of-range", "output face refers to a missing vertex", f"face {i}"); return out
            if tuple(outV[f2[j]]) != tuple(float(c) for c in V[f[j]]):
                bad("faces/corner-position", "a corner of an output face is not at the position of the input corner", f"face {i} corner {j}")
                return out
    # 2. ref_vertex: total on output vertices, onto, consistent face by face
    if sorted(ref.keys()) != list(range(len(outV))):
        bad("ref_vertex/domain", "ref_vertex is not defined exactly on the output vertices", f"{sorted(ref.keys())[:20]} vs {len(outV)}")
    elif set(ref.values()) != set(range(nV)):
        bad("ref_vertex/not-onto", "ref_vertex is not onto the input vertices", sorted(set(range(nV)) - set(ref.values()))[:10])
    else:
        for i, (f2, f) in enumerate(zip(outF, F)):
            if [ref[v] for v in f2] != list(f):
                bad("ref_vertex/inconsistent", "ref_vertex of an output face is not the input face", f"face {i}"); break
    if any(o["key"].startswith("C16/ref_vertex") for o in out):
        return out
    # 3. topology of the output
    so = G.surface_stats(len(outV), outF)
    icut = sorted(cut - set(rec["border_e"]))
    if len(icut) == 1 and not rec["border_e"] and len(rec["adj"][E[icut[0]][0]]) == 1 and len(rec["adj"][E[icut[0]][1]]) == 1 \
            and so["loops"] == 0:
        # the whole cut graph is ONE edge joining two singular leaves: a slit of length one cannot be represented by an
        # indexed face list (both copies of the edge have the same two end vertices), the output is the closed input
        bad("slit-of-one-edge/closed", "the cut graph is a single edge between two adjacent singular vertices: nothing is opened, "
            "the output is still closed and the singular vertices are not on a border", E[icut[0]])
        return out
    if sphere_uncut:
        if not (so["manifold"] and so["chi"] == 2 and so["loops"] == 0 and so["components"] == 1 and len(outV) == nV):
            bad(f"sphere-uncut/changed/{kind}", "closed sphere with < 2 singularities was not left uncut", so)
    else:
        if not so["manifold"]:
            bad(f"disk/not-manifold/{kind}", "cut mesh is not a manifold surface", so)
        elif so["components"] != 1:
            bad(f"disk/components/{kind}", "cut mesh is not connected", so)
        elif so["loops"] != 1:
            bad(f"disk/loops/{kind}", f"cut mesh has {so['loops']} border loops instead of 1", so)
        elif so["chi"] != 1:
            bad(f"disk/euler/{kind}", f"cut mesh has Euler characteristic {so['chi']}", so)
        elif so["unused"]:
            bad(f"disk/isolated-vertices/{kind}", "cut mesh has unused vertices", so)
    # 4. every singular vertex has a copy on the border of the output
    sides = {(f[i], f[(i + 1) % 3]) for f in outF for i in range(3)}
    bsides = [(a, b) for (a, b) in sides if (b, a) not in sides]
    bverts = {a for a, _ in bsides} | {b for _, b in bsides}
    if not sphere_uncut:
        onb = {ref[v] for v in bverts}
        miss = [s for s in sing if s not in onb]
        if miss:
            bad(f"singularity-not-on-border/{kind}", "a singular vertex has no copy on the border of the cut mesh", miss[:10])
    # 5. only edges reported as cut were opened
    eid = {}
    for i, (a, b) in enumerate(E):
        eid[(min(a, b), max(a, b))] = i
    for (a, b) in bsides:
        k = (min(ref[a], ref[b]), max(ref[a], ref[b]))
        if k not in eid or eid[k] not in cut:
            bad("opened-not-reported", "a border edge of the cut mesh is not an edge reported in cut_edges", k); break
    isides = {}
    for fi, f in enumerate(F):
        for i in range(3): isides[(f[i], f[(i + 1) % 3])] = (fi, i)
    for (a, b), (f1, i1) in isides.items():
        if (b, a) in isides and a < b and eid.get((a, b)) not in cut:
            f2, i2 = isides[(b, a)]
            if not (outF[f1][i1] == outF[f2][(i2 + 1) % 3] and outF[f1][(i1 + 1) % 3] == outF[f2][i2]):
                bad("uncut-edge-opened", "an interior edge not reported as cut is not shared by its two faces in the cut mesh", (a, b)); break
    # 6. the cut edges form a connected graph containing the original border; cut_adj describes them
    inb = {eid[(min(a, b), max(a, b))] for (a, b) in isides if (b, a) not in isides}
    if not inb <= cut:
        bad("cut-misses-border", "cut_edges does not contain every border edge of the input", sorted(inb - cut)[:10])
    adjw = [set() for _ in range(nV)]
    for e in cut:
        a, b = E[e]; adjw[a].add(b); adjw[b].add(a)
    if [sorted(s) for s in adjw] != rec["adj"]:
        bad("cut_adj/inconsistent", "cut_adj is not the adjacency of cut_edges", "")
    touched = [v for v in range(nV) if adjw[v]]
    if touched:
        seen, stack = {touched[0]}, [touched[0]]
        while stack:
            x = stack.pop()
            for y in adjw[x]:
                if y not in seen: seen.add(y); stack.append(y)
        if len(seen) != len(touched):
            bad(f"cut-graph-disconnected/{kind}", "the cut edges do not form a connected graph", f"{len(seen)} of {len(touched)} vertices reached")
    # 7. cut_graph (PolyLine) describes cut_edges
    if rec["err_graph"]:
        tag = "sphere-uncut" if sphere_uncut else kind
        bad(f"cut_graph/raises/{rec['err_graph']}/{tag}", f"cut_graph raised {rec['err_graph']}", rec.get("err_graph_msg"))
    else:
        gp = sorted(tuple(sorted((rec["graphV"][a], rec["graphV"][b]))) for a, b in rec["graphE"])
        wp = sorted(tuple(sorted((tuple(float(c) for c in V[E[e][0]]), tuple(float(c) for c in V[E[e][1]])))) for e in cut)
        if gp != wp:
            bad("cut_graph/differs", "cut_graph polyline is not the set of cut edges", f"{len(gp)} vs {len(wp)}")
    return out


def nontrivial(case, obs):
    if not in_domain(case): return False
    rec = _run(case)
    return rec["err_run"] is None and rec["err_out"] is None and len(set(rec["cut"]) - set(rec["border_e"])) > 0


def classify(case, obs):
    ks = []
    if not in_domain(case):
        ks.append("domain:outside(" + case.get("tag", "?") + ")")
    else:
        st, kind = _kind(case)
        ks += ["kind:" + kind.split("/rep:")[0].split("/hist:")[0], "sing:" + case.get("sk", "?"), "fam:" + case.get("tag", "?").split("+")[0]]
        ks += ["rep:" + case.get("rep", "list"), "hist:" + case.get("hist", "none")]
        n = len(case["F"])
        ks.append("faces:" + ("<=20" if n <= 20 else "<=60" if n <= 60 else "<=200" if n <= 200 else ">200"))
        rec = _run(case)
        if rec["err_run"] is None:
            ks.append("has_features:" + str(rec.get("has_features")))
            ks.append("interior-cut:" + ("0" if not (set(rec["cut"]) - set(rec["border_e"])) else ">0"))
    if obs.startswith("err") or " B err" in obs:
        ks.append("err:" + obs.split("B ")[-1][:20])
    return ks


def describe(case):
    return {"tag": case.get("tag"), "sk": case.get("sk"), "nV": len(case["V"]), "nF": len(case["F"]), "sing": case["sing"],
            "feat": (case.get("feat") or {}).get("mode"), "rep": case.get("rep", "list"), "hist": case.get("hist", "none")}


def _with_features(rng, base, F):
    r = rng.random()
    if r < 0.45:
        return None
    if r < 0.7:
        return {"mode": "detector"}
    ie = CG.interior_edges(F)
    k = rng.randint(1, max(1, min(len(ie), 8)))
    return {"mode": "edges", "edges": [list(e) for e in rng.sample(ie, min(k, len(ie)))]} if ie else None


def cases(rng, tier):
    n_surf, maxf = (130, 60) if tier == "quick" else (1200, 400)
    for _ in range(n_surf):
        s = CG.connected_tri_surface(rng, rng.choice([12, 30, maxf]))
        for sk, sing in CG.singularity_sets(rng, len(s["V"]), s["F"]):
            feat = _with_features(rng, s, s["F"])
            yield {"V": s["V"], "F": s["F"], "sing": sing, "feat": None, "tag": s["tag"], "sk": sk}
            if feat:
                yield {"V": s["V"], "F": s["F"], "sing": sing, "feat": feat, "tag": s["tag"], "sk": sk}
    # representations of the singularity set and histories on one mesh / one cutter (Part A of round 3)
    for _ in range(60 if tier == "quick" else 500):
        s = CG.connected_tri_surface(rng, rng.choice([12, 30, maxf]))
        sets = CG.singularity_sets(rng, len(s["V"]), s["F"])
        sk, sing = rng.choice(sets)
        feat = _with_features(rng, s, s["F"])
        base = {"V": s["V"], "F": s["F"], "sing": sing, "feat": feat, "tag": s["tag"], "sk": sk}
        yield dict(base, rep=rng.choice(REPS[1:]))
        hist = rng.choice(HISTS[1:])
        c = dict(base, hist=hist)
        if hist == "second":
            c["hist_sing"] = rng.choice(sets)[1]
        if hist == "detector-twice":
            c["feat"] = {"mode": "detector"}
        yield c
        yield dict(base, rep=rng.choice(REPS[1:]), hist=rng.choice(["rerun", "graph-first", "out-first"]))
        # one-shot iterables with a non-empty singularity set (the result may not depend on the container type)
        nonempty = [x for x in sets if x[1]]
        if nonempty:
            sk2, sing2 = rng.choice(nonempty)
            yield dict(base, sing=sing2, sk=sk2, rep=rng.choice(["generator", "iter", "map"]))
    # structured family: singular pairs next to a hole of a regular grid (crossing shortest paths of equal length)
    for c in CG.pairs_at_hole(rng, 200 if tier == "quick" else 10 ** 6):
        yield c
    # outside the statement (polygon faces): model fidelity on the error / index-vs-element paths, no oracle
    for _ in range(6 if tier == "quick" else 40):
        s = G.random_surface(rng, 20, tri_only=False, connected=True)
        if all(len(f) == 3 for f in s["F"]): continue
        yield {"V": s["V"], "F": s["F"], "sing": [], "feat": None, "tag": "poly:" + s["tag"], "sk": "empty"}


def shrink(case, still):
    cur = dict(case)
    if cur.get("feat"):
        t = dict(cur, feat=None)
        if still(t): cur = t
    if cur.get("feat") and cur["feat"]["mode"] == "edges":
        es = list(cur["feat"]["edges"]); i = 0
        while i < len(es):
            t = dict(cur, feat={"mode": "edges", "edges": es[:i] + es[i + 1:]})
            if len(es) > 1 and still(t): es = t["feat"]["edges"]; cur = t
            else: i += 1
    sing = list(cur["sing"]); i = 0
    while i < len(sing):
        t = dict(cur, sing=sing[:i] + sing[i + 1:])
        if still(t): sing = t["sing"]; cur = t
        else: i += 1
    return cur


def search_on_break(rng, broken, mismatches):
    out = []
    for _ in range(30):
        s = CG.connected_tri_surface(rng, 40)
        for sk, sing in CG.singularity_sets(rng, len(s["V"]), s["F"]):
            out.append({"V": s["V"], "F": s["F"], "sing": sing, "feat": None, "tag": s["tag"], "sk": sk})
    return out


# ------------------------------------------------------------------------------------------------
# translated fragments (round 4): cutting.py is read imperatively into Generated/C16Cut.lean on every run
# ------------------------------------------------------------------------------------------------
def translate():
    from ..gen import c16_translate
    return c16_translate.sites()


_CUT = "mouette/processing/cutting.py::SingularityCutter."
_OOS_UF = "modelled"   # mouette/utils/unionfind.py is translated and bridged under C20 (Props/C20Source); C16 uses the hand model UF
SOURCE_MAP = {
    _CUT + "__init__": "translated: the lines that fill self.singularities / self.singu_set from the argument (init_singularities_source, prune_reads_singularities_source); the other attribute initialisations are oracle-only",
    _CUT + "has_features": "oracle-only",
    _CUT + "output_mesh": "oracle-only",
    _CUT + "cut_graph": "oracle-only",
    _CUT + "run": "translated",
    _CUT + "_run_with_features": "translated",
    _CUT + "_run_no_features": "translated",
    _CUT + "_build_singularity_spanning_tree_no_features": "translated: whole body matched against the shape of Generated/C16Span.lean (BORDER node, candidate keys, lengths of EVERY key, Kruskal loop bridged to the C10 loop, flag loop); shortest_path / shortest_path_to_border (C09) and the sort are parameters",
    _CUT + "_build_singularity_spanning_tree_no_features.compute_path_length": "oracle-only",   # its body is part of the matched shape; its value is the parameter `len`
    _CUT + "_build_singularity_spanning_tree_with_features": "translated: whole body matched against the shape of Generated/C16SpanF.lean; the breadth-first forest on the feature graph is modelled and proved a forest (spanning_forest_with_features_source); shortest_path_to_vertex_set (C09) is a parameter",
    _CUT + "_build_feature_regions": "oracle-only",
    _CUT + "_build_dual_tree_no_features": "translated",
    _CUT + "_build_dual_tree_no_features.face_distance": "oracle-only",   # its body is checked by the translator (distance of two barycenters); its value is the parameter `fd`
    _CUT + "_build_dual_tree_with_features": "oracle-only",
    _CUT + "_build_dual_tree_with_features.face_distance": "oracle-only",
    _CUT + "_build_cut_edges_tree": "translated",
    _CUT + "_prune_edge_tree": "translated",
    _CUT + "_build_cut_graph_as_mesh": "oracle-only",
    _CUT + "_build_mesh_with_cuts": "translated",   # every stage: corner numbering, unions, find, imap, renumbering, order_verts, duplicate_vertices / ref_vertex (build_stages_source, build_ref_source)
    "mouette/processing/paths.py::build_path": "oracle-only",
    "mouette/processing/paths.py::_check_weight_argument": "oracle-only",
    "mouette/processing/paths.py::shortest_path": "oracle-only",
    "mouette/processing/paths.py::shortest_path_to_vertex_set": "oracle-only",
    "mouette/processing/paths.py::shortest_path_to_border": "oracle-only",
    "mouette/processing/trees/face_sp.py::FaceSpanningTree.__init__": "oracle-only",
    "mouette/processing/trees/face_sp.py::FaceSpanningTree.compute": "oracle-only",
    "mouette/processing/trees/face_sp.py::FaceSpanningTree.compute.put_neighbours_in_queue": "oracle-only",
    "mouette/processing/trees/face_sp.py::FaceSpanningTree.build_tree_as_polyline": "out-of-scope: debug export, not reached by SingularityCutter",
    "mouette/processing/trees/face_sp.py::FaceSpanningForest.__init__": "oracle-only",
    "mouette/processing/trees/face_sp.py::FaceSpanningForest.compute": "oracle-only",
    "mouette/utils/unionfind.py::UnionFind.__init__": "modelled",
    "mouette/utils/unionfind.py::UnionFind.__repr__": "out-of-scope: not reached by SingularityCutter",
    "mouette/utils/unionfind.py::UnionFind.__len__": "out-of-scope: not reached by SingularityCutter",
    "mouette/utils/unionfind.py::UnionFind.__contains__": "modelled",
    "mouette/utils/unionfind.py::UnionFind.__getitem__": "out-of-scope: not reached by SingularityCutter",
    "mouette/utils/unionfind.py::UnionFind.__setitem__": "out-of-scope: not reached by SingularityCutter",
    "mouette/utils/unionfind.py::UnionFind.add": "modelled",
    "mouette/utils/unionfind.py::UnionFind.find": "modelled",
    "mouette/utils/unionfind.py::UnionFind.connected": "oracle-only",
    "mouette/utils/unionfind.py::UnionFind.union": "modelled",
    "mouette/utils/unionfind.py::UnionFind.component": "out-of-scope: not reached by SingularityCutter",
    "mouette/utils/unionfind.py::UnionFind.roots": "out-of-scope: not reached by SingularityCutter",
    "mouette/utils/unionfind.py::UnionFind.components": "out-of-scope: not reached by SingularityCutter",
    "mouette/utils/unionfind.py::UnionFind.component_mapping": "out-of-scope: not reached by SingularityCutter",
}


MANIFEST = {
    "level_text": ("Proof, PARTIAL. Lean 4 theorems about an executable model of SingularityCutter._prune_edge_tree and "
                   "_build_mesh_with_cuts (one vertex per corner, the C20 union-find model, compaction, ref_vertex), for ALL triangle "
                   "lists / uncut-edge sets / singularity sets: output faces in bijection with the input (same number, order, arity); "
                   "ref_vertex(F'[i][j]) = F[i][j] and corner positions preserved, face by face (faces_nested); ref_vertex onto, defined "
                   "exactly on the output vertices, every output vertex used; two corners share an output vertex ONLY IF linked by unions "
                   "across uncut interior edges (for every labelling constant on the union pairs) and every uncut interior edge IS shared "
                   "(only the cut edges are opened); the second round of find returns the first round's roots; pruning only removes edges "
                   "and never removes an edge of a sub-graph whose leaves are all singular (paths between singularities, homology loops, "
                   "border loops: cut graph ⊇ border); pruning TERMINATES within the model's fuel with an empty queue (the driver's Q0 is a theorem) "
                   "at a FIXPOINT: no non-singular vertex of degree 1 is left (prune_fixpoint). Euler count, PARTIAL: V' = number of union-find "
                   "classes of corners = 3F - (effective unions) (vertex_count); the two sides of every uncut edge are one undirected edge "
                   "of the output (twin_sides_shared); IF sides of the output coincide only when glued and no corner starts two glued sides "
                   "(explicit hypotheses sep/hR/hdisj) THEN E' = 3F - |uncut| (edge_count_partial) and chi = F + |uncut| - effective unions "
                   "(euler_formula_partial); with |uncut| = F-1, chi = 1 is EQUIVALENT to 'all 2|uncut| corner unions are effective', i.e. "
                   "V' = F+2 (euler_iff_vertex_count, euler_characteristic_partial), and that is PROVED from a dual forest/spanning tree of "
                   "the uncut edges (all_unions_effective_of_dual_forest, euler_characteristic_of_dual_tree_partial); of the three edge "
                   "hypotheses, hR and hdisj (no corner starts two glued sides) are now PROVED from the uncut edges being distinct undirected edges "
                   "(no_corner_starts_two_glued_sides; for a simple edge table: uncut_pairs_distinct_source), only `sep` (sides of the output "
                   "coincide only when glued) stays (decided per run by the driver). ROUND 4 - TIE: _build_cut_edges_tree, _prune_edge_tree, run / "
                   "_run_no_features / _run_with_features and three loops of _build_mesh_with_cuts are re-translated IMPERATIVELY from cutting.py on "
                   "every run (explicit dict cut_adj, remove / add / = set(), edge_id, deque, while on fuel) and proved to REFINE the hand model "
                   "(build_cut_edges_tree_source, prune_source, run_source, run_stages_source, corner_loop_source, union_loop_source, imap_loop_source, "
                   "build_source); the pruning theorems are restated on the extracted definitions (cut_adj_is_adjacency_source, "
                   "prune_only_removes_source, prune_keeps_loops_source, prune_keeps_singular_core_source, prune_fixpoint_source). ROUND 5: the dual Dijkstra "
                   "_build_dual_tree_no_features is re-translated imperatively (Generated/C16Dual.lean: initialisations, while/get, continue guards, relaxation, "
                   "path[..] = e, push, returned set) and proved to SIMULATE the C09 Dijkstra model run on the dual graph (dual_tree_refines_dijkstra_source), "
                   "so for every min-heap and non-negative face distances: the loop terminates with an empty queue (dual_tree_terminates_source), every "
                   "path[f] is a non-forbidden edge joining f to a face visited EARLIER - a forest rooted at face 0 (dual_tree_is_forest_source) - and every "
                   "face joined to face 0 across non-forbidden edges is visited and has a tree edge (dual_tree_spans_source); the find loop, the renumbering "
                   "loop and order_verts of _build_mesh_with_cuts are translated and bridged as well (build_stages_source). ROUND 6: the duplicate_vertices / "
                   "ref_vertex bookkeeping is translated too (build_ref_source): every stage of _build_mesh_with_cuts is read from the source; and the Euler "
                   "characteristic is stated ON THE SOURCE'S OWN DUAL TREE (euler_characteristic_of_source_dual_tree_partial): for a connected dual graph, the "
                   "cut mesh built from the complement of the edge set returned by the translated _build_dual_tree_no_features (before pruning) has |uncut| = F-1, "
                   "all 2|uncut| corner unions effective and chi = 1 - 'forest edges are effective in any order' by counting (effective_of_spanning_tree); "
                   "hypotheses left: sep (sides coincide only when glued) and LinkOK (opposite_face / face_to_edges agree with the half-edge table). The property is also checked on histories (cutter run twice, a second cutter on a "
                   "used mesh, accessors in every order, detector run twice) and on every representation of the singularity set (list, "
                   "tuple, set, int64/int32 ndarray, numpy scalars, vertex attribute), with by-value snapshots. NOT proved - checked on every run by the oracle with an independent routine "
                   "(surface_stats): the cut mesh is ONE component with ONE border loop and Euler characteristic 1 (tree-cotree theorem), "
                   "every singular vertex has a copy on that border, the cut graph is connected, the closed sphere with < 2 singularities "
                   "is left uncut. The stages before the cut graph (shortest paths, Kruskal on paths, dual Dijkstra, feature forest) are "
                   "not modelled: their result is observed and handed to the model."),
    "level_note": ("Trusted: Lean kernel + propext/Classical.choice/Quot.sound; the hand-written model, tied to cutting.py only by the "
                   "correspondence on the cases of each run (model = expected cut_edges, cut_adj, output faces, ref_vertex, positions for "
                   "every case); Lemmas/UnionFind.lean of C20 (Inv, union_spec, find_spec); disk topology is per-run evidence, not a theorem."),
    "technique": "Lean 4 invariant proofs over an executable model (union-find refinement reused from C20) + differential correspondence + exact per-run topology oracle",
}
