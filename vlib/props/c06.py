"""C06 — meshes have value semantics: copy, merge and transforms never alias.

Two kinds of cases:
  {"t": "script", "ops": [...]}    a history of producers / copy / merge / transforms / in-place edits over a growing
                                   list of meshes; EVERY mesh (and every caller array) is observed after EVERY op
  {"t": "producer", "name", "args", "tr"}   monitoring of one library producer (labelled monitoring, not proof):
                                   no two vertex entries share memory, translate moves every vertex exactly once

script ops (JSON):
  ["new", via, V, E, F, C]   via in raw | raw_int | from_arrays | from_arrays_int ; V rows of "p/q" strings;
                             E/F/C are the element lists of the PREPARED mesh (canonicalised by the library at generation
                             time: C02 owns `prepare`), so that the model needs no model of `prepare`
  ["copy", i, attrs] ["merge", [ids]] ["translate", i, t] ["scale", i, k, o|None] ["scalexyz", i, fx, fy, fz, o|None]
  ["rotate", i, R(9), o|None] ["flatten", i, dim] ["normalize", i, centered] ["toorigin", i] ["edit", i, v, c, x]
  round 2:  ["copyx", i, copy_attributes, copy_connectivity]   (connectivity of the source is queried first, so caches exist)
            ["cattr", i]  vertices.create_attribute("w", float, 3, dense=True)     ["sattr", i, v, [x,y,z]]  a[v] = [x,y,z]
            ["eattr", i, v, c, x]   r = a[v]; r[c] = x   (row view: writes through)
"""
import os, tempfile
from fractions import Fraction

PID = "C06"
TITLE = "Meshes have value semantics: copy, merge and transforms never alias"
LEAN_MODULES = ["Mouette.Props.C06"]
REQUIRED_THEOREMS = [
    "copy_equal_disjoint", "merge_is_disjoint_union", "merge_indices_in_block", "transform_exact", "inplace_exact",
    "alias_free_run", "translate_round_trip", "scale_round_trip", "rotate_round_trip", "legacy_merge_aliases", "normalize_bbox",
    # round 2
    "copy_switches", "copy_isolated", "conn_own_run", "legacy_copy_shares_connectivity", "merge_pointcloud_first",
    "rotate_about_origin", "scale_xyz_round_trip", "scale_xyz_default_origin", "wfx_run",
]
TRUSTED = [
    "Lean 4.33.0 kernel; axioms ⊆ {propext, Classical.choice, Quot.sound}",
    "hand-written model Mouette/Model/MeshHeap.lean (heap of Rat^3 cells, meshes = lists of references; rebinding vs in-place "
    "update) tied to mesh.py copy/merge and geometry/transform.py by the whole-state correspondence of this run: every mesh "
    "is observed after every operation",
    "floating point: coordinates compared to the exact rational answer with |impl - exact| <= 1e-9*scale + 1e-12; "
    "scipy Rotation.from_matrix on rational orthogonal matrices is trusted to apply that matrix",
    "numpy view/copy rules observed from outside (np.shares_memory, values of every mesh after every op)",
    "element lists of base meshes are those of the prepared mesh (prepare belongs to C02)",
]
ASSUMPTIONS = [
    "agreement model/implementation is established on the histories explored in this run only",
    "producers (procedural generators, loaders, boundary extraction) are monitored for alias-freedom, not modelled",
    "normalize is only exercised on meshes whose bounding box is not a point",
]
RULE = ("[round 2: copy with copy_attributes / copy_connectivity switches on meshes carrying a vertex attribute (then edited on "
        "either side), merges of mixed kinds with a point cloud first, rotations about origins != 0, scale_xyz with negative "
        "factors; attribute rows and connectivity-handler identity observed for every mesh after every op] random histories (<= 9 ops quick / <= 16 thorough) over up to 5 small meshes (point clouds, polylines, triangle/quad "
        "surfaces, tets; float/int dtype; raw lists or from_arrays): copy, merge (with repeated inputs), translate, scale, "
        "scale_xyz, rotate (rational orthogonal matrices), flatten, normalize, translate_to_origin, in-place vertex edits, "
        "round trips weighted in; all meshes and caller arrays observed after every op; non-trivial = distinct history with "
        ">= 1 copy/merge and >= 1 transform/edit applied after it; plus one monitoring case per library producer")

# ------------------------------------------------------------------------------------------------
def _fr(x):
    f = Fraction(x)
    return str(f.numerator) if f.denominator == 1 else f"{f.numerator}/{f.denominator}"


def _F(s):
    return Fraction(s)


def _vec(t):
    import mouette as M
    return M.Vec(*[float(Fraction(x)) for x in t])


ROT_ATOMS = [  # rational orthogonal matrices with det +1
    [["3/5", "-4/5", "0"], ["4/5", "3/5", "0"], ["0", "0", "1"]],
    [["1", "0", "0"], ["0", "5/13", "-12/13"], ["0", "12/13", "5/13"]],
    [["8/17", "0", "15/17"], ["0", "1", "0"], ["-15/17", "0", "8/17"]],
    [["0", "-1", "0"], ["1", "0", "0"], ["0", "0", "1"]],
    [["0", "0", "1"], ["1", "0", "0"], ["0", "1", "0"]],
    [["1", "0", "0"], ["0", "-1", "0"], ["0", "0", "-1"]],
]


def _matmul(A, B):
    return [[sum(A[i][k] * B[k][j] for k in range(3)) for j in range(3)] for i in range(3)]


# ------------------------------------------------------------------------------------------------
# building and observing real meshes
# ------------------------------------------------------------------------------------------------
def _build(via, V, E, F, C):
    """returns (mesh, caller_array|None)"""
    import numpy as np
    from mouette.mesh.mesh_data import RawMeshData
    from mouette.mesh.mesh import _instanciate_raw_mesh_data, from_arrays
    if via.startswith("from_arrays"):
        dt = int if via.endswith("int") else float
        arr = np.array([[dt(Fraction(x)) for x in row] for row in V], dtype=dt).reshape(-1, 3)
        kw = {}
        if E: kw["E"] = np.array(E)
        if F: kw["F"] = np.array(F)
        if C: kw["C"] = np.array(C)
        return from_arrays(arr, **kw), arr
    r = RawMeshData()
    conv = (lambda x: int(Fraction(x))) if via == "raw_int" else (lambda x: float(Fraction(x)))
    for row in V: r.vertices.append([conv(x) for x in row])
    for e in E: r.edges.append(tuple(e))
    for f in F: r.faces.append(tuple(f))
    for c in C: r.cells.append(tuple(c))
    return _instanciate_raw_mesh_data(r), None


DIM = {"PointCloud": 0, "PolyLine": 1, "SurfaceMesh": 2, "VolumeMesh": 3}


def _elts(cont):
    return [[int(u) for u in e] for e in cont]


def _mesh_elements(m):
    return (_elts(m.edges) if hasattr(m, "edges") else [], _elts(m.faces) if hasattr(m, "faces") else [],
            _elts(m.cells) if hasattr(m, "cells") else [])


def _coords(m):
    return [[Fraction(float(x)) for x in v] for v in m.vertices]


def _fmt_elts(l):
    return " ".join([str(len(l))] + [" ".join([str(len(e))] + [str(u) for u in e]) for e in l])


def _attr_rows(m):
    """rows of the vertex attribute "w" (None if absent)"""
    import numpy as np
    if not m.vertices.has_attribute("w"): return None
    a = np.asarray(m.vertices.get_attribute("w").as_array(len(m.vertices))).reshape(-1, 3)
    return [[Fraction(float(x)) for x in row] for row in a]


def _conn_probe(m):
    """a connectivity answer per vertex (sorted), None when the class has no handler / the query fails"""
    c = getattr(m, "connectivity", None)
    if c is None: return None
    try:
        if hasattr(c, "vertex_to_vertices"): return [sorted(int(u) for u in c.vertex_to_vertices(v)) for v in range(len(m.vertices))]
        return [sorted(int(u) for u in c.vertex_to_faces(v)) for v in range(len(m.vertices))]
    except Exception:  # noqa  (connectivity queries belong to C01/C03)
        return None


def _conn_state(meshes, i):
    """(handler points back at its own mesh, number of other meshes holding the same handler object)"""
    c = getattr(meshes[i], "connectivity", None)
    if c is None: return 1, 0
    own = 1 if getattr(c, "mesh", None) is meshes[i] else 0
    shared = sum(1 for j, m in enumerate(meshes) if j != i and getattr(m, "connectivity", None) is c)
    return own, shared


def _fmt_mesh(m, meshes=None, idx=None):
    E, F, C = _mesh_elements(m)
    cs = _coords(m)
    out = (f"{DIM.get(type(m).__name__, '?')} {len(cs)}" + "".join(" " + " ".join(_fr(x) for x in v) for v in cs)
           + f" E {_fmt_elts(E)} F {_fmt_elts(F)} C {_fmt_elts(C)}")
    if meshes is not None:
        rows = _attr_rows(m)
        w = "N" if rows is None else " ".join([str(len(rows))] + [" ".join(_fr(x) for x in r) for r in rows])
        own, shared = _conn_state(meshes, idx)
        out += f" W {w} K {own} {shared}"
    return out


def _apply(meshes, arrays, op):
    """apply one op to the real meshes; returns None or an error token"""
    import numpy as np
    import mouette as M
    from mouette.mesh.mesh import merge, copy
    T = M.transform
    k = op[0]
    try:
        if k == "new":
            m, arr = _build(op[1], op[2], op[3], op[4], op[5])
            meshes.append(m)
            if arr is not None: arrays.append((len(meshes) - 1, arr, arr.copy()))
        elif k == "copy": meshes.append(copy(meshes[op[1]], copy_attributes=bool(op[2])))
        elif k == "copyx":
            _conn_probe(meshes[op[1]])          # fill the lazy caches of the source
            meshes.append(copy(meshes[op[1]], copy_attributes=bool(op[2]), copy_connectivity=bool(op[3])))
        elif k == "cattr": meshes[op[1]].vertices.create_attribute("w", float, 3, dense=True)
        elif k == "sattr": meshes[op[1]].vertices.get_attribute("w")[op[2]] = [float(Fraction(x)) for x in op[3]]
        elif k == "eattr":
            r = meshes[op[1]].vertices.get_attribute("w")[op[2]]
            r[op[3]] = float(Fraction(op[4]))
        elif k == "merge": meshes.append(merge([meshes[i] for i in op[1]]))
        elif k == "translate": T.translate(meshes[op[1]], _vec(op[2]))
        elif k == "scale": T.scale(meshes[op[1]], float(Fraction(op[2])), None if op[3] is None else _vec(op[3]))
        elif k == "scalexyz":
            T.scale_xyz(meshes[op[1]], float(Fraction(op[2])), float(Fraction(op[3])), float(Fraction(op[4])),
                        None if op[5] is None else _vec(op[5]))
        elif k == "rotate":
            R = np.array([[float(Fraction(x)) for x in row] for row in op[2]])
            T.rotate(meshes[op[1]], R, None if op[3] is None else _vec(op[3]))
        elif k == "flatten": T.flatten(meshes[op[1]], op[2])
        elif k == "normalize": T.normalize(meshes[op[1]], center_at_zero=bool(op[2]))
        elif k == "toorigin": T.translate_to_origin(meshes[op[1]])
        elif k == "edit": meshes[op[1]].vertices[op[2]][op[3]] = float(Fraction(op[4]))
        else: raise ValueError(k)
    except Exception as e:  # noqa
        n = type(e).__name__
        return {"IndexError": "err:Index", "ValueError": "err:Value", "TypeError": "err:Type"}.get(n, f"err:Other({n})")
    return None


def impl_observe(case):
    if case["t"] != "script":
        try:
            m = _producers()[case["name"]]()
            if isinstance(m, tuple):
                m = next(x for x in m if hasattr(x, "vertices"))
            return f"producer:ok:{len(m.vertices)}"
        except Exception as e:  # noqa  (a producer that fails belongs to another property; counted in the distribution)
            return f"producer:skip({type(e).__name__})"
    meshes, arrays, recs = [], [], []
    for op in case["ops"]:
        err = _apply(meshes, arrays, op)
        st = " ".join([str(len(meshes))] + [_fmt_mesh(m, meshes, i) for i, m in enumerate(meshes)])
        recs.append((err + " " if err else "") + st)
    return " | ".join(recs)


# ------------------------------------------------------------------------------------------------
# model request / compare
# ------------------------------------------------------------------------------------------------
def _req_elts(l):
    return [str(len(l))] + [t for e in l for t in [str(len(e))] + [str(u) for u in e]]


def _req_opt(o):
    return ["N"] if o is None else list(o)


def model_request(case):
    if case["t"] != "script":
        return None
    toks = [str(len(case["ops"]))]
    for op in case["ops"]:
        k = op[0]
        if k == "new":
            toks += ["new", str(len(op[2]))] + [x for row in op[2] for x in row] + _req_elts(op[3]) + _req_elts(op[4]) + _req_elts(op[5])
        elif k == "copy": toks += ["copy", str(op[1])] if not op[2] else ["copyx", str(op[1]), "1", "0"]
        elif k == "copyx": toks += ["copyx", str(op[1]), "1" if op[2] else "0", "1" if op[3] else "0"]
        elif k == "cattr": toks += ["cattr", str(op[1])]
        elif k == "sattr": toks += ["sattr", str(op[1]), str(op[2])] + list(op[3])
        elif k == "eattr": toks += ["eattr", str(op[1]), str(op[2]), str(op[3]), op[4]]
        elif k == "merge": toks += ["merge", str(len(op[1]))] + [str(i) for i in op[1]]
        elif k == "translate": toks += ["translate", str(op[1])] + list(op[2])
        elif k == "scale": toks += ["scale", str(op[1]), op[2]] + _req_opt(op[3])
        elif k == "scalexyz": toks += ["scalexyz", str(op[1]), op[2], op[3], op[4]] + _req_opt(op[5])
        elif k == "rotate": toks += ["rotate", str(op[1])] + [x for row in op[2] for x in row] + _req_opt(op[3])
        elif k == "flatten": toks += ["flatten", str(op[1]), str(op[2])]
        elif k == "normalize": toks += ["normalize", str(op[1]), "1" if op[2] else "0"]
        elif k == "toorigin": toks += ["toorigin", str(op[1])]
        elif k == "edit": toks += ["edit", str(op[1]), str(op[2]), str(op[3]), op[4]]
    return " ".join(toks)


def _close(a, b, scale):
    return abs(a - b) <= 1e-9 * scale + 1e-12


def compare(case, model, impl):
    if case["t"] != "script":
        return None
    mr, ir = model.split(" | "), impl.split(" | ")
    if len(mr) != len(ir):
        return f"model rejected the request or record count differs: {model[:80]}"
    for step, (a, b) in enumerate(zip(mr, ir)):
        ta, tb = a.split(" "), b.split(" ")
        if len(ta) != len(tb):
            return f"step {step} ({case['ops'][step][0]}): shapes differ: model `{a[:120]}` impl `{b[:120]}`"
        nums = [abs(float(Fraction(x))) for x in ta if "/" in x or x.lstrip("-").isdigit()]
        scale = 1.0 + (max(nums) if nums else 0.0)
        for x, y in zip(ta, tb):
            if x == y: continue
            try:
                if _close(float(Fraction(x)), float(Fraction(y)), scale): continue
            except Exception:  # noqa
                pass
            return f"step {step} ({case['ops'][step][0]}): model {x} vs impl {y}: model `{a[:100]}` impl `{b[:100]}`"
    return None


# ------------------------------------------------------------------------------------------------
# oracle: the property stated directly on the implementation (shadow value semantics in exact arithmetic)
# ------------------------------------------------------------------------------------------------
def _shadow_apply(sh, op):
    """expected value semantics; sh = list of dicts {V (Fraction rows), E, F, C, dim}"""
    k = op[0]

    def mapv(i, f):
        sh[i] = dict(sh[i], V=[f(p) for p in sh[i]["V"]])
    if k == "new":
        V = [[_F(x) for x in row] for row in op[2]]
        E, F, C = op[3], op[4], op[5]
        sh.append({"V": V, "E": E, "F": F, "C": C, "dim": 3 if C else 2 if F else 1 if E else 0, "W": None})
    elif k in ("copy", "copyx"):
        src = sh[op[1]]
        c = {kk: (list(map(list, vv)) if isinstance(vv, list) else vv) for kk, vv in src.items()}
        c["W"] = [list(r) for r in src["W"]] if (op[2] and src.get("W") is not None) else None
        sh.append(c)
    elif k == "cattr":
        sh[op[1]] = dict(sh[op[1]], W=[[Fraction(0)] * 3 for _ in sh[op[1]]["V"]])
    elif k == "sattr":
        W = [list(r) for r in sh[op[1]]["W"]]; W[op[2]] = [_F(x) for x in op[3]]; sh[op[1]] = dict(sh[op[1]], W=W)
    elif k == "eattr":
        W = [list(r) for r in sh[op[1]]["W"]]; W[op[2]][op[3]] = _F(op[4]); sh[op[1]] = dict(sh[op[1]], W=W)
    elif k == "merge":
        V, E, F, C, off = [], [], [], [], 0
        for i in op[1]:
            m = sh[i]
            V += [list(p) for p in m["V"]]
            E += [[u + off for u in e] for e in m["E"]]; F += [[u + off for u in e] for e in m["F"]]
            C += [[u + off for u in e] for e in m["C"]]
            off += len(m["V"])
        sh.append({"V": V, "E": E, "F": F, "C": C, "dim": max(sh[i]["dim"] for i in op[1]), "W": None})
    elif k == "translate":
        t = [_F(x) for x in op[2]]; mapv(op[1], lambda p: [p[j] + t[j] for j in range(3)])
    elif k == "scale":
        s = _F(op[2]); o = [_F(x) for x in op[3]] if op[3] else [0, 0, 0]
        mapv(op[1], lambda p: [o[j] + s * (p[j] - o[j]) for j in range(3)])
    elif k == "scalexyz":
        f = [_F(op[2]), _F(op[3]), _F(op[4])]; o = [_F(x) for x in op[5]] if op[5] else list(sh[op[1]]["V"][0])
        mapv(op[1], lambda p: [o[j] + f[j] * (p[j] - o[j]) for j in range(3)])
    elif k == "rotate":
        R = [[_F(x) for x in row] for row in op[2]]; o = [_F(x) for x in op[3]] if op[3] else [0, 0, 0]
        mapv(op[1], lambda p: [o[i] + sum(R[i][j] * (p[j] - o[j]) for j in range(3)) for i in range(3)])
    elif k == "flatten":
        mapv(op[1], lambda p: [0 if j == op[2] else p[j] for j in range(3)])
    elif k == "normalize":
        V = sh[op[1]]["V"]
        lo = [min(p[j] for p in V) for j in range(3)]; hi = [max(p[j] for p in V) for j in range(3)]
        sc = 1 / max(hi[j] - lo[j] for j in range(3))
        if op[2]:
            c = [(lo[j] + hi[j]) / 2 for j in range(3)]; mapv(op[1], lambda p: [2 * sc * (p[j] - c[j]) for j in range(3)])
        else:
            mapv(op[1], lambda p: [sc * (p[j] - lo[j]) for j in range(3)])
    elif k == "toorigin":
        V = sh[op[1]]["V"]; b = [sum(p[j] for p in V) / len(V) for j in range(3)]
        mapv(op[1], lambda p: [p[j] - b[j] for j in range(3)])
    elif k == "edit":
        V = [list(p) for p in sh[op[1]]["V"]]; V[op[2]][op[3]] = _F(op[4]); sh[op[1]] = dict(sh[op[1]], V=V)


def _same_coords(real, want):
    if len(real) != len(want): return False
    scale = 1.0 + max([abs(float(x)) for p in want for x in p] + [0.0])
    return all(_close(float(a), float(b), scale) for p, q in zip(real, want) for a, b in zip(p, q))


def _alias_pairs(meshes, arrays):
    """pairs (mesh i, vertex a, mesh j / 'array', vertex b) whose coordinate storage shares memory"""
    import numpy as np
    ent = []
    for i, m in enumerate(meshes):
        for a, v in enumerate(m.vertices):
            if isinstance(v, np.ndarray): ent.append((i, a, v))
    out = []
    for x in range(len(ent)):
        for y in range(x + 1, len(ent)):
            if np.shares_memory(ent[x][2], ent[y][2]):
                out.append((ent[x][0], ent[x][1], ent[y][0], ent[y][1]))
    for (mi, arr, _) in arrays:
        for (i, a, v) in ent:
            if np.shares_memory(arr, v): out.append(("array", mi, i, a))
    # element rows (edges / faces / cells) are mutable state too when they are lists or arrays: a row object, or a whole
    # container, held by two meshes means that an in-place edit of one mesh's element changes the other mesh
    for cont in ("edges", "faces", "cells"):
        seen = {}
        for i, m in enumerate(meshes):
            if not hasattr(m, cont): continue
            c = getattr(m, cont)
            data = getattr(c, "_data", None)
            if data is not None:
                if id(data) in seen and seen[id(data)] != i: out.append((seen[id(data)], "elem:" + cont, i, "container"))
                seen.setdefault(id(data), i)
            for r in c:
                if isinstance(r, (list, np.ndarray)):
                    if id(r) in seen and seen[id(r)] != i: out.append((seen[id(r)], "elem:" + cont, i, "row"))
                    seen.setdefault(id(r), i)
    ats = [(i, m.vertices.get_attribute("w")._data) for i, m in enumerate(meshes) if m.vertices.has_attribute("w")]
    for x in range(len(ats)):
        for y in range(x + 1, len(ats)):
            if np.shares_memory(ats[x][1], ats[y][1]): out.append((ats[x][0], "attr", ats[y][0], "attr"))
    return out


def _oracle_script(case):
    out = []
    meshes, arrays, sh = [], [], []
    creator = {}          # mesh index -> op kind that produced it
    known_alias = set()

    def F(key, what, detail):
        out.append({"key": key, "what": what, "detail": detail})
    for step, op in enumerate(case["ops"]):
        k = op[0]
        tag = k + ("/" + op[1] if k == "new" else "")
        err = _apply(meshes, arrays, op)
        if err:
            dt = ""
            if k not in ("new", "copy", "merge", "copyx"):
                v0 = meshes[op[1]].vertices[0]
                dt = "/" + str(getattr(v0, "dtype", type(v0).__name__))
            F(f"C06/{tag}/raises({err}){dt}", f"`{k}` raised {err}", f"step {step}: {op}")
            return out
        _shadow_apply(sh, op)
        if k in ("new", "copy", "merge", "copyx"):
            creator[len(meshes) - 1] = tag
            m, want = meshes[-1], sh[-1]
            E, Fc, C = _mesh_elements(m)
            if DIM.get(type(m).__name__) != want["dim"]:
                F(f"C06/{k}/class", f"`{k}` returned a {type(m).__name__}, expected dimension {want['dim']}", f"step {step}"); return out
            if (E, Fc, C) != (want["E"], want["F"], want["C"]):
                F(f"C06/{k}/elements", f"`{k}`: elements are not the (shifted) elements of the input(s)",
                  f"step {step}: got E={E} F={Fc} C={C}, expected E={want['E']} F={want['F']} C={want['C']}"); return out
        # every mesh must hold exactly its expected coordinates: the target moved once by the requested map, nobody else moved
        for i, m in enumerate(meshes):
            if not _same_coords(_coords(m), sh[i]["V"]):
                if k in ("new", "copy", "merge", "copyx"):
                    kind_ = "result-differs" if i == len(meshes) - 1 else "moved-other-mesh"
                else:
                    kind_ = "wrong-coords" if i == op[1] else "moved-other-mesh"
                F(f"C06/{tag if k != 'new' else 'new'}/{kind_}", f"after `{k}` mesh #{i} (made by {creator.get(i)}) does not hold the expected coordinates",
                  f"step {step} op {op}: mesh #{i} = {[[_fr(x) for x in p] for p in _coords(m)][:6]}, expected {[[_fr(x) for x in p] for p in sh[i]['V']][:6]}")
                return out
        # attributes: every mesh holds exactly its expected attribute rows (copies carry them iff copy_attributes)
        for i, m in enumerate(meshes):
            rows, want = _attr_rows(m), sh[i].get("W")
            if (rows is None) != (want is None):
                F(f"C06/{k}/attribute-presence", f"after `{k}` mesh #{i}: attribute 'w' {'missing' if rows is None else 'present'}, expected the opposite",
                  f"step {step} op {op}"); return out
            if rows is not None and not _same_coords(rows, want):
                kind_ = "attribute-differs" if (k in ("copyx", "copy") and i == len(meshes) - 1) or (k in ("sattr", "eattr", "cattr") and i == op[1]) else "attribute-of-other-mesh-changed"
                F(f"C06/{k}/{kind_}", f"after `{k}` the attribute rows of mesh #{i} (made by {creator.get(i)}) are not the expected ones",
                  f"step {step} op {op}: {[[_fr(x) for x in r] for r in rows][:4]} expected {[[_fr(x) for x in r] for r in want][:4]}"); return out
        # connectivity handlers: every mesh owns its handler, which points back at that mesh, and answers for that mesh
        for i, m in enumerate(meshes):
            own, shared = _conn_state(meshes, i)
            c_i = getattr(m, "connectivity", None)
            shared = sum(1 for j in range(i) if c_i is not None and getattr(meshes[j], "connectivity", None) is c_i)   # blame the later mesh
            if shared or not own:
                key = f"C06/alias/{creator.get(i)}/connectivity"
                if not any(f["key"] == key for f in out):
                    F(key, f"a mesh made by `{creator.get(i)}` shares its connectivity handler with another mesh / the handler points at another mesh",
                      f"step {step}: mesh #{i}: handler.mesh is own mesh = {bool(own)}, {shared} other mesh(es) hold the same handler object")
        if k == "copyx":
            got = _conn_probe(meshes[-1])
            if got is not None:
                nvs = len(sh[-1]["V"])
                if hasattr(meshes[-1].connectivity, "vertex_to_vertices"):
                    want = [sorted({e[1 - j] for e in sh[-1]["E"] for j in (0, 1) if e[j] == v}) for v in range(nvs)]
                else:
                    want = [sorted(fi for fi, f in enumerate(sh[-1]["F"]) if v in f) for v in range(nvs)]
                if got != want:
                    F("C06/copyx/connectivity-answers", "the connectivity of the copy does not answer for the copy's elements",
                      f"step {step} op {op}: {got} expected {want}"); return out
        for (mi, arr, orig) in arrays:
            import numpy as np
            if not np.array_equal(arr, orig):
                F(f"C06/{k}/caller-array-changed", f"`{k}` changed the array the caller passed to from_arrays", f"step {step} op {op}: mesh #{mi}")
                return out
        # shared mutable state between vertex entries
        for p in _alias_pairs(meshes, arrays):
            if p in known_alias: continue
            known_alias.add(p)
            if p[0] == "array":
                key = f"C06/alias/{creator.get(p[2])}/caller-array"
                if not any(f["key"] == key for f in out):
                    F(key, "a mesh built by from_arrays keeps views of the caller's array",
                      f"step {step}: mesh #{p[2]} vertex {p[3]} shares memory with the array passed in")
                continue
            who = creator.get(p[2])
            if isinstance(p[1], str) and p[1].startswith("elem:"):
                key = f"C06/alias/{who}/elements"
                if not any(f["key"] == key for f in out):
                    F(key, f"a mesh made by `{who}` shares mutable element rows ({p[1][5:]}) with another mesh",
                      f"step {step}: mesh #{p[0]} and mesh #{p[2]} hold the same {p[3]} object")
                continue
            rel = "itself" if p[0] == p[2] else "input"
            key = f"C06/alias/{who}/{rel}"
            if not any(f["key"] == key for f in out):
                F(key, f"a mesh made by `{who}` shares coordinate storage with {rel}",
                  f"step {step}: mesh #{p[0]} vertex {p[1]} and mesh #{p[2]} vertex {p[3]} share memory")
    return out


# ---- producers (monitoring) ------------------------------------------------------------------
def _producers():
    import numpy as np
    import mouette as M
    P = M.procedural
    V = M.Vec

    def tri(): return P.triangle(V(0., 0., 0.), V(1., 0., 0.), V(0., 1., 0.))
    def grid(): return P.unit_grid(3, 4, triangulate=True)
    def tet(vol=False): return P.tetrahedron(V(0., 0., 0.), V(1., 0., 0.), V(0., 1., 0.), V(0., 0., 1.), volume=vol)

    def saveload(ext, mk):
        def f():
            with tempfile.TemporaryDirectory(prefix="c06_") as d:
                p = os.path.join(d, "m." + ext)
                M.mesh.save(mk(), p)
                return M.mesh.load(p)
        return f
    prods = {
        "ring-open": lambda: P.ring(5, 0.3, open=True), "ring-closed": lambda: P.ring(5, 0.3, open=False),
        "ring-open-2cover": lambda: P.ring(4, 0.2, open=True, n_cover=2),
        "flat_ring": lambda: P.flat_ring(6, 0.4),
        "triangle": tri, "quad": lambda: P.quad(V(0., 0., 0.), V(1., 0., 0.), V(0., 1., 0.)),
        "unit_grid": grid, "unit_triangle": lambda: P.unit_triangle(3, 3),
        "tetrahedron": tet, "tetrahedron-volume": lambda: tet(True),
        "axis_aligned_cube": lambda: P.axis_aligned_cube(), "axis_aligned_cube-tri": lambda: P.axis_aligned_cube(triangulate=True),
        "hexahedron_4pts": lambda: P.hexahedron_4pts(V(0., 0., 0.), V(1., 0., 0.), V(0., 1., 0.), V(0., 0., 1.)),
        "octahedron": P.octahedron, "icosahedron": P.icosahedron, "dodecahedron": P.dodecahedron,
        "cylinder": lambda: P.cylinder(V(0., 0., 0.), V(0., 0., 2.), radius=0.5, N=6),
        "torus": lambda: P.torus(6, 5, 1., 0.3), "sphere_uv": lambda: P.sphere_uv(4, 5), "icosphere": lambda: P.icosphere(1),
        "sphere_fibonacci": lambda: P.sphere_fibonacci(12),
        "chain_of_vertices": lambda: P.chain_of_vertices(np.array([[0., 0., 0.], [1., 0., 0.], [1., 1., 0.]]), loop=True),
        "vector_field": lambda: P.vector_field(np.array([[0., 0., 0.], [1., 0., 0.]]), np.array([[0., 0., 1.], [0., 1., 0.]])),
        "dual_mesh": lambda: P.dual_mesh(grid()),
        "boundary_of_surface": lambda: M.processing.extract_boundary_of_surface(grid()),
        "boundary_of_volume": lambda: M.processing.extract_boundary_of_volume(tet(True)),
        "merge(grid,grid)": lambda: (lambda g: M.mesh.merge([g, g]))(grid()),
        "copy(grid)": lambda: M.mesh.copy(grid()),
        "from_arrays": lambda: M.mesh.from_arrays(np.array([[0., 0., 0.], [1., 0., 0.], [0., 1., 0.]]), F=np.array([[0, 1, 2]])),
    }
    for ext in ("obj", "mesh", "off", "stl", "ply", "geogram_ascii"):
        prods["load-" + ext] = saveload(ext, tri)
    for ext in ("mesh", "tet"):
        prods["load-volume-" + ext] = saveload(ext, lambda: tet(True))
    return prods


PRODUCER_NAMES = ["ring-open", "ring-closed", "ring-open-2cover", "flat_ring", "triangle", "quad", "unit_grid", "unit_triangle",
                  "tetrahedron", "tetrahedron-volume", "axis_aligned_cube", "axis_aligned_cube-tri", "hexahedron_4pts", "octahedron",
                  "icosahedron", "dodecahedron", "cylinder", "torus", "sphere_uv", "icosphere", "sphere_fibonacci",
                  "chain_of_vertices", "vector_field", "dual_mesh", "boundary_of_surface", "boundary_of_volume",
                  "merge(grid,grid)", "copy(grid)", "from_arrays", "load-obj", "load-mesh", "load-off", "load-stl", "load-ply",
                  "load-geogram_ascii", "load-volume-mesh", "load-volume-tet"]


def _oracle_producer(case):
    import numpy as np
    import mouette as M
    name = case["name"]
    try:
        m = _producers()[name]()
        if isinstance(m, tuple):
            m = next(x for x in m if hasattr(x, "vertices"))
    except Exception as e:  # noqa  (a producer that fails belongs to another property)
        return []
    out = []
    ent = [(a, v) for a, v in enumerate(m.vertices) if isinstance(v, np.ndarray)]
    for x in range(len(ent)):
        for y in range(x + 1, len(ent)):
            if np.shares_memory(ent[x][1], ent[y][1]):
                out.append({"key": f"C06/alias/producer/{name}", "what": f"producer `{name}` stores one coordinate vector under two vertex ids",
                            "detail": f"vertices {ent[x][0]} and {ent[y][0]} share memory"})
                return out
    before = [[float(x) for x in v] for v in m.vertices]
    t = [float(Fraction(x)) for x in case["tr"]]
    try:
        M.transform.translate(m, M.Vec(*t))
    except Exception as e:  # noqa
        v0 = m.vertices[0]
        out.append({"key": f"C06/translate/raises(err:Other({type(e).__name__}))/{getattr(v0, 'dtype', '')}",
                    "what": f"translate raised on the output of `{name}`", "detail": str(e)[:200]})
        return out
    for a, (p, v) in enumerate(zip(before, m.vertices)):
        if any(abs(float(v[j]) - (p[j] + t[j])) > 1e-9 * (1 + abs(p[j]) + abs(t[j])) for j in range(3)):
            out.append({"key": f"C06/translate/wrong-coords/producer/{name}", "what": f"translate does not move every vertex of `{name}` exactly once",
                        "detail": f"vertex {a}: {p} + {t} -> {[float(x) for x in v]}"})
            return out
    return out


def oracle(case):
    return _oracle_script(case) if case["t"] == "script" else _oracle_producer(case)


# ------------------------------------------------------------------------------------------------
# generators
# ------------------------------------------------------------------------------------------------
def _dy(rng, lo=-16, hi=16, den=4):
    return _fr(Fraction(rng.randint(lo, hi), den))


def _base_mesh(rng):
    return _base_mesh_kind(rng, rng.choice(["points", "polyline", "polyline", "surface", "surface", "surface", "volume"]))


def _base_mesh_kind(rng, kind):
    """small base mesh; element lists canonicalised by the library (prepared form)"""
    integer = rng.random() < 0.2
    if kind == "points": nv, E, F, C = rng.randint(1, 4), [], [], []
    elif kind == "polyline":
        nv = rng.randint(2, 5); E = [[i, i + 1] for i in range(nv - 1)] + ([[0, nv - 1]] if nv > 2 and rng.random() < 0.4 else []); F, C = [], []
    elif kind == "surface":
        r = rng.random()
        if r < 0.4: nv, F = 3, [[0, 1, 2]]
        elif r < 0.7: nv, F = 4, [[0, 1, 2], [1, 3, 2]]
        elif r < 0.85: nv, F = 4, [[0, 1, 3, 2]]
        else: nv, F = 5, [[0, 1, 2], [1, 3, 2], [2, 3, 4]]
        E, C = [], []
    else:
        if rng.random() < 0.6: nv, C = 4, [[0, 1, 2, 3]]
        else: nv, C = 5, [[0, 1, 2, 3], [1, 2, 3, 4]]
        E, F = [], []
    seen, V = set(), []
    while len(V) < nv:
        p = tuple(str(rng.randint(-4, 4)) if integer else _dy(rng) for _ in range(3))
        if p not in seen:
            seen.add(p); V.append(list(p))
    via = rng.choice(["raw_int", "from_arrays_int"] if integer else ["raw", "raw", "from_arrays"])
    m, _ = _build("raw", V, E, F, C)          # canonical (prepared) element lists
    E, F, C = _mesh_elements(m)
    return ["new", via, V, E, F, C]


def _rotation(rng):
    R = [[Fraction(1 if i == j else 0) for j in range(3)] for i in range(3)]
    for _ in range(rng.randint(1, 2)):
        A = [[Fraction(x) for x in row] for row in rng.choice(ROT_ATOMS)]
        if rng.random() < 0.5: A = [list(r) for r in zip(*A)]
        R = _matmul(A, R)
    return R


def _script(rng, maxops):
    ops, nv, flat = [], [], []      # nv[i] = vertex count; flat[i] = bbox may be degenerate in some direction (fine) / point
    n_ops = rng.randint(3, maxops)
    has_w, kinds, pending_now = [], [], []

    def add_base(force=None):
        b = _base_mesh(rng) if force is None else _base_mesh_kind(rng, force)
        ops.append(b); nv.append(len(b[2])); has_w.append(False)
        kinds.append(3 if b[5] else 2 if b[4] else 1 if b[3] else 0)
    if rng.random() < 0.25:
        add_base(force="points"); add_base(force=rng.choice(["polyline", "surface", "volume"]))
        ops.append(["merge", [0, 1] + ([0] if rng.random() < 0.3 else [])])
        nv.append(sum(nv[j] for j in ops[-1][1])); has_w.append(False); kinds.append(kinds[1])
    else:
        add_base()
    pending = []                      # inverse ops queued for round trips

    def opt_orig():
        return None if rng.random() < 0.5 else [_dy(rng, -8, 8) for _ in range(3)]
    while len(ops) < n_ops:
        r = rng.random()
        i = rng.randrange(len(nv))
        if pending_now:
            ops.append(pending_now.pop()); continue
        if pending and rng.random() < 0.6:
            ops.append(pending.pop()); continue
        if rng.random() < 0.12:
            # vertex attribute "w": create / write / update a row in place
            if not has_w[i]:
                ops.append(["cattr", i]); has_w[i] = True
                pending_now.append(["sattr", i, rng.randrange(nv[i]), [_dy(rng) for _ in range(3)]])
            elif rng.random() < 0.4: ops.append(["sattr", i, rng.randrange(nv[i]), [_dy(rng) for _ in range(3)]])
            else: ops.append(["eattr", i, rng.randrange(nv[i]), rng.randrange(3), _dy(rng)])
            continue
        if r < 0.10 and len(nv) < 5:
            add_base(force="points" if rng.random() < 0.3 else None)
        elif r < 0.22 and len(nv) < 5:
            if rng.random() < 0.7:
                ops.append(["copyx", i, rng.random() < 0.5, rng.random() < 0.6]); has_w.append(has_w[i] and ops[-1][2])
            else:
                ops.append(["copy", i, False]); has_w.append(False)
            nv.append(nv[i]); kinds.append(kinds[i])
            if has_w[-1] and rng.random() < 0.7:        # ... then edit the copy's (or the source's) attribute
                tgt = rng.choice([len(nv) - 1, i])
                pending_now.append(["eattr", tgt, rng.randrange(nv[tgt]), rng.randrange(3), _dy(rng)])
        elif r < 0.40 and len(nv) < 5:
            ids = [rng.randrange(len(nv)) for _ in range(rng.randint(1, 3))]
            if rng.random() < 0.35: ids.append(ids[0])
            pcs = [j for j in range(len(nv)) if kinds[j] == 0]
            if pcs and rng.random() < 0.5:      # mixed kinds: a point cloud FIRST, its vertices must count in the running offset
                ids = [rng.choice(pcs)] + [j for j in ids if kinds[j] != 0][:2]
            if sum(nv[j] for j in ids) <= 14:
                ops.append(["merge", ids]); nv.append(sum(nv[j] for j in ids)); has_w.append(False)
                kinds.append(max(kinds[j] for j in ids))
        elif r < 0.58:
            t = [_dy(rng, -8, 8) for _ in range(3)]
            ops.append(["translate", i, t])
            if rng.random() < 0.4: pending.append(["translate", i, [_fr(-Fraction(x)) for x in t]])
        elif r < 0.68:
            s = rng.choice(["2", "1/2", "-1", "3", "1/4", "-2", "3/2"]); o = opt_orig()
            ops.append(["scale", i, s, o])
            if rng.random() < 0.4: pending.append(["scale", i, _fr(1 / Fraction(s)), o])
        elif r < 0.74:
            ops.append(["scalexyz", i, rng.choice(["2", "1/2", "-1"]), rng.choice(["1", "3", "1/2"]), rng.choice(["1", "-2", "1/4"]), opt_orig()])
        elif r < 0.84:
            R = _rotation(rng); o = opt_orig()
            ops.append(["rotate", i, [[_fr(x) for x in row] for row in R], o])
            if rng.random() < 0.4: pending.append(["rotate", i, [[_fr(x) for x in row] for row in zip(*R)], o])
        elif r < 0.89: ops.append(["flatten", i, rng.randrange(3)])
        elif r < 0.93: ops.append(["toorigin", i])
        elif r < 0.97: ops.append(["edit", i, rng.randrange(nv[i]), rng.randrange(3), str(rng.randint(-4, 4))])   # integer: valid for int dtype too
        else: ops.append(["normalize", i, rng.random() < 0.5])
    case = {"t": "script", "ops": ops}
    return _drop_degenerate_normalize(case)


def _drop_degenerate_normalize(case):
    """normalize is specified for non-degenerate boxes only: drop it where the shadow box is a point"""
    sh, ops = [], []
    for op in case["ops"]:
        if op[0] == "normalize":
            V = sh[op[1]]["V"]
            if max(max(p[j] for p in V) - min(p[j] for p in V) for j in range(3)) == 0:
                continue
        _shadow_apply(sh, op); ops.append(op)
    return dict(case, ops=ops)


def cases(rng, tier):
    n, maxops = (1500, 9) if tier == "quick" else (6000, 16)
    for name in PRODUCER_NAMES:
        yield {"t": "producer", "name": name, "tr": [_dy(rng, 1, 8), _dy(rng, -8, 8), _dy(rng, -8, 8)]}
    for _ in range(n):
        yield _script(rng, maxops)


def search_on_break(rng, broken, mismatches):
    for _ in range(800):
        yield _script(rng, 10)


def nontrivial(case, obs):
    if case["t"] != "script": return False
    seen = False
    for op in case["ops"]:
        if op[0] in ("copy", "merge", "copyx"): seen = True
        elif seen and op[0] != "new": return True
    return False


def classify(case, obs):
    if case["t"] != "script": return ["producer:" + case["name"] + (":skipped" if "skip" in obs else "")]
    ks = ["op:" + op[0] + ("/" + op[1] if op[0] == "new" else "") for op in case["ops"]]
    ks += ["merge:repeated-input" for op in case["ops"] if op[0] == "merge" and len(set(op[1])) < len(op[1])]
    dims, sh = [], []
    for op in case["ops"]:
        if op[0] == "new": dims.append(3 if op[5] else 2 if op[4] else 1 if op[3] else 0)
        elif op[0] in ("copy", "copyx"): dims.append(dims[op[1]])
        elif op[0] == "merge":
            if len(op[1]) > 1 and dims[op[1][0]] == 0 and any(dims[j] > 0 for j in op[1][1:]): ks.append("merge:pointcloud-first-mixed")
            if len({dims[j] for j in op[1]}) > 1: ks.append("merge:mixed-kinds")
            dims.append(max(dims[j] for j in op[1]))
        if op[0] == "copyx": ks.append(f"copyx:attrs={int(bool(op[2]))}/conn={int(bool(op[3]))}")
        if op[0] == "rotate" and op[3] is not None: ks.append("rotate:origin!=0")
        if op[0] == "scalexyz" and any(str(f).startswith("-") for f in op[2:5]): ks.append("scalexyz:negative-factor")
    ks += ["err" for r in obs.split(" | ") if r.startswith("err")]
    ks.append(f"meshes:{sum(1 for op in case['ops'] if op[0] in ('new', 'copy', 'merge', 'copyx'))}")
    return ks


def describe(case):
    return case


def shrink(case, still):
    if case["t"] != "script": return case
    ops = list(case["ops"])

    def valid(ops):
        n, w = 0, []
        for op in ops:
            if op[0] == "new": n += 1; w.append(False); continue
            ids = op[1] if op[0] == "merge" else [op[1]]
            if any(i >= n for i in ids): return False
            if op[0] in ("copy", "merge", "copyx"): n += 1; w.append(op[0] != "merge" and bool(op[2]) and w[op[1]])
            if op[0] == "cattr": w[op[1]] = True
            if op[0] in ("sattr", "eattr") and not w[op[1]]: return False
        return True
    i = len(ops) - 1
    while i >= 0:
        trial = ops[:i] + ops[i + 1:]
        if valid(trial) and trial and still(dict(case, ops=trial)): ops = trial
        i -= 1
    return dict(case, ops=ops)


MANIFEST = {
    "level_text": ("Proof. Lean 4 theorems about an executable heap model of meshes (vertex ids -> references to Rat^3 cells; rebinding "
                   "vs in-place update): copy yields equal coordinates/elements in fresh cells; merge is the concatenation of the inputs' "
                   "coordinates in fresh cells with elements shifted by the running vertex count (indices stay inside their block), also "
                   "when an input is repeated; every rebinding transform (translate, scale, scale_xyz, rotate) maps the target's "
                   "coordinates exactly once by the requested map and leaves every other mesh unchanged for ANY state; in-place edits "
                   "(flatten, vertex edits) do so under the alias-freedom invariant, which every operation sequence preserves; "
                   "translate/scale/rotate round trips are identities over Rat; normalize leaves a non-degenerate box centred with largest extent 2, or anchored at 0 with largest extent 1. The pre-repair merge/translate are kept as legacy "
                   "definitions and their aliasing is refuted on a witness. The model is tied to mesh.py/transform.py by a whole-state "
                   "correspondence (every mesh observed after every operation) and a shadow-value oracle; library producers are monitored."),
    "level_note": ("Trusted: Lean kernel + standard axioms; hand-written model (checked against the code on the histories of each run); "
                   "float rounding bridged by tolerance; scipy Rotation; producers are monitored, not modelled."),
    "technique": "Lean 4 heap-model invariant proof (alias freedom) + algebraic round trips over Rat; differential whole-state correspondence",
}
