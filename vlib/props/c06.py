"""C06 — meshes have value semantics: copy, merge and transforms never alias.

Two kinds of cases:
  {"t": "script", "ops": [...]}    a history of producers / copy / merge / transforms / in-place edits over a growing
                                   list of meshes; EVERY mesh (and every caller array) is observed after EVERY op
  {"t": "producer", "name", "args", "tr"}   monitoring of one library producer (labelled monitoring, not proof):
                                   no two vertex entries share memory, translate moves every vertex exactly once

script ops (JSON):
  ["new", via, V, E, F, C]   via in raw | raw_int | from_arrays | from_arrays_int ; V rows of "p/q" strings;
                             E/F/C are the element lists of the PREPARED mesh (canonicalised by the library at generation
                             time: C02 owns `prepare`), so that the model needs no model of `prepare`
  ["copy", i, attrs] ["merge", [ids]] ["translate", i, t] ["scale", i, k, o|None] ["scalexyz", i, fx, fy, fz, o|None]
  ["rotate", i, R(9), o|None] ["flatten", i, dim] ["normalize", i, centered] ["toorigin", i] ["edit", i, v, c, x]
  round 2:  ["copyx", i, copy_attributes, copy_connectivity]   (connectivity of the source is queried first, so caches exist)
            ["cattr", i]  vertices.create_attribute("w", float, 3, dense=True)     ["sattr", i, v, [x,y,z]]  a[v] = [x,y,z]
            ["eattr", i, v, c, x]   r = a[v]; r[c] = x   (row view: writes through)
"""
import os, tempfile
from fractions import Fraction

PID = "C06"
TITLE = "Meshes have value semantics: copy, merge and transforms never alias"
LEAN_MODULES = ["Mouette.Props.C06", "Mouette.Props.C06Source"]
REQUIRED_THEOREMS = [
    "copy_equal_disjoint", "merge_is_disjoint_union", "merge_indices_in_block", "transform_exact", "inplace_exact",
    "alias_free_run", "translate_round_trip", "scale_round_trip", "rotate_round_trip", "legacy_merge_aliases", "normalize_bbox",
    # round 2
    "copy_switches", "copy_isolated", "conn_own_run", "legacy_copy_shares_connectivity", "merge_pointcloud_first",
    "rotate_about_origin", "scale_xyz_round_trip", "scale_xyz_default_origin", "wfx_run",
    # round 3: translated fragments of transform.py / merge, histories on one object
    "gen_translate_eq", "gen_scale_eq", "gen_rotate_eq", "gen_scaleXyz_eq", "gen_normalize_eq", "gen_merge_eq",
    "transform_twice", "copy_of_copy", "merge_with_own_copy",
    # round 4: bridges from the function BODIES translated imperatively from the working tree (Generated/C06Src.lean), and the
    # headline theorems restated about the translated definitions
    "translate_bridge", "scale_bridge", "rotate_bridge", "scaleXyz_bridge", "scaleXyz_default_bridge", "flatten_bridge",
    "normalize_bridge", "fitIntoUnitCube_bridge", "translateToOrigin_bridge", "mergeBody_bridge", "mergeRun_bridge",
    "copy_bridge", "src_copy_switches", "fromArrays_bridge", "fromArrays_alias_free", "reorder_spec", "reorder_then_translate_isolated",
    # round 7: raw data / typed meshes / loaders / rings, and ALL translated producers at once
    "instanciateRaw_shares", "prepareVertices_float3", "prepareVertices_all_new", "merge_drops_attributes",
    "rawInit_bridge", "instanciateRaw_bridge", "load_bridge", "ring_bridge", "newMesh_fresh", "producers_world", "src_translate_round_trip", "src_scale_round_trip", "src_rotate_round_trip", "src_normalize_bbox", "src_transforms_alias_free",
]
TRUSTED = [
    "Lean 4.33.0 kernel; axioms ⊆ {propext, Classical.choice, Quot.sound}",
    "hand-written model Mouette/Model/MeshHeap.lean (heap of Rat^3 cells, meshes = lists of references; rebinding vs in-place "
    "update) tied to mesh.py copy/merge and geometry/transform.py by the whole-state correspondence of this run: every mesh "
    "is observed after every operation; [round 4] translator vlib/gen/c06_translate.py: the BODIES of translate, rotate, scale, "
    "scale_xyz, flatten, normalize, fit_into_unit_cube, translate_to_origin and the loop of merge are compiled statement by "
    "statement into Generated/C06Src.lean over the vocabulary Model/MeshSource.lean (rebinding `mesh.vertices[i] = e` vs in-place "
    "`mesh.vertices[i][c] = x`, loops as folds over id_vertices) and proved equal to the model's operations (Props/C06Source.lean); "
    "[round 5] copy is compiled into statement tables (one row per `copy_mesh.<path> = f(mesh.<path>)`, per branch) whose meaning in the "
    "model is `copyByTables` (Model/MeshSource.lean), bridged to copyX; flatten follows the repaired (rebinding) code; [round 6] from_arrays and reorder_vertices are compiled statement "
    "by statement (fromArrays_bridge: fresh cells; reorder_spec: the result lists the STORED vector objects of its input); [round 7] "
    "RawMeshData.__init__ (re-wrap SHARES the containers), _compute_dimensionality, Mesh.__init__ (datatypes/base.py), "
    "_instanciate_raw_mesh_data and load are compiled too; ring / flat_ring as tables of vertex-store sites with the provenance of the "
    "stored object (the trigonometry is not modelled); producers_world: every translated producer returns a mesh sharing no vector "
    "with any existing one, or exactly the vectors of its input (reorder_vertices, re-wrap)",
    "floating point: coordinates compared to the exact rational answer with |impl - exact| <= 1e-9*scale + 1e-12 (2e-6*scale when binary32 vertex arrays or parameters are involved); "
    "scipy Rotation.from_matrix on rational orthogonal matrices is trusted to apply that matrix",
    "numpy view/copy rules observed from outside (np.shares_memory, values of every mesh after every op)",
    "element lists of base meshes are those of the prepared mesh (prepare belongs to C02)",
]
ASSUMPTIONS = [
    "agreement model/implementation is established on the histories explored in this run only",
    "producers (procedural generators, loaders, boundary extraction) are monitored for alias-freedom, not modelled",
    "normalize is only exercised on meshes whose bounding box is not a point",
]
RULE = ("[round 6: surfaces with a few DECLARED edges next to the ones `prepare` completes (the edge ids of a merge must still be the "
        "shifted ids of its inputs); reorder_vertices driven as a producer and as a derived mesh] [round 5: derived meshes (boundary extraction, procedural.triangle) are also flattened first thing after creation and their "
        "source must not move] [round 4: `fit_into_unit_cube` driven as well as `normalize(.., False)`; a transform that produces non-finite coordinates is "
        "reported as wrong coordinates] [round 3: parameters offered as int / float Vec, tuples, lists, numpy int32/int64/float32 arrays and numpy scalars, a "
        "vertex OBJECT of the mesh itself as translation vector / origin, rotations as matrix / scipy Rotation / Euler quarter "
        "turns (list, tuple); vertex arrays float32 / int32 / Fortran-ordered / strided / read-only / tuples / ndarray rows; the same "
        "transform twice, copies of copies, merge of a mesh with its own copy / with itself; parameter objects compared by value "
        "after the call] [round 2: copy with copy_attributes / copy_connectivity switches on meshes carrying a vertex attribute (then edited on "
        "either side), merges of mixed kinds with a point cloud first, rotations about origins != 0, scale_xyz with negative "
        "factors; attribute rows and connectivity-handler identity observed for every mesh after every op] random histories (<= 9 ops quick / <= 16 thorough) over up to 5 small meshes (point clouds, polylines, triangle/quad "
        "surfaces, tets; float/int dtype; raw lists or from_arrays): copy, merge (with repeated inputs), translate, scale, "
        "scale_xyz, rotate (rational orthogonal matrices), flatten, normalize, translate_to_origin, in-place vertex edits, "
        "round trips weighted in; all meshes and caller arrays observed after every op; non-trivial = distinct history with "
        ">= 1 copy/merge and >= 1 transform/edit applied after it; plus one monitoring case per library producer")

# ------------------------------------------------------------------------------------------------
def _fr(x):
    f = Fraction(x)
    return str(f.numerator) if f.denominator == 1 else f"{f.numerator}/{f.denominator}"


def _F(s):
    return Fraction(s)


def _vec(t):
    import mouette as M
    return M.Vec(*[float(Fraction(x)) for x in t])


def _opt(op):
    """optional trailing dict of an op: how the parameters are REPRESENTED when handed to the library (round 3)"""
    return op[-1] if isinstance(op[-1], dict) else {}


def _integral(t):
    return all(Fraction(x).denominator == 1 for x in t)


def _mkvec(t, rep, mesh=None):
    """a 3-vector parameter in the requested representation (values are always those of `t`)"""
    import numpy as np
    import mouette as M
    vals = [Fraction(x) for x in t]
    ints = all(v.denominator == 1 for v in vals)
    if rep and rep.startswith("vertex:"): return mesh.vertices[int(rep.split(":")[1])]      # the stored object itself
    if rep == "ivec" and ints: return M.Vec(*[int(v) for v in vals])
    if rep == "nd_int" and ints: return np.array([int(v) for v in vals], dtype=np.int64)
    if rep == "nd_i32" and ints: return np.array([int(v) for v in vals], dtype=np.int32)
    if rep == "nd_f32" and all(Fraction(float(np.float32(float(v)))) == v for v in vals):      # only when exact in binary32
        return np.array([float(v) for v in vals], dtype=np.float32)
    if rep == "nd": return np.array([float(v) for v in vals])
    if rep == "tuple": return tuple(int(v) if ints else float(v) for v in vals)
    if rep == "list": return [int(v) if ints else float(v) for v in vals]
    return M.Vec(*[float(v) for v in vals])


def _mkscalar(x, rep):
    import numpy as np
    f = Fraction(x)
    if rep == "int" and f.denominator == 1: return int(f)
    if rep == "np_int" and f.denominator == 1: return np.int64(int(f))
    if rep == "np_i32" and f.denominator == 1: return np.int32(int(f))
    if rep == "np_f32" and Fraction(float(np.float32(float(f)))) == f: return np.float32(float(f))
    if rep == "np_f64": return np.float64(float(f))
    return float(f)


def _quarter(axis, q):
    c, s_ = [(1, 0), (0, 1), (-1, 0), (0, -1)][q % 4]
    if axis == 0: return [[1, 0, 0], [0, c, -s_], [0, s_, c]]
    if axis == 1: return [[c, 0, s_], [0, 1, 0], [-s_, 0, c]]
    return [[c, -s_, 0], [s_, c, 0], [0, 0, 1]]


def _euler_matrix(q):
    """scipy `from_euler("xyz", angles)` (extrinsic x, then y, then z) for quarter turns: Rz . Ry . Rx, exactly"""
    return _matmul(_quarter(2, q[2]), _matmul(_quarter(1, q[1]), _quarter(0, q[0])))


def _snap(obj):
    import numpy as np
    try: return np.array(obj, dtype=float).copy()
    except Exception: return None  # noqa


class _ParamChanged(Exception):
    pass


ROT_ATOMS = [  # rational orthogonal matrices with det +1
    [["3/5", "-4/5", "0"], ["4/5", "3/5", "0"], ["0", "0", "1"]],
    [["1", "0", "0"], ["0", "5/13", "-12/13"], ["0", "12/13", "5/13"]],
    [["8/17", "0", "15/17"], ["0", "1", "0"], ["-15/17", "0", "8/17"]],
    [["0", "-1", "0"], ["1", "0", "0"], ["0", "0", "1"]],
    [["0", "0", "1"], ["1", "0", "0"], ["0", "1", "0"]],
    [["1", "0", "0"], ["0", "-1", "0"], ["0", "0", "-1"]],
]


def _matmul(A, B):
    return [[sum(A[i][k] * B[k][j] for k in range(3)) for j in range(3)] for i in range(3)]


# ------------------------------------------------------------------------------------------------
# building and observing real meshes
# ------------------------------------------------------------------------------------------------
def _build(via, V, E, F, C):
    """returns (mesh, caller_array|None)"""
    import numpy as np
    from mouette.mesh.mesh_data import RawMeshData
    from mouette.mesh.mesh import _instanciate_raw_mesh_data, from_arrays
    if via.startswith("from_arrays"):
        dt = int if via.endswith("int") else float
        arr = np.array([[dt(Fraction(x)) for x in row] for row in V], dtype=dt).reshape(-1, 3)
        if via == "from_arrays_f32": arr = arr.astype(np.float32)
        if via == "from_arrays_i32": arr = np.array([[int(Fraction(x)) for x in row] for row in V], dtype=np.int32).reshape(-1, 3)
        if via == "from_arrays_fortran": arr = np.asfortranarray(arr)
        if via == "from_arrays_strided": arr = np.array([[float(Fraction(x)) for x in row for _ in (0, 1)] for row in V]).reshape(-1, 6)[:, ::2]   # non-contiguous view
        if via == "from_arrays_readonly": arr.flags.writeable = False
        kw = {}
        if E: kw["E"] = np.array(E)
        if F: kw["F"] = np.array(F)
        if C: kw["C"] = np.array(C)
        return from_arrays(arr, **kw), arr
    r = RawMeshData()
    conv = (lambda x: int(Fraction(x))) if via == "raw_int" else (lambda x: float(Fraction(x)))
    for row in V:
        if via == "raw_tuple": r.vertices.append(tuple(conv(x) for x in row))
        elif via == "raw_nd": r.vertices.append(np.array([conv(x) for x in row]))
        else: r.vertices.append([conv(x) for x in row])
    for e in E: r.edges.append(tuple(e))
    for f in F: r.faces.append(tuple(f))
    for c in C: r.cells.append(tuple(c))
    return _instanciate_raw_mesh_data(r), None


DIM = {"PointCloud": 0, "PolyLine": 1, "SurfaceMesh": 2, "VolumeMesh": 3}


def _elts(cont):
    return [[int(u) for u in e] for e in cont]


def _mesh_elements(m):
    return (_elts(m.edges) if hasattr(m, "edges") else [], _elts(m.faces) if hasattr(m, "faces") else [],
            _elts(m.cells) if hasattr(m, "cells") else [])


def _qf(x):
    """exact value of a float coordinate; a non-finite one (a transform divided by zero) becomes a huge finite sentinel so that it is
    REPORTED as a wrong coordinate instead of crashing the harness"""
    x = float(x)
    if x != x: return Fraction(10 ** 31)
    if x in (float("inf"), float("-inf")): return Fraction(10 ** 30) * (1 if x > 0 else -1)
    return Fraction(x)


def _coords(m):
    return [[_qf(x) for x in v] for v in m.vertices]


def _fmt_elts(l):
    return " ".join([str(len(l))] + [" ".join([str(len(e))] + [str(u) for u in e]) for e in l])


def _attr_rows(m):
    """rows of the vertex attribute "w" (None if absent)"""
    import numpy as np
    if not m.vertices.has_attribute("w"): return None
    a = np.asarray(m.vertices.get_attribute("w").as_array(len(m.vertices))).reshape(-1, 3)
    return [[_qf(x) for x in row] for row in a]


def _conn_probe(m):
    """a connectivity answer per vertex (sorted), None when the class has no handler / the query fails"""
    c = getattr(m, "connectivity", None)
    if c is None: return None
    try:
        if hasattr(c, "vertex_to_vertices"): return [sorted(int(u) for u in c.vertex_to_vertices(v)) for v in range(len(m.vertices))]
        return [sorted(int(u) for u in c.vertex_to_faces(v)) for v in range(len(m.vertices))]
    except Exception:  # noqa  (connectivity queries belong to C01/C03)
        return None


def _conn_state(meshes, i):
    """(handler points back at its own mesh, number of other meshes holding the same handler object)"""
    c = getattr(meshes[i], "connectivity", None)
    if c is None: return 1, 0
    own = 1 if getattr(c, "mesh", None) is meshes[i] else 0
    shared = sum(1 for j, m in enumerate(meshes) if j != i and getattr(m, "connectivity", None) is c)
    return own, shared


def _fmt_mesh(m, meshes=None, idx=None):
    E, F, C = _mesh_elements(m)
    cs = _coords(m)
    out = (f"{DIM.get(type(m).__name__, '?')} {len(cs)}" + "".join(" " + " ".join(_fr(x) for x in v) for v in cs)
           + f" E {_fmt_elts(E)} F {_fmt_elts(F)} C {_fmt_elts(C)}")
    if meshes is not None:
        rows = _attr_rows(m)
        w = "N" if rows is None else " ".join([str(len(rows))] + [" ".join(_fr(x) for x in r) for r in rows])
        own, shared = _conn_state(meshes, idx)
        out += f" W {w} K {own} {shared}"
    return out


def _apply(meshes, arrays, op):
    """apply one op to the real meshes; returns None or an error token"""
    import numpy as np
    import mouette as M
    from mouette.mesh.mesh import merge, copy
    T = M.transform
    k = op[0]
    try:
        if k == "new":
            E_ = op[3][:_opt(op)["decl"]] if "decl" in _opt(op) else op[3]      # round 6: only a PREFIX of the edges is declared, the rest completed
            m, arr = _build(op[1], op[2], E_, op[4], op[5])
            meshes.append(m)
            if arr is not None: arrays.append((len(meshes) - 1, arr, arr.copy()))
        elif k == "copy": meshes.append(copy(meshes[op[1]], copy_attributes=bool(op[2])))
        elif k == "copyx":
            _conn_probe(meshes[op[1]])          # fill the lazy caches of the source
            meshes.append(copy(meshes[op[1]], copy_attributes=bool(op[2]), copy_connectivity=bool(op[3])))
        elif k == "cattr": meshes[op[1]].vertices.create_attribute("w", float, 3, dense=True)
        elif k == "sattr": meshes[op[1]].vertices.get_attribute("w")[op[2]] = [float(Fraction(x)) for x in op[3]]
        elif k == "eattr":
            r = meshes[op[1]].vertices.get_attribute("w")[op[2]]
            r[op[3]] = float(Fraction(op[4]))
        elif k == "merge": meshes.append(merge([meshes[i] for i in op[1]]))
        elif k in ("translate", "scale", "scalexyz", "rotate"):
            o_ = _opt(op); m = meshes[op[1]]
            held = []                       # parameter objects the caller keeps: must hold the same VALUES afterwards

            def vecp(t, rep):
                v = _mkvec(t, rep, m); held.append((v, _snap(v))); return v
            if k == "translate":
                T.translate(m, vecp(op[2], o_.get("tr")))
            elif k == "scale":
                T.scale(m, _mkscalar(op[2], o_.get("f")), None if op[3] is None else vecp(op[3], o_.get("orig")))
            elif k == "scalexyz":
                fr = o_.get("f")
                T.scale_xyz(m, _mkscalar(op[2], fr), _mkscalar(op[3], fr), _mkscalar(op[4], fr),
                            None if op[5] is None else vecp(op[5], o_.get("orig")))
            else:
                rr = o_.get("rot", "matrix")
                if rr.startswith("euler"):
                    import math
                    ang = [q * math.pi / 2 for q in o_["euler"]]
                    R = ang if rr == "euler_list" else tuple(ang)
                else:
                    R = np.array([[float(Fraction(x)) for x in row] for row in op[2]])
                    if rr == "rotation":
                        from scipy.spatial.transform import Rotation
                        R = Rotation.from_matrix(R)
                    else: held.append((R, R.copy()))
                T.rotate(m, R, None if op[3] is None else vecp(op[3], o_.get("orig")))
            for obj, before in held:
                after = _snap(obj)
                if before is not None and (after is None or after.shape != before.shape or not np.array_equal(after, before)):
                    raise _ParamChanged()
        elif k == "flatten": T.flatten(meshes[op[1]], op[2])
        elif k == "normalize":
            if not op[2] and _opt(op).get("via") == "fit": T.fit_into_unit_cube(meshes[op[1]])      # documented alias of normalize(.., False)
            else: T.normalize(meshes[op[1]], center_at_zero=bool(op[2]))
        elif k == "toorigin": T.translate_to_origin(meshes[op[1]])
        elif k == "edit": meshes[op[1]].vertices[op[2]][op[3]] = float(Fraction(op[4]))
        else: raise ValueError(k)
    except Exception as e:  # noqa
        n = type(e).__name__
        return {"IndexError": "err:Index", "ValueError": "err:Value", "TypeError": "err:Type", "_ParamChanged": "err:ParamChanged"}.get(n, f"err:Other({n})")
    return None


def impl_observe(case):
    if case["t"] != "script":
        try:
            m = _producers()[case["name"]]()
            if isinstance(m, tuple):
                m = next(x for x in m if hasattr(x, "vertices"))
            return f"producer:ok:{len(m.vertices)}"
        except Exception as e:  # noqa  (a producer that fails belongs to another property; counted in the distribution)
            return f"producer:skip({type(e).__name__})"
    meshes, arrays, recs = [], [], []
    for op in case["ops"]:
        err = _apply(meshes, arrays, op)
        st = " ".join([str(len(meshes))] + [_fmt_mesh(m, meshes, i) for i, m in enumerate(meshes)])
        recs.append((err + " " if err else "") + st)
    return " | ".join(recs)


# ------------------------------------------------------------------------------------------------
# model request / compare
# ------------------------------------------------------------------------------------------------
def _req_elts(l):
    return [str(len(l))] + [t for e in l for t in [str(len(e))] + [str(u) for u in e]]


def _req_opt(o):
    return ["N"] if o is None else list(o)


def model_request(case):
    if case["t"] != "script":
        return None
    toks = [str(len(case["ops"]))]
    for op in case["ops"]:
        k = op[0]
        if k == "new":
            toks += ["new", str(len(op[2]))] + [x for row in op[2] for x in row] + _req_elts(op[3]) + _req_elts(op[4]) + _req_elts(op[5])
        elif k == "copy": toks += ["copy", str(op[1])] if not op[2] else ["copyx", str(op[1]), "1", "0"]
        elif k == "copyx": toks += ["copyx", str(op[1]), "1" if op[2] else "0", "1" if op[3] else "0"]
        elif k == "cattr": toks += ["cattr", str(op[1])]
        elif k == "sattr": toks += ["sattr", str(op[1]), str(op[2])] + list(op[3])
        elif k == "eattr": toks += ["eattr", str(op[1]), str(op[2]), str(op[3]), op[4]]
        elif k == "merge": toks += ["merge", str(len(op[1]))] + [str(i) for i in op[1]]
        elif k == "translate": toks += ["translate", str(op[1])] + list(op[2])
        elif k == "scale": toks += ["scale", str(op[1]), op[2]] + _req_opt(op[3])
        elif k == "scalexyz": toks += ["scalexyz", str(op[1]), op[2], op[3], op[4]] + _req_opt(op[5])
        elif k == "rotate": toks += ["rotate", str(op[1])] + [x for row in op[2] for x in row] + _req_opt(op[3])
        elif k == "flatten": toks += ["flatten", str(op[1]), str(op[2])]
        elif k == "normalize": toks += ["normalize", str(op[1]), "1" if op[2] else "0"]
        elif k == "toorigin": toks += ["toorigin", str(op[1])]
        elif k == "edit": toks += ["edit", str(op[1]), str(op[2]), str(op[3]), op[4]]
    return " ".join(toks)


_REL = [1e-9]      # relative tolerance of the current case (binary32 coordinates: 2e-6)


def _set_tol(case):
    f32 = case.get("t") == "script" and any(
        (op[0] == "new" and op[1] == "from_arrays_f32") or any(v == "nd_f32" or v == "np_f32" for v in _opt(op).values() if isinstance(v, str))
        for op in case["ops"])
    _REL[0] = 2e-6 if f32 else 1e-9


def _close(a, b, scale):
    if _REL[0] != 1e-9:
        return abs(a - b) <= _REL[0] * scale + 1e-12
    return abs(a - b) <= 1e-9 * scale + 1e-12


def compare(case, model, impl):
    if case["t"] != "script":
        return None
    _set_tol(case)
    mr, ir = model.split(" | "), impl.split(" | ")
    if len(mr) != len(ir):
        return f"model rejected the request or record count differs: {model[:80]}"
    for step, (a, b) in enumerate(zip(mr, ir)):
        ta, tb = a.split(" "), b.split(" ")
        if len(ta) != len(tb):
            return f"step {step} ({case['ops'][step][0]}): shapes differ: model `{a[:120]}` impl `{b[:120]}`"
        nums = [abs(float(Fraction(x))) for x in ta if "/" in x or x.lstrip("-").isdigit()]
        scale = 1.0 + (max(nums) if nums else 0.0)
        for x, y in zip(ta, tb):
            if x == y: continue
            try:
                if _close(float(Fraction(x)), float(Fraction(y)), scale): continue
            except Exception:  # noqa
                pass
            return f"step {step} ({case['ops'][step][0]}): model {x} vs impl {y}: model `{a[:100]}` impl `{b[:100]}`"
    return None


# ------------------------------------------------------------------------------------------------
# oracle: the property stated directly on the implementation (shadow value semantics in exact arithmetic)
# ------------------------------------------------------------------------------------------------
def _shadow_apply(sh, op):
    """expected value semantics; sh = list of dicts {V (Fraction rows), E, F, C, dim}"""
    k = op[0]

    def mapv(i, f):
        sh[i] = dict(sh[i], V=[f(p) for p in sh[i]["V"]])
    if k == "new":
        V = [[_F(x) for x in row] for row in op[2]]
        E, F, C = op[3], op[4], op[5]
        sh.append({"V": V, "E": E, "F": F, "C": C, "dim": 3 if C else 2 if F else 1 if E else 0, "W": None})
    elif k in ("copy", "copyx"):
        src = sh[op[1]]
        c = {kk: (list(map(list, vv)) if isinstance(vv, list) else vv) for kk, vv in src.items()}
        c["W"] = [list(r) for r in src["W"]] if (op[2] and src.get("W") is not None) else None
        sh.append(c)
    elif k == "cattr":
        sh[op[1]] = dict(sh[op[1]], W=[[Fraction(0)] * 3 for _ in sh[op[1]]["V"]])
    elif k == "sattr":
        W = [list(r) for r in sh[op[1]]["W"]]; W[op[2]] = [_F(x) for x in op[3]]; sh[op[1]] = dict(sh[op[1]], W=W)
    elif k == "eattr":
        W = [list(r) for r in sh[op[1]]["W"]]; W[op[2]][op[3]] = _F(op[4]); sh[op[1]] = dict(sh[op[1]], W=W)
    elif k == "merge":
        V, E, F, C, off = [], [], [], [], 0
        for i in op[1]:
            m = sh[i]
            V += [list(p) for p in m["V"]]
            E += [[u + off for u in e] for e in m["E"]]; F += [[u + off for u in e] for e in m["F"]]
            C += [[u + off for u in e] for e in m["C"]]
            off += len(m["V"])
        sh.append({"V": V, "E": E, "F": F, "C": C, "dim": max(sh[i]["dim"] for i in op[1]), "W": None})
    elif k == "translate":
        t = [_F(x) for x in op[2]]; mapv(op[1], lambda p: [p[j] + t[j] for j in range(3)])
    elif k == "scale":
        s = _F(op[2]); o = [_F(x) for x in op[3]] if op[3] else [0, 0, 0]
        mapv(op[1], lambda p: [o[j] + s * (p[j] - o[j]) for j in range(3)])
    elif k == "scalexyz":
        f = [_F(op[2]), _F(op[3]), _F(op[4])]; o = [_F(x) for x in op[5]] if op[5] else list(sh[op[1]]["V"][0])
        mapv(op[1], lambda p: [o[j] + f[j] * (p[j] - o[j]) for j in range(3)])
    elif k == "rotate":
        R = [[_F(x) for x in row] for row in op[2]]; o = [_F(x) for x in op[3]] if op[3] else [0, 0, 0]
        mapv(op[1], lambda p: [o[i] + sum(R[i][j] * (p[j] - o[j]) for j in range(3)) for i in range(3)])
    elif k == "flatten":
        mapv(op[1], lambda p: [0 if j == op[2] else p[j] for j in range(3)])
    elif k == "normalize":
        V = sh[op[1]]["V"]
        lo = [min(p[j] for p in V) for j in range(3)]; hi = [max(p[j] for p in V) for j in range(3)]
        sc = 1 / max(hi[j] - lo[j] for j in range(3))
        if op[2]:
            c = [(lo[j] + hi[j]) / 2 for j in range(3)]; mapv(op[1], lambda p: [2 * sc * (p[j] - c[j]) for j in range(3)])
        else:
            mapv(op[1], lambda p: [sc * (p[j] - lo[j]) for j in range(3)])
    elif k == "toorigin":
        V = sh[op[1]]["V"]; b = [sum(p[j] for p in V) / len(V) for j in range(3)]
        mapv(op[1], lambda p: [p[j] - b[j] for j in range(3)])
    elif k == "edit":
        V = [list(p) for p in sh[op[1]]["V"]]; V[op[2]][op[3]] = _F(op[4]); sh[op[1]] = dict(sh[op[1]], V=V)


def _same_coords(real, want):
    if len(real) != len(want): return False
    scale = 1.0 + max([abs(float(x)) for p in want for x in p] + [0.0])
    return all(_close(float(a), float(b), scale) for p, q in zip(real, want) for a, b in zip(p, q))


def _alias_pairs(meshes, arrays):
    """pairs (mesh i, vertex a, mesh j / 'array', vertex b) whose coordinate storage shares memory"""
    import numpy as np
    ent = []
    for i, m in enumerate(meshes):
        for a, v in enumerate(m.vertices):
            if isinstance(v, np.ndarray): ent.append((i, a, v))
    out = []
    for x in range(len(ent)):
        for y in range(x + 1, len(ent)):
            if np.shares_memory(ent[x][2], ent[y][2]):
                out.append((ent[x][0], ent[x][1], ent[y][0], ent[y][1]))
    for (mi, arr, _) in arrays:
        for (i, a, v) in ent:
            if np.shares_memory(arr, v): out.append(("array", mi, i, a))
    # element rows (edges / faces / cells) are mutable state too when they are lists or arrays: a row object, or a whole
    # container, held by two meshes means that an in-place edit of one mesh's element changes the other mesh
    for cont in ("edges", "faces", "cells"):
        seen = {}
        for i, m in enumerate(meshes):
            if not hasattr(m, cont): continue
            c = getattr(m, cont)
            data = getattr(c, "_data", None)
            if data is not None:
                if id(data) in seen and seen[id(data)] != i: out.append((seen[id(data)], "elem:" + cont, i, "container"))
                seen.setdefault(id(data), i)
            for r in c:
                if isinstance(r, (list, np.ndarray)):
                    if id(r) in seen and seen[id(r)] != i: out.append((seen[id(r)], "elem:" + cont, i, "row"))
                    seen.setdefault(id(r), i)
    ats = [(i, m.vertices.get_attribute("w")._data) for i, m in enumerate(meshes) if m.vertices.has_attribute("w")]
    for x in range(len(ats)):
        for y in range(x + 1, len(ats)):
            if np.shares_memory(ats[x][1], ats[y][1]): out.append((ats[x][0], "attr", ats[y][0], "attr"))
    return out


def _oracle_script(case):
    _set_tol(case)
    out = []
    meshes, arrays, sh = [], [], []
    creator = {}          # mesh index -> op kind that produced it
    known_alias = set()

    def F(key, what, detail):
        out.append({"key": key, "what": what, "detail": detail})
    for step, op in enumerate(case["ops"]):
        k = op[0]
        tag = k + ("/" + op[1] if k == "new" else "")
        err = _apply(meshes, arrays, op)
        if err:
            dt = ""
            if k not in ("new", "copy", "merge", "copyx"):
                v0 = meshes[op[1]].vertices[0]
                dt = "/" + str(getattr(v0, "dtype", type(v0).__name__))
            F(f"C06/{tag}/raises({err}){dt}", f"`{k}` raised {err}", f"step {step}: {op}")
            return out
        _shadow_apply(sh, op)
        if k in ("new", "copy", "merge", "copyx"):
            creator[len(meshes) - 1] = tag
            m, want = meshes[-1], sh[-1]
            E, Fc, C = _mesh_elements(m)
            if DIM.get(type(m).__name__) != want["dim"]:
                F(f"C06/{k}/class", f"`{k}` returned a {type(m).__name__}, expected dimension {want['dim']}", f"step {step}"); return out
            if (E, Fc, C) != (want["E"], want["F"], want["C"]):
                F(f"C06/{k}/elements", f"`{k}`: elements are not the (shifted) elements of the input(s)",
                  f"step {step}: got E={E} F={Fc} C={C}, expected E={want['E']} F={want['F']} C={want['C']}"); return out
        # every mesh must hold exactly its expected coordinates: the target moved once by the requested map, nobody else moved
        for i, m in enumerate(meshes):
            if not _same_coords(_coords(m), sh[i]["V"]):
                if k in ("new", "copy", "merge", "copyx"):
                    kind_ = "result-differs" if i == len(meshes) - 1 else "moved-other-mesh"
                else:
                    kind_ = "wrong-coords" if i == op[1] else "moved-other-mesh"
                F(f"C06/{tag if k != 'new' else 'new'}/{kind_}", f"after `{k}` mesh #{i} (made by {creator.get(i)}) does not hold the expected coordinates",
                  f"step {step} op {op}: mesh #{i} = {[[_fr(x) for x in p] for p in _coords(m)][:6]}, expected {[[_fr(x) for x in p] for p in sh[i]['V']][:6]}")
                return out
        # attributes: every mesh holds exactly its expected attribute rows (copies carry them iff copy_attributes)
        for i, m in enumerate(meshes):
            rows, want = _attr_rows(m), sh[i].get("W")
            if (rows is None) != (want is None):
                F(f"C06/{k}/attribute-presence", f"after `{k}` mesh #{i}: attribute 'w' {'missing' if rows is None else 'present'}, expected the opposite",
                  f"step {step} op {op}"); return out
            if rows is not None and not _same_coords(rows, want):
                kind_ = "attribute-differs" if (k in ("copyx", "copy") and i == len(meshes) - 1) or (k in ("sattr", "eattr", "cattr") and i == op[1]) else "attribute-of-other-mesh-changed"
                F(f"C06/{k}/{kind_}", f"after `{k}` the attribute rows of mesh #{i} (made by {creator.get(i)}) are not the expected ones",
                  f"step {step} op {op}: {[[_fr(x) for x in r] for r in rows][:4]} expected {[[_fr(x) for x in r] for r in want][:4]}"); return out
        # connectivity handlers: every mesh owns its handler, which points back at that mesh, and answers for that mesh
        for i, m in enumerate(meshes):
            own, shared = _conn_state(meshes, i)
            c_i = getattr(m, "connectivity", None)
            shared = sum(1 for j in range(i) if c_i is not None and getattr(meshes[j], "connectivity", None) is c_i)   # blame the later mesh
            if shared or not own:
                key = f"C06/alias/{creator.get(i)}/connectivity"
                if not any(f["key"] == key for f in out):
                    F(key, f"a mesh made by `{creator.get(i)}` shares its connectivity handler with another mesh / the handler points at another mesh",
                      f"step {step}: mesh #{i}: handler.mesh is own mesh = {bool(own)}, {shared} other mesh(es) hold the same handler object")
        if k in ("copy", "copyx"):
            # round 8 — "a copy equals its source": also the corner tables of the prepared mesh (element / owner of every corner)
            src_, cp_ = meshes[op[1]], meshes[-1]
            for cont in ("face_corners", "cell_corners", "cell_faces"):
                if hasattr(src_, cont) and hasattr(cp_, cont):
                    a_, b_ = getattr(src_, cont), getattr(cp_, cont)
                    if [int(x) for x in a_._elem] != [int(x) for x in b_._elem] or [int(x) for x in a_._adj] != [int(x) for x in b_._adj]:
                        F(f"C06/{k}/corner-table-differs/{cont}", f"the `{cont}` table of the copy is not the one of its source",
                          f"step {step} op {op}: adj {list(b_._adj)[:12]} / elem {list(b_._elem)[:12]} expected adj {list(a_._adj)[:12]} / elem {list(a_._elem)[:12]}"); return out
        if k == "copyx":
            got = _conn_probe(meshes[-1])
            if got is not None:
                nvs = len(sh[-1]["V"])
                if hasattr(meshes[-1].connectivity, "vertex_to_vertices"):
                    want = [sorted({e[1 - j] for e in sh[-1]["E"] for j in (0, 1) if e[j] == v}) for v in range(nvs)]
                else:
                    want = [sorted(fi for fi, f in enumerate(sh[-1]["F"]) if v in f) for v in range(nvs)]
                if got != want:
                    F("C06/copyx/connectivity-answers", "the connectivity of the copy does not answer for the copy's elements",
                      f"step {step} op {op}: {got} expected {want}"); return out
        for (mi, arr, orig) in arrays:
            import numpy as np
            if not np.array_equal(arr, orig):
                F(f"C06/{k}/caller-array-changed", f"`{k}` changed the array the caller passed to from_arrays", f"step {step} op {op}: mesh #{mi}")
                return out
        # shared mutable state between vertex entries
        for p in _alias_pairs(meshes, arrays):
            if p in known_alias: continue
            known_alias.add(p)
            if p[0] == "array":
                key = f"C06/alias/{creator.get(p[2])}/caller-array"
                if not any(f["key"] == key for f in out):
                    F(key, "a mesh built by from_arrays keeps views of the caller's array",
                      f"step {step}: mesh #{p[2]} vertex {p[3]} shares memory with the array passed in")
                continue
            who = creator.get(p[2])
            if isinstance(p[1], str) and p[1].startswith("elem:"):
                key = f"C06/alias/{who}/elements"
                if not any(f["key"] == key for f in out):
                    F(key, f"a mesh made by `{who}` shares mutable element rows ({p[1][5:]}) with another mesh",
                      f"step {step}: mesh #{p[0]} and mesh #{p[2]} hold the same {p[3]} object")
                continue
            rel = "itself" if p[0] == p[2] else "input"
            key = f"C06/alias/{who}/{rel}"
            if not any(f["key"] == key for f in out):
                F(key, f"a mesh made by `{who}` shares coordinate storage with {rel}",
                  f"step {step}: mesh #{p[0]} vertex {p[1]} and mesh #{p[2]} vertex {p[3]} share memory")
    return out


# ---- producers (monitoring) ------------------------------------------------------------------
def _producers():
    import numpy as np
    import mouette as M
    P = M.procedural
    V = M.Vec

    def tri(): return P.triangle(V(0., 0., 0.), V(1., 0., 0.), V(0., 1., 0.))
    def grid(): return P.unit_grid(3, 4, triangulate=True)
    def tet(vol=False): return P.tetrahedron(V(0., 0., 0.), V(1., 0., 0.), V(0., 1., 0.), V(0., 0., 1.), volume=vol)

    def saveload(ext, mk):
        def f():
            with tempfile.TemporaryDirectory(prefix="c06_") as d:
                p = os.path.join(d, "m." + ext)
                M.mesh.save(mk(), p)
                return M.mesh.load(p)
        return f
    prods = {
        "ring-open": lambda: P.ring(5, 0.3, open=True), "ring-closed": lambda: P.ring(5, 0.3, open=False),
        "ring-open-2cover": lambda: P.ring(4, 0.2, open=True, n_cover=2),
        "flat_ring": lambda: P.flat_ring(6, 0.4),
        "triangle": tri, "quad": lambda: P.quad(V(0., 0., 0.), V(1., 0., 0.), V(0., 1., 0.)),
        "unit_grid": grid, "unit_triangle": lambda: P.unit_triangle(3, 3),
        "tetrahedron": tet, "tetrahedron-volume": lambda: tet(True),
        "axis_aligned_cube": lambda: P.axis_aligned_cube(), "axis_aligned_cube-tri": lambda: P.axis_aligned_cube(triangulate=True),
        "hexahedron_4pts": lambda: P.hexahedron_4pts(V(0., 0., 0.), V(1., 0., 0.), V(0., 1., 0.), V(0., 0., 1.)),
        "octahedron": P.octahedron, "icosahedron": P.icosahedron, "dodecahedron": P.dodecahedron,
        "cylinder": lambda: P.cylinder(V(0., 0., 0.), V(0., 0., 2.), radius=0.5, N=6),
        "torus": lambda: P.torus(6, 5, 1., 0.3), "sphere_uv": lambda: P.sphere_uv(4, 5), "icosphere": lambda: P.icosphere(1),
        "sphere_fibonacci": lambda: P.sphere_fibonacci(12),
        "chain_of_vertices": lambda: P.chain_of_vertices(np.array([[0., 0., 0.], [1., 0., 0.], [1., 1., 0.]]), loop=True),
        "vector_field": lambda: P.vector_field(np.array([[0., 0., 0.], [1., 0., 0.]]), np.array([[0., 0., 1.], [0., 1., 0.]])),
        "dual_mesh": lambda: P.dual_mesh(grid()),
        "boundary_of_surface": lambda: M.processing.extract_boundary_of_surface(grid()),
        "boundary_of_volume": lambda: M.processing.extract_boundary_of_volume(tet(True)),
        "merge(grid,grid)": lambda: (lambda g: M.mesh.merge([g, g]))(grid()),
        "reorder_vertices(grid)": lambda: (lambda g: __import__('mouette.mesh.mesh', fromlist=['x']).reorder_vertices(g, [len(g.vertices) - 1 - j for j in range(len(g.vertices))]))(grid()),
        "copy(grid)": lambda: M.mesh.copy(grid()),
        "from_arrays": lambda: M.mesh.from_arrays(np.array([[0., 0., 0.], [1., 0., 0.], [0., 1., 0.]]), F=np.array([[0, 1, 2]])),
    }
    for ext in ("obj", "mesh", "off", "stl", "ply", "geogram_ascii"):
        prods["load-" + ext] = saveload(ext, tri)
    for ext in ("mesh", "tet"):
        prods["load-volume-" + ext] = saveload(ext, lambda: tet(True))
    return prods


PRODUCER_NAMES = ["ring-open", "ring-closed", "ring-open-2cover", "flat_ring", "triangle", "quad", "unit_grid", "unit_triangle",
                  "tetrahedron", "tetrahedron-volume", "axis_aligned_cube", "axis_aligned_cube-tri", "hexahedron_4pts", "octahedron",
                  "icosahedron", "dodecahedron", "cylinder", "torus", "sphere_uv", "icosphere", "sphere_fibonacci",
                  "chain_of_vertices", "vector_field", "dual_mesh", "boundary_of_surface", "boundary_of_volume",
                  "merge(grid,grid)", "reorder_vertices(grid)", "copy(grid)", "from_arrays", "load-obj", "load-mesh", "load-off", "load-stl", "load-ply",
                  "load-geogram_ascii", "load-volume-mesh", "load-volume-tet"]


def _oracle_producer(case):
    import numpy as np
    import mouette as M
    name = case["name"]
    try:
        m = _producers()[name]()
        if isinstance(m, tuple):
            m = next(x for x in m if hasattr(x, "vertices"))
    except Exception as e:  # noqa  (a producer that fails belongs to another property)
        return []
    out = []
    ent = [(a, v) for a, v in enumerate(m.vertices) if isinstance(v, np.ndarray)]
    for x in range(len(ent)):
        for y in range(x + 1, len(ent)):
            if np.shares_memory(ent[x][1], ent[y][1]):
                out.append({"key": f"C06/alias/producer/{name}", "what": f"producer `{name}` stores one coordinate vector under two vertex ids",
                            "detail": f"vertices {ent[x][0]} and {ent[y][0]} share memory"})
                return out
    before = [[float(x) for x in v] for v in m.vertices]
    t = [float(Fraction(x)) for x in case["tr"]]
    try:
        M.transform.translate(m, M.Vec(*t))
    except Exception as e:  # noqa
        v0 = m.vertices[0]
        out.append({"key": f"C06/translate/raises(err:Other({type(e).__name__}))/{getattr(v0, 'dtype', '')}",
                    "what": f"translate raised on the output of `{name}`", "detail": str(e)[:200]})
        return out
    for a, (p, v) in enumerate(zip(before, m.vertices)):
        if any(abs(float(v[j]) - (p[j] + t[j])) > 1e-9 * (1 + abs(p[j]) + abs(t[j])) for j in range(3)):
            out.append({"key": f"C06/translate/wrong-coords/producer/{name}", "what": f"translate does not move every vertex of `{name}` exactly once",
                        "detail": f"vertex {a}: {p} + {t} -> {[float(x) for x in v]}"})
            return out
    return out + _oracle_derived(name, t)


def _oracle_derived(name, t):
    """round 4 — "transforms never alias ... whatever way the mesh was produced": a mesh DERIVED from another mesh / from caller
    vectors (boundary extraction, procedural.triangle) is transformed with the rebinding transforms in their DEFAULT-parameter form
    (scale / rotate about the default origin, translate) FIRST THING after its creation; what it was derived from must not move."""
    import numpy as np
    import mouette as M
    P, V = M.procedural, M.Vec
    if name not in ("boundary_of_surface", "boundary_of_volume", "triangle", "reorder_vertices(grid)"): return []
    out = []
    R = np.array([[0., -1., 0.], [1., 0., 0.], [0., 0., 1.]])
    for opname, apply in (("scale", lambda m: M.transform.scale(m, 2.)), ("rotate", lambda m: M.transform.rotate(m, R)),
                          ("translate", lambda m: M.transform.translate(m, V(*t))),
                          ("flatten", lambda m: M.transform.flatten(m, 2))):          # round 5: the one transform that was written in place
        try:
            if name == "triangle":
                src = [V(0.5, 0.25, 1.), V(1., 0.5, 2.), V(0.25, 1., 3.)]
                m = P.triangle(*src)
                snap = lambda: [[float(x) for x in v] for v in src]
            else:
                base = P.unit_grid(3, 4, triangulate=True) if name in ("boundary_of_surface", "reorder_vertices(grid)") else \
                    P.tetrahedron(V(0.5, 0., 0.25), V(1., 0., 0.5), V(0., 1., 0.75), V(0., 0., 1.), volume=True)
                if name == "boundary_of_surface":
                    for i in base.id_vertices: base.vertices[i] = base.vertices[i] + V(0.25, 0.5, 1.)      # no coordinate is 0
                if name == "reorder_vertices(grid)":
                    for i in base.id_vertices: base.vertices[i] = base.vertices[i] + V(0.25, 0.5, 1.)
                    n_ = len(base.vertices)
                    m = __import__('mouette.mesh.mesh', fromlist=['x']).reorder_vertices(base, [(5 * j + 2) % n_ for j in range(n_)])      # shares the vector objects of `base`
                else:
                    m = (M.processing.extract_boundary_of_surface if name == "boundary_of_surface" else M.processing.extract_boundary_of_volume)(base)
                if isinstance(m, tuple): m = next(x for x in m if hasattr(x, "vertices"))
                snap = lambda: [[float(x) for x in v] for v in base.vertices]
            before = snap()
            apply(m)
            after = snap()
        except Exception:  # noqa  (a producer / transform that fails is reported by the other clauses)
            continue
        if before != after:
            a = next(i for i, (p, q) in enumerate(zip(before, after)) if p != q)
            out.append({"key": f"C06/alias/transform/{opname}/source-moved/{name}",
                        "what": f"`{opname}` (default parameters) of a mesh produced by `{name}` also moves what the mesh was derived from",
                        "detail": f"source vertex / caller vector {a}: {before[a]} -> {after[a]}"})
            return out
    return out


def oracle(case):
    return _oracle_script(case) if case["t"] == "script" else _oracle_producer(case)


# ------------------------------------------------------------------------------------------------
# generators
# ------------------------------------------------------------------------------------------------
def _dy(rng, lo=-16, hi=16, den=4):
    return _fr(Fraction(rng.randint(lo, hi), den))


def _base_mesh(rng):
    return _base_mesh_kind(rng, rng.choice(["points", "polyline", "polyline", "surface", "surface", "surface", "volume"]))


def _base_mesh_kind(rng, kind):
    """small base mesh; element lists canonicalised by the library (prepared form)"""
    integer = rng.random() < 0.2
    if kind == "points": nv, E, F, C = rng.randint(1, 4), [], [], []
    elif kind == "polyline":
        nv = rng.randint(2, 5); E = [[i, i + 1] for i in range(nv - 1)] + ([[0, nv - 1]] if nv > 2 and rng.random() < 0.4 else []); F, C = [], []
    elif kind == "surface":
        r = rng.random()
        if r < 0.4: nv, F = 3, [[0, 1, 2]]
        elif r < 0.7: nv, F = 4, [[0, 1, 2], [1, 3, 2]]
        elif r < 0.85: nv, F = 4, [[0, 1, 3, 2]]
        else: nv, F = 5, [[0, 1, 2], [1, 3, 2], [2, 3, 4]]
        E, C = [], []
        if rng.random() < 0.35:
            # round 6: a surface with DECLARED edges (a few sides of its faces, any order) next to the ones `prepare` completes
            sides = sorted({tuple(sorted((f[a], f[(a + 1) % len(f)]))) for f in F for a in range(len(f))})
            rng.shuffle(sides)
            E = [list(e) for e in sides[:rng.randint(1, min(3, len(sides)))]]
    else:
        if rng.random() < 0.6: nv, C = 4, [[0, 1, 2, 3]]
        else: nv, C = 5, [[0, 1, 2, 3], [1, 2, 3, 4]]
        E, F = [], []
    seen, V = set(), []
    while len(V) < nv:
        p = tuple(str(rng.randint(-4, 4)) if integer else _dy(rng) for _ in range(3))
        if p not in seen:
            seen.add(p); V.append(list(p))
    via = rng.choice(["raw_int", "from_arrays_int"] if integer else ["raw", "raw", "from_arrays"])
    decl = len(E)
    m, _ = _build("raw", V, E, F, C)          # canonical (prepared) element lists
    E, F, C = _mesh_elements(m)
    if decl and F and not via.startswith("from_arrays"):
        return ["new", via, V, E, F, C, {"decl": decl}]
    return ["new", via, V, E, F, C]


def _rotation(rng):
    R = [[Fraction(1 if i == j else 0) for j in range(3)] for i in range(3)]
    for _ in range(rng.randint(1, 2)):
        A = [[Fraction(x) for x in row] for row in rng.choice(ROT_ATOMS)]
        if rng.random() < 0.5: A = [list(r) for r in zip(*A)]
        R = _matmul(A, R)
    return R


def _script(rng, maxops):
    ops, nv, flat = [], [], []      # nv[i] = vertex count; flat[i] = bbox may be degenerate in some direction (fine) / point
    n_ops = rng.randint(3, maxops)
    has_w, kinds, pending_now, copies = [], [], [], []

    def add_base(force=None):
        b = _base_mesh(rng) if force is None else _base_mesh_kind(rng, force)
        ops.append(b); nv.append(len(b[2])); has_w.append(False)
        kinds.append(3 if b[5] else 2 if b[4] else 1 if b[3] else 0)
    if rng.random() < 0.25:
        add_base(force="points"); add_base(force=rng.choice(["polyline", "surface", "volume"]))
        ops.append(["merge", [0, 1] + ([0] if rng.random() < 0.3 else [])])
        nv.append(sum(nv[j] for j in ops[-1][1])); has_w.append(False); kinds.append(kinds[1])
    else:
        add_base()
    pending = []                      # inverse ops queued for round trips

    def opt_orig():
        return None if rng.random() < 0.5 else [_dy(rng, -8, 8) for _ in range(3)]
    while len(ops) < n_ops:
        r = rng.random()
        i = rng.randrange(len(nv))
        if pending_now:
            ops.append(pending_now.pop()); continue
        if pending and rng.random() < 0.6:
            ops.append(pending.pop()); continue
        if rng.random() < 0.12:
            # vertex attribute "w": create / write / update a row in place
            if not has_w[i]:
                ops.append(["cattr", i]); has_w[i] = True
                pending_now.append(["sattr", i, rng.randrange(nv[i]), [_dy(rng) for _ in range(3)]])
            elif rng.random() < 0.4: ops.append(["sattr", i, rng.randrange(nv[i]), [_dy(rng) for _ in range(3)]])
            else: ops.append(["eattr", i, rng.randrange(nv[i]), rng.randrange(3), _dy(rng)])
            continue
        if r < 0.10 and len(nv) < 5:
            add_base(force="points" if rng.random() < 0.3 else None)
        elif r < 0.22 and len(nv) < 5:
            if rng.random() < 0.7:
                ops.append(["copyx", i, rng.random() < 0.5, rng.random() < 0.6]); has_w.append(has_w[i] and ops[-1][2])
            else:
                ops.append(["copy", i, False]); has_w.append(False)
            nv.append(nv[i]); kinds.append(kinds[i]); copies.append((i, len(nv) - 1))
            if has_w[-1] and rng.random() < 0.7:        # ... then edit the copy's (or the source's) attribute
                tgt = rng.choice([len(nv) - 1, i])
                pending_now.append(["eattr", tgt, rng.randrange(nv[tgt]), rng.randrange(3), _dy(rng)])
        elif r < 0.40 and len(nv) < 5:
            ids = [rng.randrange(len(nv)) for _ in range(rng.randint(1, 3))]
            if rng.random() < 0.35: ids.append(ids[0])
            cp = [(a, b) for a, b in copies if True]
            if cp and rng.random() < 0.3:      # a mesh merged with its own copy (and with itself)
                a, b = rng.choice(cp); ids = [a, b] + ([a] if rng.random() < 0.3 else [])
            pcs = [j for j in range(len(nv)) if kinds[j] == 0]
            if pcs and rng.random() < 0.5:      # mixed kinds: a point cloud FIRST, its vertices must count in the running offset
                ids = [rng.choice(pcs)] + [j for j in ids if kinds[j] != 0][:2]
            if sum(nv[j] for j in ids) <= 14:
                ops.append(["merge", ids]); nv.append(sum(nv[j] for j in ids)); has_w.append(False)
                kinds.append(max(kinds[j] for j in ids))
        elif r < 0.58:
            t = [_dy(rng, -8, 8) for _ in range(3)]
            ops.append(["translate", i, t])
            if rng.random() < 0.25: pending_now.append(["translate", i, list(t)])       # ... and once more
            if rng.random() < 0.4: pending.append(["translate", i, [_fr(-Fraction(x)) for x in t]])
        elif r < 0.68:
            s = rng.choice(["2", "1/2", "-1", "3", "1/4", "-2", "3/2"]); o = opt_orig()
            ops.append(["scale", i, s, o])
            if rng.random() < 0.4: pending.append(["scale", i, _fr(1 / Fraction(s)), o])
        elif r < 0.74:
            ops.append(["scalexyz", i, rng.choice(["2", "1/2", "-1"]), rng.choice(["1", "3", "1/2"]), rng.choice(["1", "-2", "1/4"]), opt_orig()])
        elif r < 0.84:
            R = _rotation(rng); o = opt_orig()
            ops.append(["rotate", i, [[_fr(x) for x in row] for row in R], o])
            if rng.random() < 0.4: pending.append(["rotate", i, [[_fr(x) for x in row] for row in zip(*R)], o])
        elif r < 0.89: ops.append(["flatten", i, rng.randrange(3)])
        elif r < 0.93: ops.append(["toorigin", i])
        elif r < 0.97: ops.append(["edit", i, rng.randrange(nv[i]), rng.randrange(3), str(rng.randint(-4, 4))])   # integer: valid for int dtype too
        else: ops.append(["normalize", i, rng.random() < 0.5])
    case = {"t": "script", "ops": ops}
    return _drop_degenerate_normalize(_decorate(rng, _drop_degenerate_normalize(case)))


VEC_REPS = ["vec", "vec", "tuple", "list", "nd", "nd_f32"]
INT_REPS = ["ivec", "ivec", "nd_int", "nd_i32", "tuple", "list"]
SCALAR_REPS = ["float", "float", "np_f32", "np_f64"]
INT_SCALAR_REPS = ["int", "int", "np_int", "np_i32", "float"]


def _decorate(rng, case):
    """round 3: vary HOW inputs are represented (same values): int / float / numpy vectors, tuples, lists, numpy scalars,
    Euler-angle rotations, scipy Rotation objects, a vertex OBJECT of the mesh itself as parameter, vertex arrays of other
    dtypes / memory layouts. The model and the shadow only see the values."""
    sh, ops = [], []
    for op in case["ops"]:
        op = list(op)
        k = op[0]
        if k == "new":
            v = op[1]
            if v == "from_arrays" and rng.random() < 0.45: op[1] = rng.choice(["from_arrays_f32", "from_arrays_fortran", "from_arrays_strided", "from_arrays_readonly"])
            elif v == "from_arrays_int" and rng.random() < 0.4: op[1] = "from_arrays_i32"
            elif v == "raw" and rng.random() < 0.3: op[1] = rng.choice(["raw_tuple", "raw_nd"])
        elif k == "normalize" and not op[2] and not isinstance(op[-1], dict) and rng.random() < 0.5:
            op.append({"via": "fit"})            # round 4: the alias `fit_into_unit_cube` is driven too
        elif k in ("translate", "scale", "scalexyz", "rotate"):
            i = op[1]; nv = len(sh[i]["V"]); d = {}

            def vec_rep(t, allow_vertex=True):
                r = rng.random()
                if allow_vertex and r < 0.10:
                    j = rng.randrange(nv)
                    return [_fr(x) for x in sh[i]["V"][j]], f"vertex:{j}"
                if r < 0.35:      # integer-valued parameter in an integer representation
                    t = [str(round(Fraction(x))) for x in t]
                    return t, rng.choice(INT_REPS)
                return t, rng.choice(VEC_REPS)
            if k == "translate":
                op[2], d["tr"] = vec_rep(op[2])
            elif k == "scale":
                if op[3] is not None: op[3], d["orig"] = vec_rep(op[3])
                d["f"] = rng.choice(INT_SCALAR_REPS if Fraction(op[2]).denominator == 1 else SCALAR_REPS)
            elif k == "scalexyz":
                if op[5] is not None:       # scale_xyz reads orig.x/.y/.z: documented as a Vec, so only Vec objects are offered
                    op[5], d["orig"] = vec_rep(op[5])
                    if not (d["orig"].startswith("vertex") or d["orig"] in ("vec", "ivec")): d["orig"] = "vec"
                d["f"] = rng.choice(INT_SCALAR_REPS if all(Fraction(x).denominator == 1 for x in op[2:5]) else SCALAR_REPS)
            else:
                if op[3] is not None: op[3], d["orig"] = vec_rep(op[3])
                r = rng.random()
                if r < 0.25:
                    q = [rng.randrange(4) for _ in range(3)]
                    op[2] = [[str(x) for x in row] for row in _euler_matrix(q)]
                    d["rot"] = rng.choice(["euler_list", "euler_tuple"]); d["euler"] = q
                elif r < 0.45: d["rot"] = "rotation"
                else: d["rot"] = "matrix"
            op = [x for x in op if not isinstance(x, dict)] + [d]
        _shadow_apply(sh, op); ops.append(op)
    return dict(case, ops=ops)


def _drop_degenerate_normalize(case):
    """normalize is specified for non-degenerate boxes only: drop it where the shadow box is a point"""
    sh, ops = [], []
    for op in case["ops"]:
        if op[0] == "normalize":
            V = sh[op[1]]["V"]
            if max(max(p[j] for p in V) - min(p[j] for p in V) for j in range(3)) == 0:
                continue
        _shadow_apply(sh, op); ops.append(op)
    return dict(case, ops=ops)


def cases(rng, tier):
    n, maxops = (1500, 9) if tier == "quick" else (6000, 16)
    for name in PRODUCER_NAMES:
        yield {"t": "producer", "name": name, "tr": [_dy(rng, 1, 8), _dy(rng, -8, 8), _dy(rng, -8, 8)]}
    for _ in range(n):
        yield _script(rng, maxops)


def search_on_break(rng, broken, mismatches):
    for _ in range(800):
        yield _script(rng, 10)


def nontrivial(case, obs):
    if case["t"] != "script": return False
    seen = False
    for op in case["ops"]:
        if op[0] in ("copy", "merge", "copyx"): seen = True
        elif seen and op[0] != "new": return True
    return False


def classify(case, obs):
    if case["t"] != "script": return ["producer:" + case["name"] + (":skipped" if "skip" in obs else "")]
    ks = ["op:" + op[0] + ("/" + op[1] if op[0] == "new" else "") for op in case["ops"]]
    ks += ["merge:repeated-input" for op in case["ops"] if op[0] == "merge" and len(set(op[1])) < len(op[1])]
    dims, sh, cps, seen_t, vint = [], [], {}, set(), {}
    for op in case["ops"]:
        if op[0] == "new": dims.append(3 if op[5] else 2 if op[4] else 1 if op[3] else 0)
        elif op[0] in ("copy", "copyx"): dims.append(dims[op[1]])
        elif op[0] == "merge":
            if len(op[1]) > 1 and dims[op[1][0]] == 0 and any(dims[j] > 0 for j in op[1][1:]): ks.append("merge:pointcloud-first-mixed")
            if len({dims[j] for j in op[1]}) > 1: ks.append("merge:mixed-kinds")
            dims.append(max(dims[j] for j in op[1]))
        if op[0] == "copyx": ks.append(f"copyx:attrs={int(bool(op[2]))}/conn={int(bool(op[3]))}")
        if op[0] == "normalize" and _opt(op).get("via") == "fit": ks.append("via:fit_into_unit_cube")
        if op[0] == "new" and "decl" in _opt(op): ks.append("new:declared-edges+completed")
        if op[0] in ("copy", "copyx"):
            if op[1] in cps: ks.append("copy:of-a-copy")
            cps[len(dims) - 1] = op[1]
        if op[0] == "merge":
            if len(set(op[1])) < len(op[1]): pass
            if any(cps.get(b) == a or cps.get(a) == b for a in op[1] for b in op[1]): ks.append("merge:with-own-copy")
        if op[0] in ("translate", "scale", "scalexyz", "rotate", "flatten", "normalize", "toorigin"):
            if (op[0], op[1]) in seen_t: ks.append(f"twice:{op[0]}")
            seen_t.add((op[0], op[1]))
            o_ = _opt(op)
            for kk in ("tr", "orig", "f", "rot"):
                if kk in o_: ks.append(f"rep:{kk}={o_[kk].split(':')[0]}")
            if op[0] == "translate":
                ti = _integral(op[2]); vi = vint.get(op[1], False)
                if ti and not vi and o_.get("tr") in INT_REPS: ks.append("rep:int-translation/float-vertices")
                if vi and not ti: ks.append("rep:float-translation/int-vertices")
            if op[0] != "flatten": vint[op[1]] = False
        if op[0] == "new":
            ks.append("rep:verts=" + op[1]); vint[len(dims) - 1] = op[1] in ("raw_int", "from_arrays_int", "from_arrays_i32")
        elif op[0] in ("copy", "copyx"): vint[len(dims) - 1] = vint.get(op[1], False)
        elif op[0] == "merge": vint[len(dims) - 1] = all(vint.get(j, False) for j in op[1])
        if op[0] == "rotate" and op[3] is not None: ks.append("rotate:origin!=0")
        if op[0] == "scalexyz" and any(str(f).startswith("-") for f in op[2:5]): ks.append("scalexyz:negative-factor")
    ks += ["err" for r in obs.split(" | ") if r.startswith("err")]
    ks.append(f"meshes:{sum(1 for op in case['ops'] if op[0] in ('new', 'copy', 'merge', 'copyx'))}")
    return ks


def describe(case):
    return case


def shrink(case, still):
    if case["t"] != "script": return case
    ops = list(case["ops"])

    def valid(ops):
        n, w = 0, []
        for op in ops:
            if op[0] == "new": n += 1; w.append(False); continue
            ids = op[1] if op[0] == "merge" else [op[1]]
            if any(i >= n for i in ids): return False
            if op[0] in ("copy", "merge", "copyx"): n += 1; w.append(op[0] != "merge" and bool(op[2]) and w[op[1]])
            if op[0] == "cattr": w[op[1]] = True
            if op[0] in ("sattr", "eattr") and not w[op[1]]: return False
        return True
    i = len(ops) - 1
    while i >= 0:
        trial = ops[:i] + ops[i + 1:]
        if valid(trial) and trial and still(dict(case, ops=trial)): ops = trial
        i -= 1
    return dict(case, ops=ops)


# ------------------------------------------------------------------------------------------------
# translated fragments (round 3): the per-vertex expressions and the loop shapes of transform.py, normalize, merge
# ------------------------------------------------------------------------------------------------
TRANSFORM_FILE = "mouette/geometry/transform.py"
MESH_FILE = "mouette/mesh/mesh.py"


def _is_vertex_i(node):
    """mesh.vertices[i]"""
    import ast
    return (isinstance(node, ast.Subscript) and isinstance(node.value, ast.Attribute) and node.value.attr == "vertices"
            and isinstance(node.value.value, ast.Name) and node.value.value.id == "mesh"
            and isinstance(node.slice, ast.Name) and node.slice.id == "i")


def _vexpr(node, names):
    """vector expression over mesh.vertices[i] (p) and parameter names -> Lean V3 term; refuses anything else"""
    import ast
    from .. import translate as T
    if _is_vertex_i(node): return "p"
    if isinstance(node, ast.Name) and node.id in names: return names[node.id]
    if isinstance(node, ast.BinOp) and isinstance(node.op, ast.Add): return f"(({_vexpr(node.left, names)}).add ({_vexpr(node.right, names)}))"
    if isinstance(node, ast.BinOp) and isinstance(node.op, ast.Sub): return f"(({_vexpr(node.left, names)}).sub ({_vexpr(node.right, names)}))"
    if isinstance(node, ast.BinOp) and isinstance(node.op, ast.Mult):
        if isinstance(node.left, ast.Name) and node.left.id in names and names[node.left.id] in ("k",):
            return f"(V3.smul k ({_vexpr(node.right, names)}))"
        if isinstance(node.right, ast.Name) and node.right.id in names and names[node.right.id] in ("k",):
            return f"(V3.smul k ({_vexpr(node.left, names)}))"
        raise T.TranslateError("only <scalar factor> * <vector> is understood")
    if isinstance(node, ast.UnaryOp) and isinstance(node.op, ast.USub): return f"(({_vexpr(node.operand, names)}).neg)"
    if isinstance(node, ast.Call) and isinstance(node.func, ast.Name) and node.func.id == "Vec" and len(node.args) == 1:
        return _vexpr(node.args[0], names)        # Vec(x): same value
    if isinstance(node, ast.Call) and isinstance(node.func, ast.Attribute) and node.func.attr == "apply" \
            and isinstance(node.func.value, ast.Name) and node.func.value.id == "rot" and len(node.args) == 1:
        return f"(r.apply ({_vexpr(node.args[0], names)}))"
    if isinstance(node, ast.Call) and isinstance(node.func, ast.Name) and node.func.id == "Vec" and len(node.args) == 3:
        return "(⟨" + ", ".join(_sexpr(a, names) for a in node.args) + "⟩ : V3)"
    raise T.TranslateError(f"vector expression not understood: {ast.dump(node)[:90]}")


def _sexpr(node, names):
    """scalar expression over components (Pi.x, orig.x, fx …) -> Lean Rat term"""
    import ast
    from .. import translate as T
    if isinstance(node, ast.Name) and node.id in ("fx", "fy", "fz"): return node.id
    if isinstance(node, ast.Attribute) and node.attr in ("x", "y", "z") and isinstance(node.value, ast.Name) and node.value.id in names:
        return f"{names[node.value.id]}.{node.attr}"
    if isinstance(node, ast.BinOp) and type(node.op) in (ast.Add, ast.Sub, ast.Mult):
        o = {ast.Add: "+", ast.Sub: "-", ast.Mult: "*"}[type(node.op)]
        return f"({_sexpr(node.left, names)} {o} {_sexpr(node.right, names)})"
    raise T.TranslateError(f"scalar expression not understood: {ast.dump(node)[:90]}")


def _vertex_loop(fn):
    """the `for <v> in mesh.id_vertices:` loop of a transform; returns its body statements with the loop variable renamed `i`
    (the name of the loop variable is irrelevant)"""
    import ast, copy
    from .. import translate as T
    loops = [st for st in fn.body if isinstance(st, ast.For)]
    if len(loops) != 1: raise T.TranslateError(f"{fn.name}: expected exactly one loop, found {len(loops)}")
    lp = copy.deepcopy(loops[0])
    ok = (isinstance(lp.target, ast.Name) and isinstance(lp.iter, ast.Attribute) and lp.iter.attr == "id_vertices"
          and isinstance(lp.iter.value, ast.Name) and lp.iter.value.id == "mesh" and not lp.orelse)
    if not ok: raise T.TranslateError(f"{fn.name}: loop is not `for i in mesh.id_vertices`")
    var = lp.target.id
    if var != "i":
        if any(isinstance(x, ast.Name) and x.id == "i" for st in lp.body for x in ast.walk(st)):
            raise T.TranslateError(f"{fn.name}: loop variable `{var}` next to another name `i`")
        for st in lp.body:
            for x in ast.walk(st):
                if isinstance(x, ast.Name) and x.id == var: x.id = "i"
    return lp.body


def _rebinding(fn, names, pre=None):
    """the loop body must be ONE plain assignment `mesh.vertices[i] = <expr>` (a rebinding: not `+=`, not an item
    assignment into the stored vector); optional local alias `Pi = mesh.vertices[i]`"""
    import ast
    from .. import translate as T
    body = list(_vertex_loop(fn))
    names = dict(names)
    if pre and len(body) == 2 and isinstance(body[0], ast.Assign) and isinstance(body[0].targets[0], ast.Name) \
            and body[0].targets[0].id not in names and _is_vertex_i(body[0].value):
        names[body[0].targets[0].id] = "p"; body = body[1:]          # a local alias of the current vertex, whatever its name
    if len(body) != 1 or not isinstance(body[0], ast.Assign) or len(body[0].targets) != 1 or not _is_vertex_i(body[0].targets[0]):
        raise T.TranslateError(f"{fn.name}: the loop body is not a single rebinding `mesh.vertices[i] = <expr>` "
                               f"({'in-place update' if body and isinstance(body[0], ast.AugAssign) else 'other shape'})")
    return _vexpr(body[0].value, names)


def _default_orig(fn, want):
    """`if orig is None: orig = <want>`"""
    import ast
    from .. import translate as T
    for st in fn.body:
        if isinstance(st, ast.If) and isinstance(st.test, ast.Compare) and isinstance(st.test.ops[0], ast.Is) \
                and sorted([ast.unparse(st.test.left), ast.unparse(st.test.comparators[0])]) == ["None", "orig"]:
            if len(st.body) == 1 and isinstance(st.body[0], ast.Assign) and ast.unparse(st.body[0].value).replace(" ", "") == want:
                return want
    raise T.TranslateError(f"{fn.name}: default origin `{want}` not recognised")


def translate():
    import ast
    from .. import translate as T
    sites, chunks = [], {}

    def tr_translate():
        tree, _ = T.load(TRANSFORM_FILE)
        e = _rebinding(T.find_def(tree, "translate"), {"tr": "t"})
        chunks["translate"] = f"/-- `translate`: `mesh.vertices[i] = …` (rebinding) -/\ndef translateExpr (p t : V3) : V3 := {e}\n"
        return e
    sites.append(T.site("transform.py:translate loop body", tr_translate))

    def tr_scale():
        tree, _ = T.load(TRANSFORM_FILE)
        fn = T.find_def(tree, "scale")
        e = _rebinding(fn, {"orig": "o", "factor": "k"}); _default_orig(fn, "Vec.zeros(3)")
        chunks["scale"] = f"/-- `scale` (default origin `Vec.zeros(3)`) -/\ndef scaleExpr (k : Rat) (o p : V3) : V3 := {e}\n"
        return e
    sites.append(T.site("transform.py:scale loop body", tr_scale))

    def tr_rotate():
        tree, _ = T.load(TRANSFORM_FILE)
        fn = T.find_def(tree, "rotate")
        e = _rebinding(fn, {"orig": "o"}); _default_orig(fn, "Vec.zeros(3)")
        chunks["rotate"] = f"/-- `rotate` (default origin `Vec.zeros(3)`) -/\ndef rotateExpr (r : M3) (o p : V3) : V3 := {e}\n"
        return e
    sites.append(T.site("transform.py:rotate loop body", tr_rotate))

    def tr_scalexyz():
        tree, _ = T.load(TRANSFORM_FILE)
        fn = T.find_def(tree, "scale_xyz")
        e = _rebinding(fn, {"orig": "o"}, pre="Pi"); _default_orig(fn, "mesh.vertices[0]")
        chunks["scalexyz"] = f"/-- `scale_xyz` (default origin: the first vertex) -/\ndef scaleXyzExpr (fx fy fz : Rat) (o p : V3) : V3 := {e}\n"
        return e
    sites.append(T.site("transform.py:scale_xyz loop body", tr_scalexyz))

    def tr_normalize():
        tree, _ = T.load(TRANSFORM_FILE)
        fn = T.find_def(tree, "normalize")
        body = [st for st in fn.body if not (isinstance(st, ast.Expr) and isinstance(st.value, ast.Constant))]
        src = [ast.unparse(st).replace(" ", "") for st in body]
        want0 = "bounding=AABB.of_mesh(mesh)"; want1 = "sc=1/np.max(bounding.span)"
        if len(body) != 3 or src[0] != want0 or src[1] != want1 or not isinstance(body[2], ast.If):
            raise T.TranslateError("normalize: expected `bounding = AABB.of_mesh(mesh); sc = 1/np.max(bounding.span); if center_at_zero: … else: …`")
        iff = body[2]
        if ast.unparse(iff.test) != "center_at_zero" or len(iff.body) != 1 or len(iff.orelse) != 1:
            raise T.TranslateError("normalize: branch structure not recognised")

        def branch(st):
            # return scale(translate(mesh, -bounding.<anchor>), <mult>*sc | sc)
            if not (isinstance(st, ast.Return) and isinstance(st.value, ast.Call) and getattr(st.value.func, "id", None) == "scale" and len(st.value.args) == 2):
                raise T.TranslateError("normalize: branch is not `return scale(translate(mesh, -bounding.X), f)`")
            inner, fac = st.value.args
            if not (isinstance(inner, ast.Call) and getattr(inner.func, "id", None) == "translate" and len(inner.args) == 2
                    and ast.unparse(inner.args[0]) == "mesh" and isinstance(inner.args[1], ast.UnaryOp) and isinstance(inner.args[1].op, ast.USub)
                    and isinstance(inner.args[1].operand, ast.Attribute) and ast.unparse(inner.args[1].operand.value) == "bounding"):
                raise T.TranslateError("normalize: inner call is not `translate(mesh, -bounding.X)`")
            anchor = inner.args[1].operand.attr
            if anchor not in ("center", "mini"): raise T.TranslateError(f"normalize: unknown anchor {anchor}")
            f = ast.unparse(fac).replace(" ", "")
            mult = {"2*sc": 2, "sc*2": 2, "sc": 1}.get(f)
            if mult is None: raise T.TranslateError(f"normalize: scale factor `{f}` not understood")
            return anchor, mult
        (a1, m1), (a0, m0) = branch(iff.body[0]), branch(iff.orelse[0])
        chunks["normalize"] = ("/-- `normalize`: (anchor subtracted, multiplier of `1/max span`) per value of `center_at_zero` -/\n"
                               "inductive Anchor | center | mini\n  deriving DecidableEq, Repr\n"
                               f"def normalizeSpec : Bool → Anchor × Rat\n  | true => (.{a1}, {m1})\n  | false => (.{a0}, {m0})\n")
        return f"centered: -{a1}, {m1}*sc; else: -{a0}, {m0}*sc"
    sites.append(T.site("transform.py:normalize", tr_normalize))

    def tr_merge():
        tree, _ = T.load(MESH_FILE)
        fn = T.find_def(tree, "merge")
        loops = [st for st in fn.body if isinstance(st, ast.For)]
        if len(loops) != 1: raise T.TranslateError("merge: expected one loop")
        body = loops[0].body
        var = loops[0].target.id
        # 1. vertices are copied
        s0 = ast.unparse(body[0]).replace(" ", "")
        if s0 != f"merged.vertices+=[np.array(v)forvin{var}.vertices]":
            raise T.TranslateError(f"merge: first statement is not the copying vertex extension: {s0[:80]}")
        # 2. the element blocks: `if hasattr(m, kind): merged.kind += [tuple((vertex_offset+u for u in e)) for e in m.kind]`
        kinds = []
        for st in body[1:-1]:
            if not (isinstance(st, ast.If) and len(st.body) == 1 and not st.orelse):
                raise T.TranslateError(f"merge: unexpected statement in the loop: {ast.unparse(st)[:60]}")
            t = ast.unparse(st.test).replace(" ", "").replace('"', "'")
            kind = t[len(f"hasattr({var},'"):-2]
            want = f"merged.{kind}+=[tuple((vertex_offset+uforuinx))forxin{var}.{kind}]"
            got = ast.unparse(st.body[0]).replace(" ", "")
            import re
            got_n = re.sub(r"\(\((\w+)\+vertex_offsetfor\1in", r"((vertex_offset+\1for\1in", got)      # u+off = off+u
            got_n = re.sub(r"vertex_offset\+(\w+)for\1in(\w+)\)\)for\2in", "vertex_offset+uforuinx))forxin", got_n)
            if t != f"hasattr({var},'{kind}')" or got_n != want:
                raise T.TranslateError(f"merge: element block for `{kind}` not recognised: {got[:80]}")
            kinds.append(kind)
        if kinds != ["edges", "faces", "cells"]: raise T.TranslateError(f"merge: element kinds {kinds}")
        # 3. the running offset advances by the number of vertices of EVERY input, after its elements were shifted
        last = ast.unparse(body[-1]).replace(" ", "")
        if last not in (f"vertex_offset+=len({var}.vertices)", f"vertex_offset=vertex_offset+len({var}.vertices)",
                        f"vertex_offset=len({var}.vertices)+vertex_offset"):
            raise T.TranslateError(f"merge: last statement of the loop is not the unconditional offset update: {last[:60]}")
        chunks["merge"] = ("/-- `merge`: index shift applied to every element index, offset update per input -/\n"
                           "def mergeShift (vertex_offset u : Nat) : Nat := vertex_offset + u\n"
                           "def mergeOffsetAfter (vertex_offset nverts : Nat) : Nat := vertex_offset + nverts\n"
                           "def mergeElementKinds : List String := [\"edges\", \"faces\", \"cells\"]\n")
        return "vertices copied; edges/faces/cells shifted by vertex_offset; offset += len(vertices) unconditionally, last"
    sites.append(T.site("mesh.py:merge loop", tr_merge))

    if all(st["ok"] for st in sites):
        body = ("import Mouette.Model.MeshHeap\nnamespace Mouette.Generated.C06\nopen Mouette.MeshHeap\n\n"
                + "\n".join(chunks[k] for k in ("translate", "scale", "rotate", "scalexyz", "normalize", "merge"))
                + "\nend Mouette.Generated.C06\n")
        T.write_generated("C06", body)
    else:
        T.write_generated("C06", _stub("C06", "import Mouette.Model.MeshHeap\n", sites))
    # ---- round 4: whole function bodies, read imperatively (vlib/gen/c06_translate.py -> Generated/C06Src.lean)
    from ..gen import c06_translate as SRC
    src_sites, src_body, _ = SRC.translate_sites()
    if src_body is not None:
        T.write_generated("C06Src", src_body)
    else:
        T.write_generated("C06Src", _stub("C06Src", "import Mouette.Model.MeshSource\n", src_sites))
    return sites + src_sites


def _stub(ns, imports, sites):
    """round 5: what is written INSTEAD of a generated file when a site of the CURRENT tree is not recognised — an empty namespace, so
    that the bridges fail to build against this tree (and the build log never talks about the file generated from an earlier tree)"""
    bad = [f"   {x['site']}: {x['detail'][:160]}" for x in sites if not x["ok"]]
    return (imports + f"/- STUB: the translation of the current source tree failed, nothing is defined here.\n" + "\n".join(bad).replace("-/", "- /").replace("/-", "/ -")
            + f"\n-/\nnamespace Mouette.Generated.{ns}\nend Mouette.Generated.{ns}\n")


# ------------------------------------------------------------------------------------------------
# SOURCE_MAP: every function of the five anchor files.  "translated" = its body is compiled into Generated/C06*.lean on every
# run AND a bridge theorem of Props/C06.lean / Props/C06Source.lean is stated about that definition.
# ------------------------------------------------------------------------------------------------
_M, _T, _V, _R, _D = ("mouette/mesh/mesh.py::", "mouette/geometry/transform.py::", "mouette/geometry/vector.py::",
                      "mouette/procedural/rings.py::", "mouette/mesh/mesh_data.py::RawMeshData.")
_OOS_VEC = "out-of-scope: vector algebra helper, no mesh state (C12)"
_OOS_PREP = "out-of-scope: connectivity preparation of a raw mesh (C02)"
SOURCE_MAP = {
    _M + "_instanciate_raw_mesh_data": "translated",     # instanciateRaw (+ typedMesh from datatypes/base.py Mesh.__init__); instanciateRaw_bridge, producers_world; old:       # every producer goes through it; outputs inspected for shared vectors
    _M + "load": "translated", _M + "save": "out-of-scope: file output (C04)",      # loaders are among the 37 monitored producers
    _M + "from_arrays": "translated",                       # fromArrays; fromArrays_bridge, fromArrays_alias_free (round 6); + caller-array aliasing clause of the oracle
    _M + "copy": "translated",                              # statement tables copyAttrBranch / copyDataBranch / copyConnBranch; copy_bridge
    _M + "merge": "translated",                             # mergeBody / mergeRun; mergeBody_bridge, mergeRun_bridge, gen_merge_eq
    _M + "reorder_vertices": "translated",                  # reorderVertices; reorder_spec (shares the stored vectors), reorder_then_translate_isolated; driven as producer + derived mesh
    _T + "translate": "translated",                         # translate_bridge, src_translate_round_trip
    _T + "rotate": "translated",                            # rotate_bridge, src_rotate_round_trip (argument coercion checked by shape)
    _T + "scale": "translated",                             # scale_bridge, src_scale_round_trip
    _T + "scale_xyz": "translated",                         # scaleXyz_bridge, scaleXyz_default_bridge
    _T + "normalize": "translated",                         # normalize_bridge, src_normalize_bbox
    _T + "fit_into_unit_cube": "translated",                # fitIntoUnitCube_bridge
    _T + "translate_to_origin": "translated",               # translateToOrigin_bridge
    _T + "flatten": "translated",                           # flatten_bridge (dim given; the `dim is None` variance block only binds locals)
    _V + "Vec.__new__": "modelled",                         # view-vs-copy rule: rebinding allocates, Vec(x) of an array is a view (MeshHeap)
    _V + "Vec.zeros": "modelled",                           # default origin V3.zero
    _V + "Vec.x": "modelled", _V + "Vec.y": "modelled", _V + "Vec.z": "modelled",   # components used by scale_xyz
    _R + "ring": "translated", _R + "flat_ring": "translated",      # vertex-store sites with provenance (the trigonometry is NOT modelled); ring_bridge, producers_world; old:      # producers: no vector object under two vertex ids
    _D + "__init__": "translated", _D + "id_vertices": "modelled",       # rawInit (re-wrap SHARES the containers); rawInit_bridge     # `range(len(vertices))`: MeshSrc.idVertices
    _D + "_prepare_vertices": "translated",     # prepareVertices (view / new array per vertex); prepareVertices_float3, prepareVertices_all_new (round 8); old:                            # Vec(x) views of caller rows: the from_arrays / raw families
}
SOURCE_MAP[_D + "_compute_dimensionality"] = "translated"          # rawDim; instanciateRaw_bridge
for _n in ("from_complex", "random", "X", "Y", "Z", "xy", "norm", "dot", "outer", "normalize", "normalized"):
    SOURCE_MAP[_V + "Vec." + _n] = _OOS_VEC
for _n in ("id_edges", "id_faces", "id_cells", "id_facecorners", "id_cellcorners", "dimensionality", "prepare",
           "_prepare_edges", "_prepare_edges.is_valid", "_prepare_faces", "_generate_face_corners", "_prepare_cells", "_generate_cell_corners",
           "_generate_cell_faces", "_complete_edges_from_faces", "_complete_faces_from_cells"):
    SOURCE_MAP[_D + _n] = _OOS_PREP


MANIFEST = {
    "level_text": ("Proof. Lean 4 theorems about an executable heap model of meshes (vertex ids -> references to Rat^3 cells; rebinding "
                   "vs in-place update): copy yields equal coordinates/elements in fresh cells; merge is the concatenation of the inputs' "
                   "coordinates in fresh cells with elements shifted by the running vertex count (indices stay inside their block), also "
                   "when an input is repeated; every rebinding transform (translate, scale, scale_xyz, rotate) maps the target's "
                   "coordinates exactly once by the requested map and leaves every other mesh unchanged for ANY state; in-place edits "
                   "(flatten, vertex edits) do so under the alias-freedom invariant, which every operation sequence preserves; "
                   "translate/scale/rotate round trips are identities over Rat; normalize leaves a non-degenerate box centred with largest extent 2, or anchored at 0 with largest extent 1. The pre-repair merge/translate are kept as legacy "
                   "definitions and their aliasing is refuted on a witness. The model is tied to mesh.py/transform.py by a whole-state "
                   "correspondence (every mesh observed after every operation) and a shadow-value oracle; library producers are monitored."),
    "level_note": ("Trusted: Lean kernel + standard axioms; hand-written model (checked against the code on the histories of each run); "
                   "float rounding bridged by tolerance; scipy Rotation; producers are monitored, not modelled."),
    "technique": "Lean 4 heap-model invariant proof (alias freedom) + algebraic round trips over Rat; differential whole-state correspondence",
}
