"""C09 — shortest paths are valid edge paths of minimum length.

Queries: q="sp" (shortest_path, targets int / list / set / tuple), q="set" (shortest_path_to_vertex_set),
q="border" (shortest_path_to_border). Weight modes: one / length / dict / attr (custom small non-negative ints,
zero included, derived from a hash of the vertex pair so that the oracle does not need mouette's edge ids).
"""
import json
from fractions import Fraction

from vlib.gen import graphs as H

PID = "C09"
TITLE = "Shortest paths are valid edge paths of minimum length"
LEAN_MODULES = ["Mouette.Props.C09", "Mouette.Props.C09PathMesh", "Mouette.Props.C09Bridge", "Mouette.Props.C09Source", "Mouette.Props.C09Heap", "Mouette.Props.C09Forest", "Mouette.Props.C09HeapQ", "Mouette.Props.C09Contract"]
REQUIRED_THEOREMS = ["reach_run", "run_terminates", "path_valid", "dijkstra_optimal", "dijkstra_optimal_one",
                     "reachable_iff_walk", "vertex_set_path_valid", "vertex_set_nearest", "popOK_firstMin",
                     "border_path_nearest", "border_none_iff", "build_path_spec", "path_mesh_segments_are_edges",
                     "bridge_relax_sp", "bridge_relax_set", "bridge_step_sp", "bridge_step_set", "bridge_init_sp", "bridge_init_set",
                     "bridge_item_lt_min", "source_step_preserves_invariant",
                     # round 4: the glue of paths.py translated imperatively (Generated/C09Glue.lean) + new theorems
                     "bridge_buildStep", "bridge_buildPath", "bridge_pathTo_sp", "bridge_backSet", "bridge_vertexSet",
                     "vertexSet_src_empty", "bridge_toBorder", "bridge_borderPick", "bridge_sinkWeight", "weight_modes_agree",
                     "weight_mode_table", "bridge_argument_tables", "targetsOf_single", "bridge_shortestPath",
                     "bridge_vertexSet_full", "source_shortest_path_optimal", "shortest_path_targets_independent",
                     "source_vertex_set_nearest", "vertex_set_start_in_set", "source_export_segments_are_edges",
                     # round 5: the connectivity dict of dicts as written, adjacency of the point-to-point query
                     "bridge_connBuild", "bridge_vertexSet_conn", "source_vertex_set_nearest_conn", "source_shortest_path_all_modes",
                     # round 6: the loops on the PriorityQueue class as translated (heapq binary heap), heap invariant in the loop invariant:
                     # no hypothesis on the queue; duplicated targets / set(targets)
                     "bridge_relaxH_sp", "bridge_relaxH_set", "bridge_stepH_sp", "bridge_stepH_set", "bridge_initH_sp", "bridge_initH_set",
                     "heap_run_final", "heap_dijkstra_optimal", "shortestPath_heap_eq", "source_heap_shortest_path_optimal",
                     "heap_unreachable_keyError", "source_heap_vertex_set_nearest", "bridge_connBuild_dups",
                     "source_all_translated_vertex_set", "source_shortest_path_dict",
                     # Euler-free forest facts of the predecessor table, packaged for C16 (Props/C09Forest.lean)
                     "pred_forest_of_final", "dijkstra_pred_forest", "heap_pred_forest",
                     # round 7: CPython's Lib/heapq.py translated (Generated/C09HeapQ.lean) and bridged to the binary-heap model
                     "heapq_is_model", "heapq_siftdown_is_bubbleUp", "queue_calls_heapq",
                     "heapq_pop_ok", "heapq_push_heap",
                     # round 7: the contract on mesh.edges / vertex_to_vertices / edge_id as a named structure (ConnContract)
                     "contract_same_graph", "contract_same_paths"]

# every function / method defined in the files the property is anchored in (mouette/processing/paths.py,
# mouette/utils/priority_queue.py): translated = a Generated definition is produced from that body on every run and a bridge
# theorem of Props/C09Bridge / Props/C09Source uses it
SOURCE_MAP = {
    "mouette/processing/paths.py::build_path": "translated",
    "mouette/processing/paths.py::_check_weight_argument": "translated",
    "mouette/processing/paths.py::shortest_path": "translated",
    "mouette/processing/paths.py::shortest_path_to_vertex_set": "translated",
    "mouette/processing/paths.py::shortest_path_to_border": "translated",
    "mouette/utils/priority_queue.py::PriorityItem.__lt__": "translated",
    "mouette/utils/priority_queue.py::PriorityQueue.__init__": "translated",
    "mouette/utils/priority_queue.py::PriorityQueue.empty": "translated",
    "mouette/utils/priority_queue.py::PriorityQueue.get": "translated",
    "mouette/utils/priority_queue.py::PriorityQueue.push": "translated",
    # not an anchor file of the property, but what the queue class calls: CPython's own Lib/heapq.py (heapq.__file__), translated in round 7
    "cpython:Lib/heapq.py::heappush": "translated",
    "cpython:Lib/heapq.py::heappop": "translated",
    "cpython:Lib/heapq.py::_siftdown": "translated",
    "cpython:Lib/heapq.py::_siftup": "translated",
    "mouette/utils/priority_queue.py::PriorityQueue.front": "out-of-scope: not used by paths.py (statement-level translation of the queue is property C20)",
    "mouette/utils/priority_queue.py::PriorityQueue.pop": "out-of-scope: alias of get, not used by paths.py (property C20)",
}
TRUSTED = [
    "Lean 4.33.0 kernel; axioms ⊆ {propext, Classical.choice, Quot.sound}",
    "model Mouette/Model/Dijkstra.lean + PathMesh.lean: both Dijkstra loops, both back-tracking loops, build_path, the single-target "
    "shortcut, the border glue and the weight / argument tables are re-translated from the working tree on every run "
    "(Generated/C09Loop.lean, C09Glue.lean) and proved equal to the model (Props/C09Bridge, C09Source); hand-modelled and tied by the "
    "correspondence of this run only: vertex_to_vertices / edge_id / mesh.edges (C01-C03) — the exact contract used is the structure "
    "ConnContract of Props/C09Contract.lean (edges sorted / in range / once each, edge_id(u,v) = e <-> edges[e] = keyify(u,v), vertex_to_vertices(v) = "
    "other end points of the edges at v), under which both queries walk the same weighted graph (contract_same_graph); the "
    "coordinate lookup mesh.vertices[i] of build_path, numpy/Attribute indexing of custom weights",
    "round 5: the construction of the `connectivity` dict of dicts is translated too (connBuild) and proved equal to sinkAdj (adjOf edges) "
    "under the ONLY iteration-order assumption that a Python dict iterates in insertion order and an assignment to an existing key keeps "
    "its position (Model/ConnDict.lean), for meshes whose edges are pairwise different unordered pairs without loops and pairwise "
    "different targets (duplicated targets: bridge_connBuild_dups — the dict keeps the distinct targets)",
    "round 6: the four PriorityQueue use sites of both loops are bound to priority_queue.py as translated by property C20 "
    "(Generated/C20PQ.lean -> Generated/C09Heap.lean); round 7: heapq itself is CPython's Lib/heapq.py (heappush, heappop, _siftdown, _siftup of the "
    "interpreter's own stdlib file, translated into Generated/C09HeapQ.lean and proved equal to Model/BinHeap.lean: heapq_is_model); trusted: "
    "that the C accelerator _heapq computes what Lib/heapq.py computes (C20 also compares pop by pop with the real class); the heap invariant is carried by the loop invariant (Lemmas/C09Heap.lean), so heap_dijkstra_optimal, "
    "source_heap_vertex_set_nearest, source_all_translated_vertex_set have no hypothesis on the queue",
    "in the theorems of Props/C09 (older, still valid for every tie-breaking): heapq abstracted to 'pop returns some pending item of minimum priority' (theorems hold for every such pop)",
    "the graph handed to the model is the implementation's own mesh.edges (edge extraction itself is C01-C03); the oracle "
    "re-derives the edges independently from faces/cells",
    "float edge lengths are taken as exact rationals; float additions of the implementation compared at 1e-9*scale+1e-12",
]
ASSUMPTIONS = ["non-negative weights (the statement's quantifier)", "agreement model/implementation only on the cases of this run",
               "unreachable targets are outside the statement ('every connected pair'): only the error token is compared"]
RULE = ("random polylines / oriented manifold surfaces / tet meshes (vlib.gen.mesh, incl. disconnected; 5% with integer coordinates "
        "handed over as ints), random start (int or numpy integer), targets as int / numpy integer / list / set / tuple / ndarray incl. "
        "start itself, duplicated targets, all vertices, singleton sets, start inside the set, border query; weights one / length / "
        "dict / Attribute with float, Python-int, numpy-int and fractional (k/4) values incl. zero-weight ties, and dict values that are NARROW "
        "numpy integer scalars (uint8 / int8 / int16 / uint16) whose sums along a path leave the range of the dtype (family "
        "narrow-int-weights on 6..8 x 6..8 grids: 4%); 20% of the cases run 1-3 "
        "earlier queries on the SAME mesh object first (histories); 12% of the meshes carry an edge attribute named 'length' (stored by an "
        "earlier edge_length() call and stale after 1-3 vertex moves, or holding arbitrary values): lengths are judged on the geometry at the "
        "time of the query; optional path polyline. Non-trivial = distinct case, "
        "call returned (no error) and some returned path has at least one edge")

_CACHE = {}


def _gen_query(rng, mesh):
    """one query description (without the mesh)"""
    nv = len(mesh["V"])
    start = rng.randrange(nv)
    r = rng.random()
    w = rng.choice(["one", "length", "length", "dict", "attr"])
    q = {"start": start, "w": w, "wseed": rng.randrange(1000), "export": rng.random() < 0.25}
    if w in ("dict", "attr"):
        q["wkind"] = rng.choice(["float", "float", "int", "frac", "npint", "np_uint8", "np_int8", "np_int16", "np_uint16"] if w == "dict"
                                else ["float", "float", "int", "frac"])
    if rng.random() < 0.12: q["srep"] = "npint"
    if r < 0.5:
        q["q"] = "sp"
        k = rng.choice([1, 1, 2, 3, nv])
        ts = [rng.randrange(nv) for _ in range(min(k, nv))] if k < nv else list(range(nv))
        if rng.random() < 0.1: ts.append(start)
        if rng.random() < 0.05: ts = [start]
        if len(ts) == 1: q["tform"] = rng.choice(["int", "int", "list", "npint", "ndarray"])
        else:
            q["tform"] = rng.choice(["list", "list", "set", "tuple", "ndarray"])
            if q["tform"] in ("list", "tuple", "ndarray") and rng.random() < 0.2: ts = ts + [ts[0]]      # duplicated target
        q["targets"] = ts
    elif r < 0.85 or mesh["kind"] != "surface":
        q["q"] = "set"
        k = rng.choice([1, 1, 2, 3, 5])
        ts = [rng.randrange(nv) for _ in range(k)]
        if rng.random() < 0.15: ts[rng.randrange(len(ts))] = start
        q["tform"] = rng.choice(["list", "list", "set", "tuple", "ndarray"])
        if q["tform"] == "set": ts = sorted(set(ts))
        elif rng.random() < 0.15: ts = ts + [ts[-1]]
        q["targets"] = ts
    else:
        q["q"] = "border"; q["targets"] = []; q["tform"] = "none"
    return q


def _int_mesh(rng):
    """small meshes with INTEGER coordinates (handed over as Python ints)"""
    from vlib.gen import mesh as G
    if rng.random() < 0.5:
        V, F = G.grid(rng, rng.randint(2, 4), rng.randint(2, 4), tri=rng.random() < 0.5, jitter=False, flat=True)
        return {"kind": "surface", "V": [[int(c) for c in v] for v in V], "F": F, "tag": "intgrid", "vint": True}
    n = rng.randint(3, 9)
    V = [[rng.randint(-4, 4), rng.randint(-4, 4), rng.randint(-2, 2)] for _ in range(n)]
    while len({tuple(v) for v in V}) < n:
        V = [[rng.randint(-6, 6), rng.randint(-6, 6), rng.randint(-2, 2)] for _ in range(n)]
    E = [[i, i + 1] for i in range(n - 1)] + ([[0, n - 1]] if n > 3 and rng.random() < 0.5 else [])
    return {"kind": "polyline", "V": V, "E": E, "tag": "intpoly", "vint": True}


def _relabel(mesh, a, b):
    """swap the vertex ids a and b"""
    sw = lambda v: b if v == a else a if v == b else v
    m = dict(mesh)
    V = [list(v) for v in mesh["V"]]
    V[a], V[b] = V[b], V[a]
    m["V"] = V
    for k in ("F", "C", "E"):
        if k in m: m[k] = [[sw(v) for v in el] for el in m[k]]
    m["tag"] = str(m.get("tag")) + "+last-near-start"
    return m


def _last_near_start(rng, mesh):
    """family `last-id-near-start`: the vertex with the LAST id (n-1) is a neighbour of the start (or the start
    itself), the targets are the vertices farthest from the start (set / border query with several targets)"""
    n = len(mesh["V"])
    E = H.edges_of(mesh)
    start = rng.randrange(n)
    nb = sorted({b if a == start else a for a, b in E if start in (a, b)})
    if not nb or n < 4: return None
    if rng.random() < 0.25:
        mesh = _relabel(mesh, start, n - 1); start = n - 1            # start == last id
    else:
        u = rng.choice(nb)
        if start == n - 1: mesh = _relabel(mesh, start, 0); start = 0; u = n - 1 if u == 0 else u
        if u != n - 1: mesh = _relabel(mesh, u, n - 1)
    hops = H.bfs_hops(n, H.edges_of(mesh), start)
    far = sorted((v for v in range(n) if hops[v] is not None and hops[v] >= 2 and v != n - 1), key=lambda v: -hops[v])
    q = {"start": start, "w": rng.choice(["one", "length", "dict"]), "wseed": rng.randrange(1000), "export": False,
         "family": "last-id-near-start"}
    if q["w"] == "dict": q["wkind"] = "float"
    if mesh["kind"] == "surface" and rng.random() < 0.3:
        q.update(q="border", targets=[], tform="none")
    else:
        if len(far) < 2: return None
        k = rng.choice([2, 2, 3])
        q.update(q="set", targets=far[:k], tform=rng.choice(["list", "set", "tuple"]))
        if q["tform"] == "set": q["targets"] = sorted(q["targets"])
    return dict(q, mesh=mesh)


def _narrow_weights(rng):
    """family `narrow-int-weights`: a flat grid (6..8 x 6..8), weights given as a dict of NARROW numpy integer scalars whose sums
    along a path leave the range of the dtype; start in one corner region, targets far away (point-to-point, set or border query)"""
    from vlib.gen import mesh as G
    nu, nv = rng.randint(6, 8), rng.randint(6, 8)
    V, F = G.grid(rng, nu, nv, tri=rng.random() < 0.5, jitter=False, flat=True)
    mesh = {"kind": "surface", "V": V, "F": F, "tag": f"grid{nu}x{nv}+narrow"}
    n = len(V)
    start = rng.choice([0, nv - 1, n - 1, n - nv, rng.randrange(n)])
    hops = H.bfs_hops(n, H.edges_of(mesh), start)
    far = sorted(range(n), key=lambda v: -(hops[v] or 0))
    q = {"start": start, "w": "dict", "wkind": rng.choice(sorted(NARROW)), "wseed": rng.randrange(1000), "export": False,
         "family": "narrow-int-weights"}
    r = rng.random()
    if r < 0.6:
        k = rng.choice([1, 1, 2, 3])
        q.update(q="sp", targets=[rng.choice(far[:10]) for _ in range(k)], tform="list" if k > 1 else rng.choice(["int", "list"]))
    elif r < 0.85:
        q.update(q="set", targets=sorted({rng.choice(far[:8]) for _ in range(rng.choice([1, 2, 3]))}), tform="list")
    else:
        q.update(q="sp", targets=list(range(n)), tform="list")
    return dict(q, mesh=mesh)


def cases(rng, tier):
    n = 4000 if tier == "quick" else 12000
    for i in range(n):
        if rng.random() < 0.04:
            yield _narrow_weights(rng); continue
        mesh = _int_mesh(rng) if rng.random() < 0.05 else H.gen_mesh(rng, tier)
        if rng.random() < 0.08:
            c = _last_near_start(rng, mesh)
            if c is not None:
                yield c; continue
        case = dict(_gen_query(rng, mesh), mesh=mesh)
        if rng.random() < 0.12:
            # history on the MESH: an edge attribute with the library's conventional name 'length' is on the mesh before the query —
            # stored by an earlier edge_length() call ("query", stale once vertices are moved) or holding arbitrary values; with
            # weights="length" the path must be shortest for the geometric lengths at the time of the query
            nvv = len(mesh["V"])
            store = rng.choice(["query", "query", "arbitrary", "arbitrary", "none"])
            nmv = rng.choice([1, 2, 3]) if store != "arbitrary" else rng.choice([0, 0, 1])
            case["geo"] = {"store": store, "moves": [[rng.randrange(nvv), [rng.randrange(-80, 81) / 8 for _ in range(3)]] for _ in range(nmv)]}
        if rng.random() < 0.2:
            # history: earlier queries on the SAME mesh object (connectivity caches, attributes left on the mesh)
            case["pre"] = [_gen_query(rng, mesh) for _ in range(rng.choice([1, 1, 2, 3]))]
        yield case
    if tier != "quick":
        # small scope, exhaustively: every start, all vertices as targets, every weight mode; every start x singleton / pair sets
        for _ in range(120):
            mesh = H.gen_mesh(rng, "quick")
            nv = len(mesh["V"])
            if nv > 10: continue
            for start in range(nv):
                w = rng.choice(["one", "length", "dict", "attr"])
                yield {"mesh": mesh, "start": start, "w": w, "wseed": rng.randrange(1000), "export": False, "q": "sp",
                       "tform": "list", "targets": list(range(nv))}
                for t in range(nv):
                    yield {"mesh": mesh, "start": start, "w": w, "wseed": rng.randrange(1000), "export": False, "q": "set",
                           "tform": "list", "targets": [t] if (t + start) % 2 else [t, (t + 1) % nv]}


# ------------------------------------------------------------------------------------------------
# running the real implementation
# ------------------------------------------------------------------------------------------------
def _targets_arg(case):
    import numpy as np
    ts = case["targets"]
    f = case["tform"]
    if f == "int": return int(ts[0])
    if f == "npint": return np.int64(ts[0])
    if f == "ndarray": return np.array(ts, dtype=np.int64)
    if f == "set": return set(ts)
    if f == "tuple": return tuple(ts)
    return list(ts)


# narrow numpy integer dtypes for caller-supplied weights: (lowest weight, number of different weights); a path of a few edges already
# has a total beyond the range of the dtype (uint8: 255, int8: 127, int16: 32767, uint16: 65535) — the exact sums are what counts
NARROW = {"np_uint8": (10, 31), "np_int8": (10, 31), "np_int16": (3000, 6001), "np_uint16": (5000, 15001)}


def _custom_weight(a, b, q):
    """exact custom weight of edge {a,b} for a query description (shared by harness and oracle)"""
    if q.get("wkind") == "frac": return Fraction(H.hash_weight(a, b, q["wseed"], 9), 4)
    if str(q.get("wkind", "")).startswith("np_"):
        lo, span = NARROW[q["wkind"]]
        return Fraction(lo + H.hash_weight(a, b, q["wseed"], span))
    return Fraction(H.hash_weight(a, b, q["wseed"]))


def _weights_arg(m, edges, q, name):
    """(argument for the implementation, exact weight per implementation edge)"""
    import numpy as np
    import mouette as M
    wmode = q["w"]
    if wmode == "one": return "one", [Fraction(1)] * len(edges)
    if wmode == "length":
        return "length", [Fraction(float(M.geometry.distance(m.vertices[a], m.vertices[b]))) for a, b in edges]
    wl = [_custom_weight(a, b, q) for a, b in edges]
    kind = q.get("wkind", "float")
    if kind.startswith("np_"):
        ty = np.dtype(kind[3:]).type
        conv = lambda x: ty(int(x))
    else:
        conv = {"float": float, "frac": float, "int": int, "npint": lambda x: np.int64(int(x))}[kind]
    if wmode == "dict":
        return {e: conv(wl[e]) for e in range(len(edges))}, wl
    attr = m.edges.create_attribute(name, int if kind == "int" else float, dense=(q["wseed"] % 2 == 0))
    for e in range(len(edges)): attr[e] = conv(wl[e])
    return attr, wl


class _NoReturn(BaseException):
    """raised by the CPU-time limit of one implementation call (a BaseException: `except Exception` in the implementation cannot swallow it)"""


class _cpu_limit:
    """CPU-time limit for ONE call of the implementation (ITIMER_VIRTUAL: user CPU seconds of this process, so machine load cannot
    trigger it; it does not touch the wall-clock alarm of vlib/core.py). A query takes milliseconds on the unchanged tree; a call that
    burns CPU_LIMIT seconds is reported as `err:DoesNotReturn` (and is stopped before its lists eat the memory of the machine)."""
    CPU_LIMIT = 3.0

    def __enter__(self):
        import signal, threading
        self.on = threading.current_thread() is threading.main_thread() and hasattr(signal, "ITIMER_VIRTUAL")
        if self.on:
            def _h(signum, frame): raise _NoReturn()
            self.old = signal.signal(signal.SIGVTALRM, _h)
            signal.setitimer(signal.ITIMER_VIRTUAL, self.CPU_LIMIT)
        return self

    def __exit__(self, *a):
        if self.on:
            import signal
            signal.setitimer(signal.ITIMER_VIRTUAL, 0)
            signal.signal(signal.SIGVTALRM, self.old)
        return False


def _call(m, edges, q, name):
    """run one query on mesh object m; returns (result dict, exact weights)"""
    import numpy as np
    from mouette.processing import paths as P
    weights, wl = _weights_arg(m, edges, q, name)
    start = np.int64(q["start"]) if q.get("srep") == "npint" else q["start"]
    out = {}
    try:
        with _cpu_limit():
            if q["q"] == "sp":
                res = P.shortest_path(m, start, _targets_arg(q), weights=weights, export_path_mesh=q["export"])
            elif q["q"] == "set":
                res = P.shortest_path_to_vertex_set(m, start, _targets_arg(q), weights=weights, export_path_mesh=q["export"])
            else:
                res = P.shortest_path_to_border(m, start, weights=weights, export_path_mesh=q["export"])
    except _NoReturn:
        out["r"] = "err:DoesNotReturn"
        out["msg"] = f"the call used more than {_cpu_limit.CPU_LIMIT:.0f} s of CPU time (milliseconds on the unchanged tree)"
        return out, wl
    except Exception as e:  # noqa
        out["r"] = H.exc_token(e)
        out["msg"] = str(e)[:80]
        return out, wl
    # the call returned: read the documented shape of the result; anything else is recorded as malformed (a finding of the oracle,
    # never a crash of the harness)
    out["r"] = "ok"
    try:
        ints = lambda p: [None if v is None else int(v) for v in p]
        if q["q"] == "sp":
            if q["export"]: res, pm = res
            out["paths"] = {str(int(t)): ints(p) for t, p in res.items()}
        elif q["q"] == "set":
            if len(res) != (3 if q["export"] else 2): raise ValueError("tuple length")
            if q["export"]: pm = res[2]
            out["ind"] = None if res[0] is None else int(res[0])
            out["paths"] = {"set": ints(res[1])}
        else:
            if q["export"]: res, pm = res
            out["paths"] = {"set": ints(res)}
        if q["export"]:
            pv = [[H.frac_str(Fraction(float(c))) for c in v] for v in pm.vertices]
            out["pm"] = [pv, [[int(a), int(b)] for (a, b) in pm.edges]]
    except Exception as e:  # noqa
        out["paths"] = {}
        out.pop("pm", None)
        out["malformed"] = f"{type(e).__name__}: {str(e)[:60]}; result {repr(res)[:80]}"
    return out, wl


def _build(mesh):
    if not mesh.get("vint"): return H.build(mesh)
    import mouette as M
    d = M.mesh.RawMeshData()
    d.vertices += [M.Vec(*[int(c) for c in v]) for v in mesh["V"]]
    if mesh["kind"] == "surface":
        d.faces += [list(f) for f in mesh["F"]]
        return M.mesh.SurfaceMesh(d)
    d.edges += [tuple(e) for e in mesh["E"]]
    return M.mesh.PolyLine(d)


def _run(case):
    """Returns dict(obs): r = 'ok' | err token; paths {t: [...]}; ind; pm = polyline (verts, edges) if exported;
    and the request graph (impl edges with exact weights). Earlier queries of the history (`pre`) are run first on the
    same mesh object; what is observed is the LAST query."""
    key = json.dumps(case, sort_keys=True)
    if _CACHE.get("k") == key:
        return _CACHE["v"]
    m = _build(case["mesh"])
    if case.get("geo"):
        import mouette as M
        g = case["geo"]
        if g["store"] == "query": M.attributes.edge_length(m)                 # default: persistent, edge attribute 'length'
        elif g["store"] == "arbitrary" and len(m.edges) and not m.edges.has_attribute("length"):
            a = m.edges.create_attribute("length", float, dense=(case["wseed"] % 2 == 0))
            for e in range(len(m.edges)): a[e] = ((e * 2654435761 + case["wseed"] * 40503) % 97) / 8 - 2
        for i, pos in g["moves"]: m.vertices[i] = M.Vec(*[float(c) for c in pos])
    edges = [(int(a), int(b)) for (a, b) in m.edges]
    pre = []
    for i, q in enumerate(case.get("pre", [])):
        r, _ = _call(m, edges, q, f"w_c09_pre{i}")
        pre.append(r["r"])
    out, wl = _call(m, edges, case, "w_c09")
    out["graph"] = [len(m.vertices), [(a, b, H.frac_str(w)) for (a, b), w in zip(edges, wl)]]
    if pre: out["pre"] = pre
    if case["q"] == "border":
        out["bflags"] = [1 if m.is_edge_on_border(a, b) else 0 for a, b in edges]
    _CACHE["k"] = key; _CACHE["v"] = out
    return out


def impl_observe(case):
    o = dict(_run(case))
    o.pop("graph", None); o.pop("msg", None); o.pop("pre", None); o.pop("bflags", None); o.pop("malformed", None)
    return json.dumps(o, sort_keys=True)


def _pm_tokens(case, o):
    """optional trailing section: the returned paths (dict order) for the model of build_path"""
    if not (case["export"] and o["r"] == "ok" and "pm" in o): return []
    ps = list(o["paths"].values())
    if any(v is None for p in ps for v in p): return []
    toks = ["pm", str(len(ps))]
    for p in ps: toks += [str(len(p))] + [str(v) for v in p]
    return toks


def model_request(case):
    o = _run(case)
    n, wedges = o["graph"]
    if case["q"] == "border":
        toks = ["border", str(n), str(len(wedges))]
        for (a, b, w), f in zip(wedges, o["bflags"]): toks += [str(a), str(b), w, str(f)]
        toks.append(str(case["start"]))
        return " ".join(toks + _pm_tokens(case, o))
    toks = ["sp" if case["q"] == "sp" else "set", str(n), str(len(wedges))]
    for a, b, w in wedges: toks += [str(a), str(b), w]
    toks.append(str(case["start"]))
    ts = sorted(set(case["targets"])) if case["q"] == "sp" else list(case["targets"])
    if any(t < 0 or t >= n for t in ts) or not ts: return None
    toks.append(str(len(ts))); toks += [str(t) for t in ts]
    return " ".join(toks + _pm_tokens(case, o))


def _path_weight(path, wmap):
    """(valid, exact weight, scale); wmap: {(a,b): Fraction}"""
    tot = Fraction(0)
    if any(not isinstance(v, int) for v in path): return False, None
    for a, b in zip(path, path[1:]):
        w = wmap.get(H.key2(a, b))
        if w is None or a == b: return False, None
        tot += w
    return True, tot


def compare(case, model, impl):
    o = _run(case)
    n, wedges = o["graph"]
    wmap = {H.key2(a, b): Fraction(w) for a, b, w in wedges}
    model, _, pm_part = model.partition(" | ")
    toks = model.split()
    if toks[0] == "bad-request": return "model rejected the request"
    if toks[0] == "err:NoBorder":
        return None if o["r"] == "err:Other(Exception)" else f"model: mesh has no border, implementation gave {o['r']}"
    if pm_part:
        # exported polyline vs the model of build_path (exact: vertex coordinates in order, edge index pairs in order)
        vpart, _, epart = pm_part.partition(" E:")
        vs = [int(t) for t in vpart[2:].split()]
        es = [[int(x) for x in e.split("-")] for e in epart.split(",") if e]
        V = _eff_V(case)
        want_v = [[H.frac_str(Fraction(float(c))) for c in V[v]] for v in vs]
        if o["pm"][0] != want_v: return "exported polyline vertices differ from the model of build_path"
        if o["pm"][1] != es: return f"exported polyline edges differ from the model of build_path: {o['pm'][1][:6]} vs {es[:6]}"
    if toks[0].startswith("err:"):
        # unreachable target: back-tracking reads path[None] -> KeyError
        return None if o["r"] == toks[0] else f"model {toks[0]} (unreachable target) but implementation gave {o['r']}"
    if o["r"] != "ok":
        return f"model answers {toks[:3]} but implementation raised {o['r']}"
    if "malformed" in o: return "the implementation's result does not have the documented shape: " + o["malformed"]
    tol = lambda sc: (Fraction(1, 10**9) * sc + Fraction(1, 10**12)) if case["w"] == "length" else 0
    start = case["start"]
    if case["q"] == "sp":
        ts = sorted(set(case["targets"]))
        # reply: ok (dist pathweight valid)*
        if len(toks) != 1 + 3 * len(ts): return "model reply malformed"
        for i, t in enumerate(ts):
            d, pw, valid = Fraction(toks[1 + 3 * i]), Fraction(toks[2 + 3 * i]), toks[3 + 3 * i]
            if valid != "1" or d != pw: return f"model's own path invalid for target {t} (contradicts theorem path_valid)"
            p = o["paths"].get(str(t))
            if p is None: return f"no path for target {t}"
            ok, w = _path_weight(p, wmap)
            if not p or p[0] != start or p[-1] != t or not ok: return f"implementation path to {t} is not a valid edge path: {p}"
            if abs(w - d) > tol(w): return f"target {t}: implementation path weight {w} differs from model distance {d}"
        if sorted(o["paths"].keys(), key=int) != [str(t) for t in ts]: return "key set of the returned dict differs from the targets"
        return None
    # set / border: reply ok <ind> <dist> <pathweight> <valid> <ind-in-targets>
    ind, d, pw, valid, member = int(toks[1]), Fraction(toks[2]), Fraction(toks[3]), toks[4], toks[5]
    if valid != "1" or d != pw or member != "1": return "model's own set path invalid (contradicts theorem vertex_set_path_valid)"
    p = o["paths"]["set"]
    ok, w = _path_weight(p, wmap)
    if not p or p[0] != start or not ok: return f"implementation path is not a valid edge path: {p}"
    if abs(w - d) > tol(w): return f"implementation path weight {w} differs from model distance to the set {d}"
    if "ind" in o and (not p or o["ind"] != p[-1]): return "returned index is not the end of the returned path"
    return None


# ------------------------------------------------------------------------------------------------
# oracle: the property, directly on the implementation (independent of the Lean model and of mesh.edges)
# ------------------------------------------------------------------------------------------------
def _eff_V(case):
    """vertex coordinates at the time of the query (after the moves of the `geo` history)"""
    V = [list(v) for v in case["mesh"]["V"]]
    for i, pos in (case.get("geo") or {}).get("moves", []): V[i] = [float(c) for c in pos]
    return V


def _oracle_weights(case, E):
    import math
    V = _eff_V(case)
    if case["w"] == "one": return [Fraction(1)] * len(E)
    if case["w"] == "length": return [Fraction(math.sqrt(float(H.sq_len(V, a, b)))) for a, b in E]
    return [_custom_weight(a, b, case) for a, b in E]


def oracle(case):
    out = []
    o = _run(case)
    mesh = case["mesh"]
    n = len(mesh["V"])
    E = H.edges_of(mesh)
    W = _oracle_weights(case, E)
    wmap = dict(zip(E, W))
    start = case["start"]
    dist = H.bellman_ford(n, [(a, b, w) for (a, b), w in zip(E, W)], start)
    q = case["q"]
    kind = mesh["kind"]
    tol = lambda sc: (Fraction(1, 10**8) * sc + Fraction(1, 10**11)) if case["w"] == "length" else 0
    if q == "border":
        targets = sorted({v for e in H.border_edges_of(mesh) for v in e})
        if not targets:
            return out      # no border: outside the statement
    else:
        targets = list(case["targets"])
    reach = [t for t in targets if dist[t] is not None]
    wtag = "custom" if case["w"] in ("dict", "attr") else case["w"]
    if o["r"] != "ok":
        connected = (len(reach) == len(targets)) if q == "sp" else bool(reach)
        if connected:
            shape = ("single-target" if len(targets) == 1 else "multi-target") if q != "border" else "border"
            nprep = ("targets=" + case["tform"]) if case["tform"] in ("npint", "ndarray") else \
                    ("start=npint" if case.get("srep") == "npint" else None)
            if o["r"] == "err:Type" and nprep: tag = nprep + "/" + shape
            elif o["r"] == "err:Type": tag = f"w={wtag}"
            elif o["r"] == "err:Key" and q == "set": tag = shape
            else: tag = f"w={wtag}/{shape}"
            out.append({"key": f"C09/{q}/raises/{o['r']}/{tag}",
                        "what": f"{q} query between connected vertices raises {o['r']} ({o.get('msg', '')}) for weights={case['w']}, {shape}",
                        "detail": f"start {start} targets {targets[:6]} tform {case['tform']}"})
        return out
    if "malformed" in o:
        connected = (len(reach) == len(targets)) if q == "sp" else bool(reach)
        if connected:
            out.append({"key": f"C09/{q}/malformed-result", "what": "the query returned, but not (index,) path(s) (, polyline) in the documented shape",
                        "detail": o["malformed"]})
        return out
    if q == "sp":
        paths = o["paths"]
        if sorted(paths.keys(), key=int) != [str(t) for t in sorted(set(targets))]:
            out.append({"key": "C09/sp/keys", "what": "returned dict is not keyed by the requested targets", "detail": str(sorted(paths))})
            return out
        for t in sorted(set(targets)):
            p = paths[str(t)]
            ok, w = _path_weight(p, wmap)
            if not p or p[0] != start: out.append({"key": "C09/sp/start", "what": "path does not begin at start", "detail": f"t={t} {p}"}); continue
            if p[-1] != t: out.append({"key": "C09/sp/end", "what": "path does not end at the target", "detail": f"t={t} {p}"}); continue
            if not ok: out.append({"key": "C09/sp/not-edge-path", "what": "path does not walk along mesh edges", "detail": f"t={t} {p}"}); continue
            if dist[t] is None:
                out.append({"key": "C09/sp/path-to-unreachable-target", "what": "a valid-looking path is returned to a target that is not connected to the start",
                            "detail": f"t={t} {p}"}); continue
            if w - dist[t] > tol(w):
                out.append({"key": f"C09/sp/not-minimal/w={wtag}", "what": "path weight exceeds the Bellman-Ford optimum",
                            "detail": f"t={t} weight {float(w)} optimum {float(dist[t])} path {p}"})
    else:
        p = o["paths"]["set"]
        ok, w = _path_weight(p, wmap)
        best = min((dist[t] for t in reach), default=None)
        if best is None:
            # no member of the set is connected to the start, yet the implementation answered with a path
            out.append({"key": f"C09/{q}/path-to-unreachable-set", "what": "a path is returned although no member of the set is connected to the start",
                        "detail": f"path {p} index {o.get('ind')} targets {targets[:6]}"})
        elif not p or p[0] != start: out.append({"key": f"C09/{q}/start", "what": "path does not begin at start", "detail": str(p)})
        elif p[-1] not in targets: out.append({"key": f"C09/{q}/end-not-member", "what": "path does not end at a member of the set", "detail": str(p)})
        elif not ok: out.append({"key": f"C09/{q}/not-edge-path", "what": "path does not walk along mesh edges", "detail": str(p)})
        else:
            if w - best > tol(w):
                out.append({"key": f"C09/{q}/not-nearest/w={wtag}", "what": "returned member is not nearest / path not shortest",
                            "detail": f"weight {float(w)} vs nearest {float(best)} path {p}"})
            if q == "set" and o.get("ind") != p[-1]:
                out.append({"key": "C09/set/index", "what": "returned index is not the end of the path", "detail": f"{o.get('ind')} {p}"})
            if start in targets and case["w"] == "one" and p != [start]:
                out.append({"key": f"C09/{q}/start-in-set", "what": "start inside the set but path is not trivial", "detail": str(p)})
    if case["export"] and not out and "pm" in o:
        # the optional polyline: its segments (as coordinate pairs) are exactly the edges of the returned paths
        V = _eff_V(case)
        co = lambda v: tuple(H.frac_str(Fraction(float(c))) for c in V[v])
        want = sorted(tuple(sorted((co(a), co(b)))) for p in o["paths"].values() for a, b in zip(p, p[1:]))
        pv, pe = o["pm"]
        try:
            got = sorted(tuple(sorted((tuple(pv[a]), tuple(pv[b])))) for a, b in pe)
        except IndexError:
            got = None
        if got != want:
            multi = "multi-target" if len(o["paths"]) > 1 else "single"
            out.append({"key": f"C09/{q}/path-mesh/{multi}", "what": "exported path polyline does not consist of the segments of the returned paths",
                        "detail": f"paths {list(o['paths'].values())[:4]} polyline edges {pe[:8]}"})
    return out


def nontrivial(case, obs):
    o = json.loads(obs)
    return o["r"] == "ok" and any(len(p) >= 2 for p in o["paths"].values())


def classify(case, obs):
    o = json.loads(obs)
    ks = ["q:" + case["q"], "mesh:" + case["mesh"]["kind"], "w:" + case["w"], "tform:" + case["tform"], "res:" + o["r"],
          "nv:" + ("<=8" if len(case["mesh"]["V"]) <= 8 else "<=30" if len(case["mesh"]["V"]) <= 30 else ">30")]
    if case["q"] != "border":
        ks.append("ntargets:" + (str(len(case["targets"])) if len(case["targets"]) <= 3 else ">3"))
        if case["start"] in case["targets"]: ks.append("start-in-targets")
    if o["r"] == "ok":
        L = max((len(p) for p in o["paths"].values()), default=0)
        ks.append("maxpath:" + ("1" if L == 1 else "2-4" if L <= 4 else ">4"))
    if case["export"]: ks.append("export")
    if "2comp" in case["mesh"].get("tag", ""): ks.append("disconnected")
    if case["w"] in ("dict", "attr"): ks.append("wkind:" + case.get("wkind", "float"))
    if case.get("srep"): ks.append("start:npint")
    if case["q"] != "border" and len(set(case["targets"])) < len(case["targets"]): ks.append("dup-targets")
    if case["q"] == "sp" and case["targets"] == [case["start"]]: ks.append("start=target")
    if case.get("pre"): ks.append("history:%d-earlier-queries" % len(case["pre"]))
    if case["mesh"].get("vint"): ks.append("int-coordinates")
    if case.get("geo"): ks.append("history:edge-attr-length=" + case["geo"]["store"] + (",vertices-moved" if case["geo"]["moves"] else ""))
    if case.get("family"): ks.append("family:" + case["family"] + (":start=last" if case["start"] == len(case["mesh"]["V"]) - 1 else ""))
    return ks


def describe(case):
    m = case["mesh"]
    return {"mesh": f"{m['kind']} {m.get('tag')} nv={len(m['V'])}", "q": case["q"], "start": case["start"],
            "targets": case["targets"][:8], "tform": case["tform"], "w": case["w"], "export": case["export"]}


def shrink(case, still):
    c = dict(case)
    if c.get("pre"):
        trial = {k: v for k, v in c.items() if k != "pre"}
        if still(trial): c = trial
        else:
            while len(c["pre"]) > 1:
                trial = dict(c, pre=c["pre"][1:])
                if still(trial): c = trial
                else: break
    for kk in ("srep", "geo"):
        if c.get(kk):
            trial = {k: v for k, v in c.items() if k != kk}
            if still(trial): c = trial
    ts = list(c["targets"])
    i = 0
    while len(ts) > 1 and i < len(ts):
        trial = dict(c, targets=ts[:i] + ts[i + 1:])
        if trial["tform"] in ("int", "npint") and len(trial["targets"]) != 1: trial["tform"] = "list"
        if still(trial): ts = trial["targets"]; c = trial
        else: i += 1
    if c["export"]:
        trial = dict(c, export=False)
        if still(trial): c = trial
    # try a tiny mesh of the same kind
    tiny = {"surface": {"kind": "surface", "V": [[0., 0., 0.], [1., 0., 0.], [0., 1., 0.], [1., 1., 0.]], "F": [[0, 1, 2], [1, 3, 2]], "tag": "tiny"},
            "volume": {"kind": "volume", "V": [[0., 0., 0.], [1., 0., 0.], [0., 1., 0.], [0., 0., 1.]], "C": [[0, 1, 2, 3]], "tag": "tiny"},
            "polyline": {"kind": "polyline", "V": [[0., 0., 0.], [1., 0., 0.], [2., 0., 0.]], "E": [[0, 1], [1, 2]], "tag": "tiny"}}[c["mesh"]["kind"]]
    for st, tg in ((0, [2]), (0, [1, 2]), (0, [2, 1, 0])):
        trial = dict(c, mesh=tiny, start=st, targets=tg[:max(1, len(c["targets"]))] if c["q"] != "border" else [])
        if trial["tform"] in ("int", "npint") and len(trial["targets"]) != 1: trial["tform"] = "list"
        trial.pop("pre", None); trial.pop("geo", None)
        if still(trial): return trial
    return c


def search_on_break(rng, broken, mismatches):
    return list(cases(rng, "quick"))[:400]


def translate():
    from . import c09_translate, c09_glue, c09_heapq
    return c09_translate.translate() + c09_glue.translate() + c09_heapq.translate()


MANIFEST = {
    "level_text": ("Proof. Lean 4 theorems about an executable model of the Dijkstra loop of mouette/processing/paths.py exactly as coded "
                   "(lazy deletion, push on every relaxation of an unvisited neighbour, skip visited on pop; queue abstracted to 'pop some "
                   "pending item of minimum priority'): for every graph, start, non-negative rational weights and every admissible "
                   "tie-breaking the loop terminates within 1+sum(deg) iterations, the predecessor back-tracking terminates and returns, for "
                   "every vertex connected to the start, a path that begins at start, ends at the target, follows adjacencies and whose weight "
                   "equals the final label, which is <= the weight of every walk (optimality); the vertex-set variant (virtual sink at weight "
                   "0) returns a member of the set at minimum distance with a shortest path to it lying in the original graph; the border query "
                   "is that variant on the end points of the border-flagged edges; the exported polyline (build_path) has exactly the consecutive "
                   "pairs of every path as edges, offset by the running vertex count, each joining adjacent mesh vertices. The model is "
                   "tied to the Python code (a) by translation: both Dijkstra loops, both back-tracking loops, build_path, the weight-mode "
                   "dispatch, the single-target shortcut, the border glue and the argument tables are re-extracted from the working tree on "
                   "every run and proved equal to the model (bridge theorems), so the theorems are restated on the source-level compositions "
                   "shortestPath_src / vertexSet_full; (b) by a correspondence on generated meshes (validity + exact total weight) and a "
                   "direct oracle (independent exact Bellman-Ford) for what stays hand-modelled (dict iteration order, heapq)."),
    "level_note": ("Trusted: Lean kernel + propext/Classical.choice/Quot.sound; the hand-written model (checked against the code on the "
                   "cases of each run only); heapq as 'some pending minimum'; float lengths read as exact rationals, float sums compared "
                   "at 1e-9 relative; the graph is the implementation's mesh.edges (oracle re-derives it from faces/cells)."),
    "technique": "Lean 4 invariant proof over an executable model of the loop; differential correspondence + independent Bellman-Ford oracle",
}
