"""Translated fragments for C12: the closed-form arithmetic expressions of geometry.cross, det_2x2, det_3x3,
rotations.rotate_2d, rotations.rotate_around_axis, the factor 1e-12 of the RELATIVE parallelism test of intersect_2lines2D
(`abs(det_2x2(d1,d2)) <= 1e-12*norm(d1)*norm(d2)`) and the 1e-12 threshold of distance_to_segment2D are re-extracted from $MOUETTE_REPO with `ast` on every run and emitted VERBATIM (same
operators, same operand order) as Lean terms over ℚ in lean/Mouette/Generated/C12.lean.  Bridge theorems in
Props/C12.lean (`gen_cross_eq`, …) prove that they denote the hand-written model the algebraic theorems are about.
An AST shape that is not recognised makes the site fail (broken obligation), never silently skipped."""
import ast
from fractions import Fraction

from .. import translate as T

_OPS = {ast.Add: "+", ast.Sub: "-", ast.Mult: "*", ast.Div: "/"}
_KEYWORDS = {"by": "by_", "at": "at_", "from": "from_", "in": "in_", "do": "do_", "then": "then_", "fun": "fun_", "end": "end_"}


def _name(s):
    return _KEYWORDS.get(s, s)


def expr(node, names):
    """float arithmetic expression -> Lean term over Rat; `names` collects (kind, name) of free variables:
    kind 's' scalar, 'v' vector (Nat -> Rat), 'm' matrix (Nat -> Nat -> Rat)."""
    if isinstance(node, ast.BinOp) and type(node.op) in _OPS:
        return f"({expr(node.left, names)} {_OPS[type(node.op)]} {expr(node.right, names)})"
    if isinstance(node, ast.UnaryOp) and isinstance(node.op, ast.USub):
        return f"(-{expr(node.operand, names)})"
    if isinstance(node, ast.Constant) and isinstance(node.value, (int, float)) and not isinstance(node.value, bool):
        f = Fraction(str(node.value)) if isinstance(node.value, float) else Fraction(node.value)
        return f"(({f.numerator} : Rat) / {f.denominator})" if f.denominator != 1 else f"({f.numerator} : Rat)"
    if isinstance(node, ast.Name):
        names.add(("s", _name(node.id)))
        return _name(node.id)
    if isinstance(node, ast.Attribute) and isinstance(node.value, ast.Name) and node.attr in ("x", "y", "z"):
        n = f"{_name(node.value.id)}_{node.attr}"
        names.add(("s", n))
        return n
    if isinstance(node, ast.Subscript) and isinstance(node.value, ast.Name):
        idx = node.slice
        if isinstance(idx, ast.Constant) and isinstance(idx.value, int):
            names.add(("v", _name(node.value.id)))
            return f"{_name(node.value.id)} {idx.value}"
        if isinstance(idx, ast.Tuple) and len(idx.elts) == 2 and all(isinstance(e, ast.Constant) and isinstance(e.value, int) for e in idx.elts):
            names.add(("m", _name(node.value.id)))
            return f"{_name(node.value.id)} {idx.elts[0].value} {idx.elts[1].value}"
    raise T.TranslateError(f"unsupported arithmetic expression: {ast.dump(node)[:120]}")


def _def(name, node, order=None):
    names = set()
    body = expr(node, names)
    ks = {n: k for k, n in names}
    order = order or sorted(ks)
    missing = [n for n in ks if n not in order]
    if missing:
        raise T.TranslateError(f"{name}: unexpected free variables {missing}")
    ty = {"s": "Rat", "v": "Nat → Rat", "m": "Nat → Nat → Rat"}
    params = " ".join(f"({n} : {ty[ks.get(n, 's')]})" for n in order)
    return f"def {name} {params} : Rat :=\n  {body}\n\n"


def _returns(fn):
    return [n for n in ast.walk(fn) if isinstance(n, ast.Return)]


def _assign_to(fn, pred):
    out = [n for n in ast.walk(fn) if isinstance(n, ast.Assign) and len(n.targets) == 1 and pred(n.targets[0])]
    return out


def _threshold(fn, what):
    """the float constant c of the (first) comparison `… < c` in fn"""
    for n in ast.walk(fn):
        if isinstance(n, ast.Compare) and len(n.ops) == 1 and isinstance(n.ops[0], ast.Lt) and \
                isinstance(n.comparators[0], ast.Constant) and isinstance(n.comparators[0].value, float):
            return Fraction(str(n.comparators[0].value))
    raise T.TranslateError(f"{what}: no `< <float>` threshold found")


def _relative_threshold(fn, what):
    """`abs(det_2x2(a, b)) <= c * norm(a) * norm(b)` (any order of the three factors, `<` or `<=`): returns (c, closed) and checks
    that the two `norm` factors are the two arguments of the determinant"""
    for n in ast.walk(fn):
        if not (isinstance(n, ast.Compare) and len(n.ops) == 1): continue
        op, left, right = n.ops[0], n.left, n.comparators[0]
        if isinstance(op, (ast.Gt, ast.GtE)): op, left, right = (ast.Lt() if isinstance(op, ast.Gt) else ast.LtE()), right, left
        if not isinstance(op, (ast.Lt, ast.LtE)): continue
        if not (isinstance(left, ast.Call) and getattr(left.func, "id", None) == "abs" and len(left.args) == 1
                and isinstance(left.args[0], ast.Call) and getattr(left.args[0].func, "id", None) == "det_2x2" and len(left.args[0].args) == 2):
            continue
        dargs = sorted(ast.unparse(a) for a in left.args[0].args)
        factors, stack = [], [right]
        while stack:
            x = stack.pop()
            if isinstance(x, ast.BinOp) and isinstance(x.op, ast.Mult): stack += [x.left, x.right]
            else: factors.append(x)
        consts = [x for x in factors if isinstance(x, ast.Constant) and isinstance(x.value, float)]
        norms = [x for x in factors if isinstance(x, ast.Call) and ast.unparse(x.func) in ("norm", "np.linalg.norm", "geom.norm") and len(x.args) == 1 and not x.keywords]
        if len(consts) != 1 or len(norms) != 2 or len(factors) != 3:
            raise T.TranslateError(f"{what}: right-hand side `{ast.unparse(right)[:60]}` is not `<float> * norm(.) * norm(.)`")
        if sorted(ast.unparse(x.args[0]) for x in norms) != dargs:
            raise T.TranslateError(f"{what}: the norms are not those of the two directions of the determinant")
        return Fraction(str(consts[0].value)), isinstance(op, ast.LtE)
    raise T.TranslateError(f"{what}: no `abs(det_2x2(a, b)) <= <float> * norm(a) * norm(b)` test found")


def translate():
    chunks = {}
    sites = []
    gtree, _ = T.load("mouette/geometry/geometry.py")
    rtree, _ = T.load("mouette/geometry/rotations.py")

    def s_cross():
        fn = T.find_def(gtree, "cross")
        rets = _returns(fn)
        if len(rets) != 1 or not (isinstance(rets[0].value, ast.Call) and getattr(rets[0].value.func, "id", None) == "Vec" and len(rets[0].value.args) == 3):
            raise T.TranslateError("cross: expected `return Vec(e0, e1, e2)`")
        chunks["cross"] = "".join(_def(f"cross{i}", a, ["A", "B"]) for i, a in enumerate(rets[0].value.args))
        return "3 component expressions"

    def s_det2():
        fn = T.find_def(gtree, "det_2x2")
        rets = _returns(fn)
        if len(rets) != 1:
            raise T.TranslateError("det_2x2: expected one return")
        chunks["det2"] = _def("det2", rets[0].value, ["ax", "ay", "bx", "by_"])
        return "ax*by - ay*bx"

    def s_det3():
        fn = T.find_def(gtree, "det_3x3")
        asg = _assign_to(fn, lambda t: isinstance(t, ast.Name) and t.id == "d")
        if len(asg) != 1:
            raise T.TranslateError("det_3x3: expected one assignment to d")
        chunks["det3"] = _def("det3", asg[0].value, ["mat"])
        return "Sarrus expression"

    def s_rot2():
        fn = T.find_def(rtree, "rotate_2d")
        out = ""
        for comp in ("x", "y"):
            asg = _assign_to(fn, lambda t, c=comp: isinstance(t, ast.Attribute) and t.attr == c and isinstance(t.value, ast.Name) and t.value.id == "v2")
            if len(asg) != 1:
                raise T.TranslateError(f"rotate_2d: expected one assignment to v2.{comp}")
            out += _def(f"rot2{comp}", asg[0].value, ["v", "ca", "sa"])
        chunks["rot2"] = out
        return "2 component expressions"

    def s_rotax():
        fn = T.find_def(rtree, "rotate_around_axis")
        out = ""
        for comp in ("x", "y", "z"):
            asg = _assign_to(fn, lambda t, c=comp: isinstance(t, ast.Attribute) and t.attr == c and isinstance(t.value, ast.Name) and t.value.id == "out")
            asg = [a for a in asg if not (isinstance(a.value, ast.Call))]
            if len(asg) != 1:
                raise T.TranslateError(f"rotate_around_axis: expected one assignment to out.{comp}")
            out += _def(f"rotax{comp}", asg[0].value, ["inp_x", "inp_y", "inp_z", "u", "v", "w", "c", "s"])
        chunks["rotax"] = out
        return "3 Rodrigues rows"

    def s_thr():
        a, closed = _relative_threshold(T.find_def(gtree, "intersect_2lines2D"), "intersect_2lines2D")
        b = _threshold(T.find_def(gtree, "distance_to_segment2D"), "distance_to_segment2D")
        chunks["thr"] = (f"/-- `intersect_2lines2D`: the factor `c` of the RELATIVE parallelism test `|det(d1,d2)| ≤ c·|d1|·|d2|` -/\n"
                         f"def parallelThreshold : Rat := ({a.numerator} : Rat) / {a.denominator}\n\n"
                         f"/-- the test is relative to the lengths of both directions (the sine of their angle), not an absolute bound on the determinant -/\n"
                         f"def parallelRelative : Bool := true\n\n"
                         f"/-- `<=` (a zero direction is parallel to everything) rather than `<` -/\n"
                         f"def parallelClosed : Bool := {'true' if closed else 'false'}\n\n"
                         f"def segmentThreshold : Rat := ({b.numerator} : Rat) / {b.denominator}\n\n")
        return f"relative {a} ({'<=' if closed else '<'}), {b}"

    for name, fn in (("geometry.py:cross", s_cross), ("geometry.py:det_2x2", s_det2), ("geometry.py:det_3x3", s_det3),
                     ("rotations.py:rotate_2d", s_rot2), ("rotations.py:rotate_around_axis", s_rotax),
                     ("geometry.py:1e-12 thresholds", s_thr)):
        sites.append(T.site(name, fn))
    # a site that failed leaves its definitions out: the bridge theorems then do not compile (broken obligation)
    body = "namespace Mouette.Generated.C12\n\n" + "".join(chunks.get(k, "") for k in ("cross", "det2", "det3", "rot2", "rotax", "thr")) + \
           "end Mouette.Generated.C12\n"
    T.write_generated("C12", body)
    return sites
