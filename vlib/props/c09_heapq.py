"""Round 7 — CPython's own Lib/heapq.py (the file `heapq.__file__` of the interpreter that runs the implementation; the C
accelerator `_heapq` mirrors these pure-Python functions) translated statement by statement into
lean/Mouette/Generated/C09HeapQ.lean:  heappush, heappop, _siftdown, _siftup.

Read imperatively: every assignment to a local, every `heap[i] = x`, `heap.append`, `heap.pop()` (IndexError on the empty
list = `none`), the `while` loops with their `continue` / `break` (a loop becomes a fuel recursion over (heap, carried
locals); the fuel — `pos + 1` for _siftdown, `endpos` for _siftup — is the only thing that is not read from the source and is
shown sufficient by the bridges), the calls between the four functions, `>>`, `2*pos + 1`, the comparison `a < b` of items
(`PriorityItem.__lt__`, `BinHeap.lt`).
Bridges (Lemmas/C09HeapQ.lean): `HeapQ.heappush = BinHeap.heappush`, `HeapQ.heappop = BinHeap.heappop` — the hand model of
heapq (exchange formulation) used by C09's heap loop and by C20 computes what Lib/heapq.py computes.
A shape outside the vocabulary raises TranslateError (broken obligation) and a stub is written.
VERIF_HEAPQ_FILE overrides the file (used by the self-test of the translator only).
"""
import ast
import os

from .. import translate as T
from ..translate import TranslateError

FUEL = {"_siftdown": "(pos + 1)", "_siftup": "endpos"}
LEAN = {"_siftdown": "siftdown", "_siftup": "siftup", "heappush": "heappush", "heappop": "heappop"}


def heapq_file():
    p = os.environ.get("VERIF_HEAPQ_FILE")
    if p: return p
    import heapq
    return heapq.__file__


def _name(n, *ids):
    return isinstance(n, ast.Name) and (not ids or n.id in ids)


def _strip(stmts):
    return [s for s in stmts if not (isinstance(s, ast.Expr) and isinstance(s.value, ast.Constant)) and not isinstance(s, ast.Pass)]


class Fn:
    def __init__(self, f):
        self.f = f
        self.W = f.name
        self.heap = f.args.args[0].arg
        if self.heap != "heap": raise TranslateError(f"{self.W}: first parameter is not `heap`")
        self.ty = {}                      # local -> "nat" | "item"
        for a in f.args.args[1:]:
            self.ty[a.arg] = "item" if a.arg == "item" else "nat"
        self.aux = []                     # loop definitions emitted before the function

    # ---- expressions ---------------------------------------------------------------------------
    def nat(self, n):
        if isinstance(n, ast.Constant) and isinstance(n.value, int) and not isinstance(n.value, bool) and n.value >= 0: return str(n.value)
        if _name(n) and self.ty.get(n.id) == "nat": return n.id
        if isinstance(n, ast.Call) and _name(n.func, "len") and len(n.args) == 1 and _name(n.args[0], self.heap): return "heap.length"
        if isinstance(n, ast.BinOp):
            op = {ast.Add: "+", ast.Sub: "-", ast.Mult: "*", ast.RShift: ">>>", ast.FloorDiv: "/"}.get(type(n.op))
            if op: return f"({self.nat(n.left)} {op} {self.nat(n.right)})"
        raise TranslateError(f"{self.W}: integer expression not recognised: {ast.unparse(n)[:60]}")

    def item(self, n):
        if _name(n) and self.ty.get(n.id) == "item": return n.id
        if isinstance(n, ast.Subscript) and _name(n.value, self.heap): return f"at_ heap {self.nat(n.slice)}"
        raise TranslateError(f"{self.W}: item expression not recognised: {ast.unparse(n)[:60]}")

    def is_item(self, n):
        return (_name(n) and self.ty.get(n.id) == "item") or (isinstance(n, ast.Subscript) and _name(n.value, self.heap))

    def cond(self, n):
        if isinstance(n, ast.BoolOp) and isinstance(n.op, ast.And): return " ∧ ".join(self.cond(v) for v in n.values)
        if isinstance(n, ast.UnaryOp) and isinstance(n.op, ast.Not): return f"¬ ({self.cond(n.operand)})"
        if _name(n, self.heap): return "0 < heap.length"
        if isinstance(n, ast.Compare) and len(n.ops) == 1:
            a, b, op = n.left, n.comparators[0], n.ops[0]
            if isinstance(op, ast.Gt): a, b, op = b, a, ast.Lt()
            if isinstance(op, ast.Lt):
                if self.is_item(a) and self.is_item(b):
                    ia, ib = self.item(a), self.item(b)
                    wrap = lambda s: f"({s})" if " " in s else s
                    return f"lt {wrap(ia)} {wrap(ib)} = true"
                return f"{self.nat(a)} < {self.nat(b)}"
        raise TranslateError(f"{self.W}: condition not recognised: {ast.unparse(n)[:60]}")

    def assign(self, s):
        """local assignment / heap update -> one Lean `let` line, or None"""
        if isinstance(s, ast.Assign) and len(s.targets) == 1:
            t, v = s.targets[0], s.value
            if _name(t):
                if self.is_item(v):
                    self.ty[t.id] = "item"; return f"let {t.id} := {self.item(v)}"
                e = self.nat(v); self.ty[t.id] = "nat"; return f"let {t.id} := {e}"
            if isinstance(t, ast.Subscript) and _name(t.value, self.heap):
                x = self.item(v)
                return f"let heap := heap.set {self.nat(t.slice)} " + (f"({x})" if " " in x else x)
        if isinstance(s, ast.Expr) and isinstance(s.value, ast.Call):
            c = s.value
            if isinstance(c.func, ast.Attribute) and _name(c.func.value, self.heap) and c.func.attr == "append" and len(c.args) == 1:
                return f"let heap := heap ++ [{self.item(c.args[0])}]"
            if _name(c.func) and c.func.id in ("_siftdown", "_siftup") and c.args and _name(c.args[0], self.heap) and not c.keywords:
                return f"let heap := {LEAN[c.func.id]} heap " + " ".join(self.nat(a) for a in c.args[1:])
        return None

    # ---- loops ---------------------------------------------------------------------------------
    def loop(self, w):
        if w.orelse: raise TranslateError(f"{self.W}: while/else")
        assigned = []
        for n in ast.walk(w):
            if isinstance(n, ast.Assign) and _name(n.targets[0]) and n.targets[0].id not in assigned: assigned.append(n.targets[0].id)
        carried = [v for v in assigned if v in self.ty]               # defined before the loop -> loop state
        read = []
        for n in ast.walk(w):
            if _name(n) and isinstance(n.ctx, ast.Load) and n.id in self.ty and n.id not in assigned and n.id not in read: read.append(n.id)
        fixed = sorted(read, key=lambda v: (self.ty[v] != "item", v))
        lname = LEAN[self.W] + "Loop"
        tyof = lambda v: "Item" if self.ty[v] == "item" else "Nat"
        state_ty = " × ".join(["List Item"] + ["Nat"] * len(carried))
        sig = f"def {lname} " + " ".join(f"({v} : {tyof(v)})" for v in fixed) + " : Nat → List Item → " + "".join("Nat → " for _ in carried) + state_ty
        ret = "(" + ", ".join(["heap"] + carried) + ")"
        rec = f"{lname} " + " ".join(fixed) + " fuel heap " + " ".join(carried)
        saved = dict(self.ty)

        def comp(stmts, ind):
            pad = " " * ind
            stmts = _strip(stmts)
            if not stmts: return [pad + rec]
            s, rest = stmts[0], stmts[1:]
            if isinstance(s, ast.Continue): return [pad + rec]
            if isinstance(s, ast.Break): return [pad + ret]
            a = self.assign(s)
            if a: return [pad + a] + comp(rest, ind)
            if isinstance(s, ast.If) and not s.orelse:
                b = _strip(s.body)
                if b and isinstance(b[-1], (ast.Continue, ast.Break)):
                    els = comp(rest, ind + 2)
                    if len(els) == 1: return [pad + f"if {self.cond(s.test)} then"] + comp(b, ind + 2) + [pad + "else " + els[0].strip()]
                    return [pad + f"if {self.cond(s.test)} then"] + comp(b, ind + 2) + [pad + "else"] + els
                if len(b) == 1 and isinstance(b[0], ast.Assign) and _name(b[0].targets[0]) and self.ty.get(b[0].targets[0].id) == "nat":
                    x = b[0].targets[0].id
                    return [pad + f"let {x} := if {self.cond(s.test)} then {self.nat(b[0].value)} else {x}"] + comp(rest, ind)
            raise TranslateError(f"{self.W}: statement of the loop not recognised: {ast.unparse(s)[:80]}")
        body = comp(w.body, 6)
        self.ty = saved
        self.aux += [sig, "  | 0, " + ", ".join(["heap"] + carried) + " => " + ret,
                     "  | fuel+1, " + ", ".join(["heap"] + carried) + " =>", f"    if {self.cond(w.test)} then"] + body + [f"    else {ret}", ""]
        return lname, fixed, carried

    # ---- function body -------------------------------------------------------------------------
    def compile(self):
        body = _strip(self.f.body)
        params = " ".join(f"({a.arg} : {'Item' if self.ty[a.arg] == 'item' else 'Nat'})" for a in self.f.args.args[1:])
        lines = []
        if self.W == "heappop":
            # lastelt = heap.pop()  (IndexError on the empty list); if heap: …; return returnitem ; return lastelt
            s0 = body[0]
            ok = isinstance(s0, ast.Assign) and _name(s0.targets[0]) and isinstance(s0.value, ast.Call) and isinstance(s0.value.func, ast.Attribute) and \
                _name(s0.value.func.value, self.heap) and s0.value.func.attr == "pop" and not s0.value.args
            if not ok: raise TranslateError(f"{self.W}: does not begin with `lastelt = heap.pop()`")
            last = s0.targets[0].id
            self.ty[last] = "item"
            if not (len(body) == 3 and isinstance(body[1], ast.If) and not body[1].orelse and isinstance(body[2], ast.Return) and _name(body[2].value, last)):
                raise TranslateError(f"{self.W}: expected `if heap: …; return returnitem` followed by `return {last}`")
            inner = _strip(body[1].body)
            if not (isinstance(inner[-1], ast.Return) and _name(inner[-1].value)): raise TranslateError(f"{self.W}: the branch does not return a local")
            il = []
            for s in inner[:-1]:
                a = self.assign(s)
                if not a: raise TranslateError(f"{self.W}: statement not recognised: {ast.unparse(s)[:80]}")
                il.append("      " + a)
            if self.ty.get(inner[-1].value.id) != "item": raise TranslateError(f"{self.W}: returned value is not an item")
            lines = [f"def heappop (heap : List Item) : Option (Item × List Item) :=", "  match heap.getLast? with", "  | none => none",
                     f"  | some {last} =>", "    let heap := heap.dropLast", f"    if {self.cond(body[1].test)} then"] + il + \
                    [f"      some ({inner[-1].value.id}, heap)", f"    else some ({last}, heap)", ""]
            return self.aux + lines
        for s in body:
            if isinstance(s, ast.While):
                lname, fixed, carried = self.loop(s)
                lines.append(f"  let r := {lname} " + " ".join(fixed) + f" {FUEL[self.W]} heap " + " ".join(carried))
                lines.append("  let heap := r.1")
                later = {n.id for t in body[body.index(s) + 1:] for n in ast.walk(t) if _name(n)}
                for i, v in enumerate(carried):
                    if v in later:
                        proj = "r.2" if len(carried) == 1 else ("r.2" + ".2" * i + (".1" if i < len(carried) - 1 else ""))
                        lines.append(f"  let {v} := {proj}")
                continue
            a = self.assign(s)
            if a: lines.append("  " + a); continue
            raise TranslateError(f"{self.W}: statement not recognised: {ast.unparse(s)[:80]}")
        head = [f"def {LEAN[self.W]} (heap : List Item) {params} : List Item :="]
        return self.aux + head + lines + ["  heap", ""]


HEADER = """import Mouette.Model.BinHeap
/-
CPython's Lib/heapq.py: heappush, heappop, _siftdown, _siftup, statement by statement (the C accelerator `_heapq` mirrors
these functions). A list cell read is `at_`, `heap[i] = x` is `List.set`, `a < b` on items is `PriorityItem.__lt__` = `lt`.
Bridges to the hand model (Model/BinHeap.lean): Mouette/Lemmas/C09HeapQ.lean.
-/
namespace Mouette.Generated.HeapQ
open Mouette.PQ Mouette.BinHeap

"""


def site():
    path = heapq_file()
    tree = ast.parse(open(path).read())
    out = []
    for name in ("_siftdown", "_siftup", "heappush", "heappop"):
        out += Fn(T.find_def(tree, name)).compile()
    # the accelerator must be the one that mirrors this file: same interpreter
    T.write_generated("C09HeapQ", "\n".join(out) + "\nend Mouette.Generated.HeapQ\n", HEADER)
    return f"{os.path.basename(os.path.dirname(path))}/heapq.py: {len(out)} lines"


def translate():
    rec = T.site("CPython Lib/heapq.py: heappush / heappop / _siftdown / _siftup (whole bodies)", site)
    if not rec["ok"]:
        bad = str(rec.get("detail"))[:300].replace("-/", "- /")
        T.write_generated("C09HeapQ", f"/- TRANSLATION FAILED on the interpreter's heapq.py, no definitions emitted.\n{bad}\n-/\nnamespace Mouette.Generated.HeapQ\nend Mouette.Generated.HeapQ\n")
    return [rec]
