"""Translated fragments for C10 (mouette/processing/trees/*.py), re-extracted with `ast` on every run into
lean/Mouette/Generated/C10Loop.lean:
  * the body of the breadth-first `while` loop of Edge/Face/CellSpanningTree.compute, statement by statement, as a Lean
    state transformer over the model's `BState` (bridged to `Trees.bstep`);
  * which of the tables parent / children / edges (trees) and trees / roots (forests) every `compute()` re-initialises
    before it fills them (bridged to `recompute_eq_fresh`: the n-th compute on a used object equals the first on a fresh one);
  * the guard structure of `EdgeSpanningTree._avoid_edge` as a Boolean function of its five atomic conditions (bridged to
    the exclusion predicate the model and the oracle use).
A shape outside the vocabulary raises TranslateError (broken obligation), never skipped."""
import ast

from .. import translate as T


def _is_name(n, *ids):
    return isinstance(n, ast.Name) and (not ids or n.id in ids)


def _sub(n):
    """Subscript(NAME|self.NAME, Name key) -> (name, key)"""
    if isinstance(n, ast.Subscript) and _is_name(n.slice):
        v = n.value
        if _is_name(v): return v.id, n.slice.id
        if isinstance(v, ast.Attribute) and _is_name(v.value, "self"): return "self." + v.attr, n.slice.id
    return None


# ------------------------------------------------------------------------------------------------
# (1) BFS loop body
# ------------------------------------------------------------------------------------------------
def _dist_plus_one(n, var):
    return isinstance(n, ast.BinOp) and isinstance(n.op, ast.Add) and _sub(n.left) == ("dist_to_root", var) and \
        isinstance(n.right, ast.Constant) and n.right.value == 1


def _bfs_body(cls, f, tag):
    whiles = [n for n in f.body if isinstance(n, ast.While)]
    if len(whiles) != 1: raise T.TranslateError(f"{cls}.compute: expected one while loop, found {len(whiles)}")
    w = whiles[0]
    t = w.test
    ok = _is_name(t, "queue") or (isinstance(t, ast.Call) and _is_name(t.func, "len") and _is_name(t.args[0], "queue")) or \
         (isinstance(t, ast.Compare) and isinstance(t.left, ast.Call) and _is_name(t.left.func, "len") and _is_name(t.left.args[0], "queue")
          and len(t.ops) == 1 and isinstance(t.ops[0], ast.Gt) and isinstance(t.comparators[0], ast.Constant) and t.comparators[0].value == 0)
    if not ok: raise T.TranslateError(f"{cls}.compute: loop condition is not `len(queue) > 0`")
    body = list(w.body)
    a = body.pop(0)
    ok = isinstance(a, ast.Assign) and isinstance(a.targets[0], ast.Tuple) and len(a.targets[0].elts) == 2 and \
        all(_is_name(e) for e in a.targets[0].elts) and isinstance(a.value, ast.Call) and \
        isinstance(a.value.func, ast.Attribute) and _is_name(a.value.func.value, "queue") and a.value.func.attr == "popleft"
    if not ok: raise T.TranslateError(f"{cls}.compute: first statement of the loop is not `p, c = queue.popleft()`")
    p, c = (e.id for e in a.targets[0].elts)
    g = body.pop(0)
    ok = isinstance(g, ast.If) and not g.orelse and len(g.body) == 1 and isinstance(g.body[0], ast.Continue) and _sub(g.test) == ("seen", c)
    if not ok: raise T.TranslateError(f"{cls}.compute: guard `if seen[child]: continue` not found")
    lines = [f"def bstep_{tag} (g : Cfg) (s : BState) : Option BState :=", "  match s.queue with", "  | [] => none",
             f"  | ({p}, {c}) :: q' =>", "    let s := { s with queue := q' }", f"    if s.seen {c} then some s else"]

    def stmt(n, ind):
        pad = " " * ind
        if isinstance(n, ast.Assign) and len(n.targets) == 1:
            s = _sub(n.targets[0])
            if s == ("seen", c) and isinstance(n.value, ast.Constant) and n.value.value is True:
                return [f"{pad}let s := {{ s with seen := upd s.seen {c} true }}"]
            if s and s[0] == "self.parent" and _is_name(n.value):
                return [f"{pad}let s := {{ s with parent := upd s.parent {s[1]} (some {n.value.id}) }}"]
            if s and s[0] == "dist_to_root" and _dist_plus_one(n.value, p):
                return [f"{pad}let s := {{ s with dist := upd s.dist {s[1]} (succOpt (s.dist {p})) }}"]
        if isinstance(n, ast.If) and not n.orelse and isinstance(n.test, ast.Compare) and len(n.test.ops) == 1 and \
                isinstance(n.test.ops[0], ast.Lt) and _dist_plus_one(n.test.left, p) and _sub(n.test.comparators[0]) == ("dist_to_root", c):
            inner = []
            for b in n.body: inner += stmt(b, ind + 7)
            inner[0] = " " * (ind + 6) + "(" + inner[0][ind + 7:]
            return [f"{pad}let s := if ltOpt (succOpt (s.dist {p})) (s.dist {c}) then"] + inner + [" " * (ind + 7) + "s) else s"]
        if isinstance(n, ast.Expr) and isinstance(n.value, ast.Call) and _is_name(n.value.func, "put_neighbours_in_queue") and \
                len(n.value.args) == 1 and _is_name(n.value.args[0]):
            return [f"{pad}let s := {{ s with queue := put g s.seen {n.value.args[0].id} s.queue }}"]
        raise T.TranslateError(f"{cls}.compute: statement of the BFS loop not recognised: {ast.dump(n)[:140]}")
    for st in body: lines += stmt(st, 4)
    return lines + ["    some s", ""]


# ------------------------------------------------------------------------------------------------
# (2) tables re-initialised by compute()
# ------------------------------------------------------------------------------------------------
def _fresh(v):
    """is `v` a fresh empty / None-filled container expression?"""
    if isinstance(v, ast.List) and not v.elts: return True
    if isinstance(v, ast.ListComp) and isinstance(v.elt, ast.List) and not v.elt.elts: return True
    if isinstance(v, ast.BinOp) and isinstance(v.op, ast.Mult) and isinstance(v.left, ast.List) and len(v.left.elts) == 1 and \
            isinstance(v.left.elts[0], ast.Constant) and v.left.elts[0].value is None: return True
    return False


def _resets(f):
    """names of the self.* tables assigned a fresh container before the first loop / nested def of compute()"""
    out = []
    for n in f.body:
        if isinstance(n, (ast.While, ast.For, ast.FunctionDef)): break
        if isinstance(n, ast.Assign) and len(n.targets) == 1:
            t, v = n.targets[0], n.value
            pairs = list(zip(t.elts, v.elts)) if isinstance(t, ast.Tuple) and isinstance(v, ast.Tuple) and len(t.elts) == len(v.elts) else [(t, v)]
            for tt, vv in pairs:
                if isinstance(tt, ast.Attribute) and _is_name(tt.value, "self") and _fresh(vv): out.append(tt.attr)
    return out


# ------------------------------------------------------------------------------------------------
# (3) guard structure of _avoid_edge
# ------------------------------------------------------------------------------------------------
def _cond(n):
    if isinstance(n, ast.BoolOp):
        op = " && " if isinstance(n.op, ast.And) else " || "
        return "(" + op.join(_cond(v) for v in n.values) + ")"
    if isinstance(n, ast.UnaryOp) and isinstance(n.op, ast.Not): return f"(!{_cond(n.operand)})"
    if isinstance(n, ast.Constant) and n.value in (True, False): return "true" if n.value else "false"
    d = ast.dump(n)
    if isinstance(n, ast.Compare) and len(n.ops) == 1:
        l, r = n.left, n.comparators[0]
        if isinstance(n.ops[0], ast.IsNot) and isinstance(l, ast.Attribute) and l.attr == "_avoidedges" and isinstance(r, ast.Constant) and r.value is None:
            return "hasAvoid"
        if isinstance(n.ops[0], ast.Is) and isinstance(l, ast.Attribute) and l.attr == "_avoidedges" and isinstance(r, ast.Constant) and r.value is None:
            return "(!hasAvoid)"
        if isinstance(n.ops[0], (ast.In, ast.NotIn)) and isinstance(r, ast.Attribute) and r.attr == "_avoidedges" and "edge_id" in ast.dump(l):
            return "inAvoid" if isinstance(n.ops[0], ast.In) else "(!inAvoid)"
    if isinstance(n, ast.Attribute) and n.attr == "_avoidbound": return "avoidBound"
    if isinstance(n, ast.Call) and _is_name(n.func, "isinstance") and "PolyLine" in d: return "isPoly"
    if isinstance(n, ast.Call) and isinstance(n.func, ast.Attribute) and n.func.attr == "is_edge_on_border": return "onBorder"
    raise T.TranslateError(f"_avoid_edge: condition not recognised: {d[:120]}")


def _block(stmts, cont=None):
    """statement list -> Lean Bool term; `cont` is the term for falling off the end of the list"""
    if not stmts:
        return cont
    n = stmts[0]
    if isinstance(n, ast.Expr) and isinstance(n.value, ast.Constant): return _block(stmts[1:], cont)     # docstring
    if isinstance(n, ast.Return): return _cond(n.value)
    if isinstance(n, ast.If):
        rest = _block(stmts[1:], cont)
        then = _block(n.body, rest)
        els = _block(n.orelse, rest)
        if then is None or els is None: raise T.TranslateError("_avoid_edge: a branch does not return")
        return f"(if {_cond(n.test)} then {then} else {els})"
    raise T.TranslateError(f"_avoid_edge: statement not recognised: {ast.dump(n)[:100]}")


HEADER = """import Mouette.Model.Trees
/-
Fragments of mouette/processing/trees/*.py translated from the current source. Bridges: Mouette/Props/C10Bridge.lean.
-/
namespace Mouette.Generated.C10
open Mouette.Trees
open Mouette.Dijkstra (upd)

"""



def _stub(name, ns, sites):
    """a translation site failed: do not leave the file of an EARLIER tree on disk; the stub has no definitions, so every bridge
    that needs them fails to build and the build log talks about THIS tree"""
    bad = "; ".join(f"{s['site']}: {str(s.get('detail'))[:160]}" for s in sites if not s["ok"]).replace("-/", "- /")
    T.write_generated(name, f"/- TRANSLATION FAILED on the current source tree, no definitions emitted.\n{bad}\n-/\nnamespace {ns}\nend {ns}\n")

def translate():
    sites, out = [], {}

    def run(name, fn):
        rec = T.site(name, fn); sites.append(rec); return rec["ok"]
    files = {"edge": ("mouette/processing/trees/edge_sp.py", "EdgeSpanningTree", "EdgeSpanningForest"),
             "face": ("mouette/processing/trees/face_sp.py", "FaceSpanningTree", "FaceSpanningForest"),
             "cell": ("mouette/processing/trees/cell_sp.py", "CellSpanningTree", "CellSpanningForest")}
    ok = True
    for tag, (path, cls, fcls) in files.items():
        def f(tag=tag, path=path, cls=cls):
            tree, _ = T.load(path)
            out["bstep_" + tag] = _bfs_body(cls, T.find_def(tree, cls + ".compute"), tag)
            return f"{len(out['bstep_' + tag])} lines"
        ok &= run(f"{path}:{cls}.compute (BFS loop body)", f)

        def r(tag=tag, path=path, cls=cls, fcls=fcls):
            tree, _ = T.load(path)
            rs = {cls: _resets(T.find_def(tree, cls + ".compute")), fcls: _resets(T.find_def(tree, fcls + ".compute"))}
            if tag == "edge":
                rs["EdgeMinimalSpanningTree"] = _resets(T.find_def(tree, "EdgeMinimalSpanningTree.compute"))
            out["resets_" + tag] = [f'def resets_{k} : List String := [{", ".join(chr(34) + x + chr(34) for x in v)}]' for k, v in rs.items()] + [""]
            return str(rs)
        ok &= run(f"{path}: tables re-initialised by compute()", r)

    def a():
        tree, _ = T.load("mouette/processing/trees/edge_sp.py")
        fdef = T.find_def(tree, "EdgeSpanningTree._avoid_edge")
        term = _block(fdef.body)
        if term is None: raise T.TranslateError('_avoid_edge: no return')
        out["avoid"] = ["/-- `EdgeSpanningTree._avoid_edge` as a function of its atomic conditions -/",
                        "def avoidEdge (hasAvoid inAvoid avoidBound isPoly onBorder : Bool) : Bool :=", "  " + term, ""]
        return term
    ok &= run("edge_sp.py:EdgeSpanningTree._avoid_edge (guard structure)", a)
    if ok:
        body = []
        for tag in files: body += out["bstep_" + tag]
        for tag in files: body += out["resets_" + tag]
        body += out["avoid"]
        T.write_generated("C10Loop", "\n".join(body) + "\nend Mouette.Generated.C10\n", HEADER)
    else:
        _stub("C10Loop", "Mouette.Generated.C10", sites)
    return sites
