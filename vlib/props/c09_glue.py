"""Round 4 — imperative translation of the GLUE of mouette/processing/paths.py (everything around the two Dijkstra loops
that c09_translate.py already reads), re-extracted with `ast` on every run into lean/Mouette/Generated/C09Glue.lean:

  build_path                       the whole body: the `for l in paths.values()` loop, both `if len(l) > …` guards, the inner
                                   `for i in range(1, len(l))`, WHICH container every `append` writes, the index expressions
                                   of the appended vertex and of the edge pair, the update of the running offset `k`
  shortest_path                    the target normalisation (`isinstance(targets, numbers.Integral)` -> singleton set), the
                                   weight-mode dispatch (`== "one"` / `== "length"` / else, and WHAT each lambda computes), the
                                   back-tracking (`for t in targets: v = t; while v != start: …append(v); v = path[v]`, the
                                   final `append(start)` and `reverse()`), the export dispatch
  shortest_path_to_vertex_set      the empty-set guard, the single-target shortcut (which target is handed to shortest_path, in
                                   which argument position, what is returned in which tuple position), the construction of the
                                   `connectivity` dict per weight mode, the weight-0 sink edges, the back-tracking from the sink
                                   (`v = parent[v]; path.append(v)`), `path.reverse()`, `ind = start if not path else path[-1]`
  shortest_path_to_border          the no-border guard, the argument binding of the call, the `len(result) == 2` selection
  _check_weight_argument           accepted strings / types (a table)

Bridges (Props/C09Source.lean) prove `Generated.… = Model.…` so that every theorem of Props/C09* speaks about the source.
Normalised away (the generated text does not change): renamed locals and loop variables, `a > b` / `b < a`, `a >= c` / `c-1 < a`
for integer literals, `==` operand order, `x += e` / `x = x + e`, `not path` / `len(path) == 0`, docstrings, comments, type
annotations, log calls. A shape outside the vocabulary raises TranslateError (broken obligation), never skipped.
"""
import ast
import copy

from .. import translate as T
from ..translate import TranslateError

FILE = "mouette/processing/paths.py"


# ------------------------------------------------------------------------------------------------
# small helpers
# ------------------------------------------------------------------------------------------------
def _name(n, *ids):
    return isinstance(n, ast.Name) and (not ids or n.id in ids)


def _const(n, *vals):
    return isinstance(n, ast.Constant) and not isinstance(n.value, bool) and (not vals or n.value in vals)


def _call(n, fname=None, nargs=None):
    ok = isinstance(n, ast.Call) and not n.keywords
    if ok and fname is not None: ok = _name(n.func, fname)
    if ok and nargs is not None: ok = len(n.args) == nargs
    return ok


def _mcall(n, attr, nargs=None):
    """method call  <obj>.attr(args)  -> obj node or None"""
    if isinstance(n, ast.Call) and isinstance(n.func, ast.Attribute) and n.func.attr == attr and not n.keywords and \
            (nargs is None or len(n.args) == nargs):
        return n.func.value
    return None


def _strip(stmts):
    """drop docstrings, `pass`, bare log / print calls"""
    out = []
    for s in stmts:
        if isinstance(s, ast.Pass): continue
        if isinstance(s, ast.Expr) and isinstance(s.value, ast.Constant): continue
        if isinstance(s, ast.Expr) and isinstance(s.value, ast.Call):
            f = s.value.func
            if _name(f, "print") or (isinstance(f, ast.Attribute) and f.attr in ("debug", "info", "warning", "log")): continue
        out.append(s)
    return out


class Norm(ast.NodeTransformer):
    """harmless respellings"""

    def visit_AugAssign(self, n):
        self.generic_visit(n)
        return ast.copy_location(ast.Assign([n.target], ast.BinOp(copy.deepcopy(n.target), n.op, n.value)), n)

    def visit_AnnAssign(self, n):
        self.generic_visit(n)
        if n.value is None: return None
        return ast.copy_location(ast.Assign([n.target], n.value), n)

    def visit_Compare(self, n):
        self.generic_visit(n)
        if len(n.ops) != 1: return n
        op, a, b = n.ops[0], n.left, n.comparators[0]
        if isinstance(op, ast.Gt): op, a, b = ast.Lt(), b, a
        elif isinstance(op, ast.GtE): op, a, b = ast.LtE(), b, a
        if isinstance(op, ast.LtE) and _const(a) and isinstance(a.value, int) and a.value >= 1:
            op, a = ast.Lt(), ast.Constant(a.value - 1)           # c <= x  ==  c-1 < x   (integers)
        if isinstance(op, (ast.Eq, ast.NotEq)) and (_const(a) or (_name(a) and not _name(b) and not _const(b))):
            a, b = b, a                                             # constant / bare name on the right
        return ast.copy_location(ast.Compare(a, [op], [b]), n)

    def visit_UnaryOp(self, n):
        self.generic_visit(n)
        if isinstance(n.op, ast.Not) and isinstance(n.operand, ast.Compare) and len(n.operand.ops) == 1:
            c = n.operand
            flip = {ast.Eq: ast.NotEq, ast.NotEq: ast.Eq}
            if type(c.ops[0]) in flip:
                return ast.copy_location(ast.Compare(c.left, [flip[type(c.ops[0])]()], c.comparators), n)
        return n


def _fn(tree, name):
    f = Norm().visit(copy.deepcopy(T.find_def(tree, name)))
    ast.fix_missing_locations(f)
    return f


# ------------------------------------------------------------------------------------------------
# integer / list expressions over an environment  {python name: (lean name, type)}   types: nat, list
# ------------------------------------------------------------------------------------------------
class Env(dict):
    def nat(self, n, where):
        if _const(n) and isinstance(n.value, int) and n.value >= 0: return str(n.value)
        if _name(n) and n.id in self and self[n.id][1] == "nat": return self[n.id][0]
        if _call(n, "len", 1) and _name(n.args[0]) and n.args[0].id in self and self[n.args[0].id][1] == "list":
            return f"{self[n.args[0].id][0]}.length"
        if isinstance(n, ast.BinOp) and isinstance(n.op, (ast.Add, ast.Sub, ast.Mult)):
            op = {ast.Add: "+", ast.Sub: "-", ast.Mult: "*"}[type(n.op)]
            return f"({self.nat(n.left, where)} {op} {self.nat(n.right, where)})"
        if isinstance(n, ast.Subscript) and _name(n.value) and n.value.id in self and self[n.value.id][1] == "list":
            return f"({self[n.value.id][0]}.getD {self.nat(n.slice, where)} 0)"
        raise TranslateError(f"{where}: integer expression not recognised: {ast.unparse(n)[:80]}")

    def cond(self, n, where):
        """Prop-valued (decidable) condition"""
        if isinstance(n, ast.Compare) and len(n.ops) == 1:
            a, b = self.nat(n.left, where), self.nat(n.comparators[0], where)
            op = {ast.Lt: "<", ast.LtE: "≤", ast.Eq: "=", ast.NotEq: "≠"}.get(type(n.ops[0]))
            if op: return f"{a} {op} {b}"
        if _name(n) and n.id in self and self[n.id][1] == "list": return f"0 < {self[n.id][0]}.length"     # `if l:`
        if isinstance(n, ast.UnaryOp) and isinstance(n.op, ast.Not) and _name(n.operand) and n.operand.id in self and \
                self[n.operand.id][1] == "list":
            return f"{self[n.operand.id][0]}.length = 0"
        raise TranslateError(f"{where}: condition not recognised: {ast.unparse(n)[:80]}")


# ------------------------------------------------------------------------------------------------
# (1) build_path
# ------------------------------------------------------------------------------------------------
def _build_path(tree):
    W = "build_path"
    f = _fn(tree, W)
    if len(f.args.args) != 2: raise TranslateError(f"{W}: expected parameters (mesh, paths)")
    mesh, paths = (a.arg for a in f.args.args)
    body = _strip(f.body)
    # prologue: pm = PolyLine() ; k = 0   (any order)
    pm = kvar = None
    while body and isinstance(body[0], ast.Assign) and len(body[0].targets) == 1 and _name(body[0].targets[0]):
        s = body.pop(0)
        if _call(s.value, "PolyLine", 0): pm = s.targets[0].id
        elif _const(s.value, 0): kvar = s.targets[0].id
        else: raise TranslateError(f"{W}: unexpected initialisation {ast.unparse(s)[:60]}")
    if pm is None or kvar is None: raise TranslateError(f"{W}: `path_mesh = PolyLine()` / `k = 0` not found before the loop")
    if len(body) != 2 or not isinstance(body[0], ast.For) or not isinstance(body[1], ast.Return) or not _name(body[1].value, pm):
        raise TranslateError(f"{W}: expected `for l in paths.values(): …` followed by `return {pm}`")
    loop = body[0]
    if not (_name(loop.target) and _name(_mcall(loop.iter, "values", 0), paths) and not loop.orelse):
        raise TranslateError(f"{W}: outer loop is not `for l in paths.values()`")
    lvar = loop.target.id
    env = Env({lvar: ("l", "list"), kvar: ("k", "nat")})

    def append(s, env):
        """pm.vertices.append(mesh.vertices[e]) / pm.edges.append((e1, e2)) -> Lean update of acc"""
        if isinstance(s, ast.Expr):
            obj = _mcall(s.value, "append", 1)
            if isinstance(obj, ast.Attribute) and _name(obj.value, pm):
                a = s.value.args[0]
                if obj.attr == "vertices":
                    if isinstance(a, ast.Subscript) and isinstance(a.value, ast.Attribute) and _name(a.value.value, mesh) and a.value.attr == "vertices":
                        return f"let acc := (acc.1 ++ [{env.nat(a.slice, W)}], acc.2)"
                    raise TranslateError(f"{W}: appended vertex is not `mesh.vertices[…]`: {ast.unparse(a)[:60]}")
                if obj.attr == "edges":
                    if isinstance(a, (ast.Tuple, ast.List)) and len(a.elts) == 2:
                        return f"let acc := (acc.1, acc.2 ++ [({env.nat(a.elts[0], W)}, {env.nat(a.elts[1], W)})])"
                    raise TranslateError(f"{W}: appended edge is not a pair: {ast.unparse(a)[:60]}")
        return None

    inner_defs = []

    def block(stmts, env, ind):
        pad = " " * ind
        out = []
        for s in _strip(stmts):
            a = append(s, env)
            if a: out.append(pad + a); continue
            if isinstance(s, ast.If) and not s.orelse:
                sub = block(s.body, env, ind + 4)
                out.append(f"{pad}let acc := if {env.cond(s.test, W)} then")
                out.append(f"{pad}    (" + sub[0].lstrip())
                out += sub[1:]
                out.append(f"{pad}    acc) else acc")
                continue
            if isinstance(s, ast.For) and not s.orelse and _name(s.target) and _call(s.iter, "range") and len(s.iter.args) in (1, 2):
                ivar = s.target.id
                lo = "0" if len(s.iter.args) == 1 else env.nat(s.iter.args[0], W)
                hi = env.nat(s.iter.args[-1], W)
                env2 = Env(env); env2[ivar] = ("i", "nat")
                name = f"buildInner{len(inner_defs)}"
                sub = block(s.body, env2, 2)
                if any("buildInner" in x for x in sub): raise TranslateError(f"{W}: nested loops deeper than two levels")
                inner_defs.append([f"def {name} (k : Nat) (l : List Nat) (acc : List Nat × List (Nat × Nat)) (i : Nat) : List Nat × List (Nat × Nat) :="]
                                  + sub + ["  acc", ""])
                out.append(f"{pad}let acc := (List.range' {lo} ({hi} - {lo})).foldl ({name} k l) acc")
                continue
            if isinstance(s, ast.Assign) and len(s.targets) == 1 and _name(s.targets[0], kvar):
                out.append(f"{pad}let k := {env.nat(s.value, W)}")
                continue
            raise TranslateError(f"{W}: statement not recognised: {ast.unparse(s)[:100]}")
        if not out: raise TranslateError(f"{W}: empty block")
        return out

    step = block(loop.body, env, 2)
    lines = ["/-! ### build_path -/", ""]
    for d in inner_defs: lines += d
    lines += ["/-- body of `for l in paths.values()`; state = ((vertex ids, edges) of the polyline, running offset k) -/",
              "def buildStep (st : (List Nat × List (Nat × Nat)) × Nat) (l : List Nat) : (List Nat × List (Nat × Nat)) × Nat :=",
              "  let acc := st.1", "  let k := st.2"] + step + ["  (acc, k)", "",
              "def buildPath (paths : List (List Nat)) : List Nat × List (Nat × Nat) :=",
              "  (paths.foldl buildStep (([], []), 0)).1", ""]
    return lines


# ------------------------------------------------------------------------------------------------
# (2) back-tracking loops
# ------------------------------------------------------------------------------------------------
def _back_loop(W, w, tag, listvar_ok, predname):
    """`while v != start:` whose body is, in SOURCE ORDER, `<list>.append(v)` and `v = <pred>[v]`.
    Returns (loop variable, list expression text, Lean lines of the loop function)."""
    t = w.test
    if not (isinstance(t, ast.Compare) and len(t.ops) == 1 and isinstance(t.ops[0], ast.NotEq) and _name(t.left) and
            _name(t.comparators[0], "start")):
        raise TranslateError(f"{W}: back-tracking loop condition is not `v != start`: {ast.unparse(t)[:60]}")
    v = t.left.id
    lines = [f"def backLoop_{tag} (pred : Nat → Option Nat) (start : Nat) : Nat → Nat → List Nat → Res",
             "  | 0, _, _ => .outOfFuel", "  | f+1, v, l =>", "    if v ≠ start then"]
    ind = 6
    lst = None
    seen = []
    for s in _strip(w.body):
        pad = " " * ind
        if isinstance(s, ast.Expr) and _mcall(s.value, "append", 1) is not None and _name(s.value.args[0], v):
            obj = _mcall(s.value, "append", 1)
            if not listvar_ok(obj): raise TranslateError(f"{W}: the back-tracking loop appends to an unexpected container: {ast.unparse(obj)[:60]}")
            lst = ast.unparse(obj)
            lines.append(f"{pad}let l := l ++ [v]"); seen.append("append"); continue
        if isinstance(s, ast.Assign) and len(s.targets) == 1 and _name(s.targets[0], v) and isinstance(s.value, ast.Subscript) and \
                _name(s.value.value, predname) and _name(s.value.slice, v):
            # `v = path[v]`: a `None` entry makes the next test `None != start` true and `path[None]` raise KeyError
            lines += [f"{pad}match pred v with", f"{pad}| none => .keyError", f"{pad}| some v =>"]
            ind += 2; seen.append("assign"); continue
        raise TranslateError(f"{W}: statement of the back-tracking loop not recognised: {ast.unparse(s)[:80]}")
    if sorted(seen) != ["append", "assign"]:
        raise TranslateError(f"{W}: back-tracking loop must consist of one append and one `v = {predname}[v]` (found {seen})")
    lines.append(" " * ind + f"backLoop_{tag} pred start f v l")
    lines += ["    else .ok l", ""]
    return v, lst, lines


def _after_loop(W, stmts, lst, allowed_last):
    """statements after the while loop that act on the list `lst`: append(start) / reverse()"""
    out = []
    rest = list(stmts)
    while rest:
        s = rest[0]
        if isinstance(s, ast.Expr) and isinstance(s.value, ast.Call):
            o = _mcall(s.value, "append", 1)
            if o is not None and ast.unparse(o) == lst and _name(s.value.args[0], "start"):
                out.append("let l := l ++ [start]"); rest.pop(0); continue
            o = _mcall(s.value, "reverse", 0)
            if o is not None and ast.unparse(o) == lst:
                out.append("let l := l.reverse"); rest.pop(0); continue
        break
    return out, rest


def _backtrack_sp(f):
    W = "shortest_path"
    body = _strip(f.body)
    fors = [s for s in body if isinstance(s, ast.For) and any(isinstance(x, ast.While) for x in s.body)]
    if len(fors) != 1: raise TranslateError(f"{W}: expected exactly one `for t in targets:` loop that back-tracks, found {len(fors)}")
    fo = fors[0]
    if not (_name(fo.target) and _name(fo.iter, "targets") and not fo.orelse):
        raise TranslateError(f"{W}: back-tracking loop does not iterate `targets`")
    tvar = fo.target.id
    fb = _strip(fo.body)
    # v = t
    if not (fb and isinstance(fb[0], ast.Assign) and len(fb[0].targets) == 1 and _name(fb[0].targets[0]) and _name(fb[0].value, tvar)):
        raise TranslateError(f"{W}: back-tracking does not begin with `v = t`")
    v0 = fb[0].targets[0].id
    if not (len(fb) >= 2 and isinstance(fb[1], ast.While) and not fb[1].orelse):
        raise TranslateError(f"{W}: `while v != start` not found after `v = t`")
    # which dict holds the predecessors: the one the Dijkstra loop writes as `path[nv] = v`
    ok = lambda o: isinstance(o, ast.Subscript) and _name(o.value) and _name(o.slice, tvar)
    v, lst, loop = _back_loop(W, fb[1], "sp", ok, "path")
    if v != v0: raise TranslateError(f"{W}: the loop variable {v} is not the one initialised with the target")
    post, rest = _after_loop(W, fb[2:], lst, None)
    if rest: raise TranslateError(f"{W}: statement after the back-tracking loop not recognised: {ast.unparse(rest[0])[:80]}")
    dname = lst.split("[")[0]
    # paths_list = dict([(t, []) for t in targets])
    init = [s for s in body if isinstance(s, ast.Assign) and len(s.targets) == 1 and _name(s.targets[0], dname)]
    good = False
    if len(init) == 1:
        val = init[0].value
        lc = val.args[0] if (_call(val, "dict", 1) and isinstance(val.args[0], (ast.ListComp, ast.GeneratorExp))) else \
            val if isinstance(val, ast.DictComp) else None
        if isinstance(lc, ast.DictComp):
            good = isinstance(lc.value, ast.List) and not lc.value.elts and _name(lc.generators[0].iter, "targets") and not lc.generators[0].ifs
        elif lc is not None:
            e = lc.elt
            good = isinstance(e, ast.Tuple) and len(e.elts) == 2 and isinstance(e.elts[1], ast.List) and not e.elts[1].elts and \
                _name(lc.generators[0].iter, "targets") and not lc.generators[0].ifs
    if not good: raise TranslateError(f"{W}: `{dname}` is not initialised with an empty list per target")
    lines = ["/-! ### back-tracking of shortest_path -/", ""] + loop
    lines += ["/-- body of `for t in targets` (one entry of the returned dict) -/",
              "def pathTo_sp (s : State) (n start t : Nat) : Res :=", "  let v := t",
              "  match backLoop_sp s.pred start (n + 1) v [] with", "  | .ok l =>"] + ["    " + p for p in post] + ["    .ok l", "  | r => r", ""]
    # the returned value: paths_list (or (paths_list, path_mesh) when exporting)
    ret = _returns_sp(W, body, dname)
    return lines + ret, dname


def _returns_sp(W, body, dname):
    tail = body[body.index([s for s in body if isinstance(s, ast.For) and any(isinstance(x, ast.While) for x in s.body)][0]) + 1:]
    # expected:  if export_path_mesh: pm = build_path(mesh, paths_list); return paths_list, pm   ;  return paths_list
    if not (len(tail) == 2 and isinstance(tail[0], ast.If) and _name(tail[0].test, "export_path_mesh") and not tail[0].orelse and
            isinstance(tail[1], ast.Return) and _name(tail[1].value, dname)):
        raise TranslateError(f"{W}: tail is not `if export_path_mesh: …; return paths, mesh` / `return paths`")
    ib = _strip(tail[0].body)
    ok = len(ib) == 2 and isinstance(ib[0], ast.Assign) and _name(ib[0].targets[0]) and _call(ib[0].value, "build_path", 2) and \
        _name(ib[0].value.args[0], "mesh") and _name(ib[0].value.args[1], dname) and isinstance(ib[1], ast.Return) and \
        isinstance(ib[1].value, ast.Tuple) and len(ib[1].value.elts) == 2 and _name(ib[1].value.elts[0], dname) and \
        _name(ib[1].value.elts[1], ib[0].targets[0].id)
    if not ok: raise TranslateError(f"{W}: export branch is not `pm = build_path(mesh, {dname}); return {dname}, pm`")
    return ["/-- what `shortest_path` returns: the dict of paths, and with `export_path_mesh` also `build_path(mesh, paths)` -/",
            "def spReturn (exportMesh : Bool) (paths : List (List Nat)) : List (List Nat) × Option (List Nat × List (Nat × Nat)) :=",
            "  if exportMesh then (paths, some (buildPath paths)) else (paths, none)", ""]


def _backtrack_set(f):
    W = "shortest_path_to_vertex_set"
    body = _strip(f.body)
    whiles = [i for i, s in enumerate(body) if isinstance(s, ast.While) and not any(isinstance(x, ast.For) for x in s.body)]
    if len(whiles) != 1: raise TranslateError(f"{W}: expected exactly one back-tracking `while` loop, found {len(whiles)}")
    i = whiles[0]
    w = body[i]
    ok = lambda o: _name(o)
    v, lst, loop = _back_loop(W, w, "set", ok, "parent")
    # before: path = [] ; v = TARGET  (any order, directly before the loop)
    pre = body[i - 2:i]
    got = set()
    for s in pre:
        if isinstance(s, ast.Assign) and len(s.targets) == 1 and _name(s.targets[0], lst) and isinstance(s.value, ast.List) and not s.value.elts: got.add("list")
        if isinstance(s, ast.Assign) and len(s.targets) == 1 and _name(s.targets[0], v) and _name(s.value, "TARGET"): got.add("v")
    if got != {"list", "v"}: raise TranslateError(f"{W}: `{lst} = []` and `{v} = TARGET` not found directly before the back-tracking loop")
    post, rest = _after_loop(W, body[i + 1:], lst, None)
    # ind = start if not path else path[-1]
    if not rest or not (isinstance(rest[0], ast.Assign) and len(rest[0].targets) == 1 and _name(rest[0].targets[0])):
        raise TranslateError(f"{W}: `ind = …` not found after the back-tracking")
    ind = rest[0].targets[0].id
    val = rest[0].value
    e = Env({lst: ("l", "list")})

    def last(n):
        return isinstance(n, ast.Subscript) and _name(n.value, lst) and isinstance(n.slice, ast.UnaryOp) and isinstance(n.slice.op, ast.USub) and _const(n.slice.operand, 1)
    if isinstance(val, ast.IfExp):
        c = e.cond(val.test, W)
        def br(n):
            if _name(n, "start"): return "start"
            if last(n): return "l.getLastD start"
            raise TranslateError(f"{W}: index expression not recognised: {ast.unparse(n)[:60]}")
        indl = f"let ind := if {c} then {br(val.body)} else {br(val.orelse)}"
    else:
        raise TranslateError(f"{W}: `{ind} = {ast.unparse(val)[:60]}` is not a conditional expression on the path")
    tail = rest[1:]
    # if export_path_mesh: pm = build_path(mesh, {TARGET: path}); return ind, path, pm   ;  return ind, path
    ok = len(tail) == 2 and isinstance(tail[0], ast.If) and _name(tail[0].test, "export_path_mesh") and not tail[0].orelse and \
        isinstance(tail[1], ast.Return) and isinstance(tail[1].value, ast.Tuple) and [ast.unparse(x) for x in tail[1].value.elts] == [ind, lst]
    if ok:
        ib = _strip(tail[0].body)
        ok = len(ib) == 2 and isinstance(ib[0], ast.Assign) and _call(ib[0].value, "build_path", 2) and _name(ib[0].value.args[0], "mesh") and \
            isinstance(ib[0].value.args[1], ast.Dict) and len(ib[0].value.args[1].keys) == 1 and _name(ib[0].value.args[1].values[0], lst) and \
            isinstance(ib[1], ast.Return) and isinstance(ib[1].value, ast.Tuple) and \
            [ast.unparse(x) for x in ib[1].value.elts] == [ind, lst, ast.unparse(ib[0].targets[0])]
    if not ok: raise TranslateError(f"{W}: tail is not `if export_path_mesh: pm = build_path(mesh, {{TARGET: {lst}}}); return {ind}, {lst}, pm` / `return {ind}, {lst}`")
    lines = ["/-! ### back-tracking of shortest_path_to_vertex_set (general branch) -/", ""] + loop
    lines += ["/-- from `path = []; v = TARGET` to `ind = …`: (path, index) -/",
              "def backSet (s : State) (sink start fuel : Nat) : Res × Nat :=", "  let v := sink",
              "  match backLoop_set s.pred start fuel v [] with", "  | .ok l =>"] + ["    " + p for p in post] + \
             ["    " + indl, "    (.ok l, ind)", "  | r => (r, start)", "",
              "/-- what the general branch returns: `(ind, path)`, and with `export_path_mesh` also `build_path(mesh, {TARGET: path})` -/",
              "def setReturn (exportMesh : Bool) (ind : Nat) (path : List Nat) : Nat × List Nat × Option (List Nat × List (Nat × Nat)) :=",
              "  if exportMesh then (ind, path, some (buildPath [path])) else (ind, path, none)", ""]
    return lines


# ------------------------------------------------------------------------------------------------
# (3) dispatch: weight modes, target normalisation, shortcut, border glue, argument check
# ------------------------------------------------------------------------------------------------
def _mode_chain(W, stmts):
    """find the `if weights == "one": A elif weights == "length": B else: C` statement; returns (A, B, C) bodies"""
    for s in stmts:
        if isinstance(s, ast.If) and isinstance(s.test, ast.Compare) and len(s.test.ops) == 1 and isinstance(s.test.ops[0], ast.Eq) and \
                _name(s.test.left, "weights") and isinstance(s.test.comparators[0], ast.Constant) and isinstance(s.test.comparators[0].value, str):
            modes = {}
            cur = s
            while True:
                c = cur.test
                if not (isinstance(c, ast.Compare) and len(c.ops) == 1 and isinstance(c.ops[0], ast.Eq) and _name(c.left, "weights")
                        and isinstance(c.comparators[0], ast.Constant) and isinstance(c.comparators[0].value, str)):
                    raise TranslateError(f"{W}: weight-mode test not recognised: {ast.unparse(c)[:60]}")
                modes[c.comparators[0].value] = _strip(cur.body)
                if len(cur.orelse) == 1 and isinstance(cur.orelse[0], ast.If):
                    cur = cur.orelse[0]; continue
                modes["custom"] = _strip(cur.orelse)
                break
            if set(modes) != {"one", "length", "custom"} or not modes["custom"]:
                raise TranslateError(f"{W}: weight-mode chain does not have the branches one / length / else ({sorted(modes)})")
            return modes
    raise TranslateError(f"{W}: weight-mode chain `if weights == \"one\" … elif … else` not found")


def _is_dist(n, mesh, u, v):
    """geom.distance(mesh.vertices[u], mesh.vertices[v]) (either order: the distance is symmetric)"""
    if not (isinstance(n, ast.Call) and isinstance(n.func, ast.Attribute) and n.func.attr == "distance" and len(n.args) == 2 and not n.keywords): return False
    pts = []
    for a in n.args:
        if not (isinstance(a, ast.Subscript) and isinstance(a.value, ast.Attribute) and _name(a.value.value, mesh) and a.value.attr == "vertices" and _name(a.slice)): return False
        pts.append(a.slice.id)
    return sorted(pts) == sorted([u, v])


def _weights_sp(f):
    W = "shortest_path"
    modes = _mode_chain(W, _strip(f.body))
    out = {}
    for m, b in modes.items():
        if not (len(b) == 1 and isinstance(b[0], ast.Assign) and _name(b[0].targets[0], "edge_length") and isinstance(b[0].value, ast.Lambda)
                and len(b[0].value.args.args) == 2):
            raise TranslateError(f"{W}: branch {m} does not assign a two-argument lambda to edge_length")
        lam = b[0].value
        u, v = (a.arg for a in lam.args.args)
        e = lam.body
        if _const(e) and isinstance(e.value, (int, float)) and e.value == int(e.value) and e.value >= 0:
            out[m] = f"({int(e.value)} : Rat)"
        elif _is_dist(e, "mesh", u, v):
            out[m] = "len u v"
        elif isinstance(e, ast.Subscript) and _name(e.value, "weights") and isinstance(e.slice, ast.Call) and isinstance(e.slice.func, ast.Attribute) and \
                e.slice.func.attr == "edge_id" and len(e.slice.args) == 2 and sorted(a.id for a in e.slice.args if _name(a)) == sorted([u, v]):
            out[m] = "w (eid u v)"
        else:
            raise TranslateError(f"{W}: edge_length of branch {m} not recognised: {ast.unparse(e)[:80]}")
    return ["/-! ### weight-mode dispatch of shortest_path: what `edge_length(u, v)` computes (`len` = Euclidean length of the edge,",
            "`w` = the caller's table, `eid` = `mesh.connectivity.edge_id`, symmetric in its arguments) -/",
            "def edgeLength_sp (mode : WMode) (len : Nat → Nat → Rat) (w : Nat → Rat) (eid : Nat → Nat → Nat) (u v : Nat) : Rat :=",
            "  match mode with", f"  | .one => {out['one']}", f"  | .length => {out['length']}", f"  | .custom => {out['custom']}", ""]


def _targets_norm(f):
    W = "shortest_path"
    for s in _strip(f.body):
        if isinstance(s, ast.If) and _call(s.test, "isinstance", 2) and _name(s.test.args[0], "targets"):
            ty = ast.unparse(s.test.args[1])
            a, b = _strip(s.body), _strip(s.orelse)
            ok = len(a) == 1 and len(b) == 1 and isinstance(a[0], ast.Assign) and _name(a[0].targets[0], "targets") and \
                isinstance(a[0].value, ast.Set) and len(a[0].value.elts) == 1 and _name(a[0].value.elts[0], "targets") and \
                isinstance(b[0], ast.Assign) and _name(b[0].targets[0], "targets") and _call(b[0].value, "set", 1) and _name(b[0].value.args[0], "targets")
            if not ok: raise TranslateError(f"{W}: target normalisation is not `{{targets}}` / `set(targets)`")
            return ["/-! ### target normalisation of shortest_path -/",
                    f"/-- the type test that recognises a single target (`numbers.Integral` accepts Python and numpy integers) -/",
                    f"def singleTargetType : String := \"{ty}\"",
                    "/-- `targets` after normalisation (a set: the harness hands the model the sorted distinct targets) -/",
                    "def targetsOf (single : Option Nat) (coll : List Nat) : List Nat :=",
                    "  match single with", "  | some t => [t]", "  | none => coll.eraseDups", ""]
    raise TranslateError(f"{W}: `if isinstance(targets, …)` normalisation not found")


def _conn_build(f):
    """construction of the `connectivity` dict of dicts in shortest_path_to_vertex_set"""
    W = "shortest_path_to_vertex_set"
    body = _strip(f.body)
    modes = _mode_chain(W, body)
    out = {}
    for m, b in modes.items():
        if not (len(b) == 1 and isinstance(b[0], ast.For) and not b[0].orelse):
            raise TranslateError(f"{W}: branch {m} of the connectivity construction is not a single loop over mesh.edges")
        lo = b[0]
        evar = None
        it, tg = lo.iter, lo.target
        if _call(it, "enumerate", 1):
            if not (isinstance(tg, ast.Tuple) and len(tg.elts) == 2 and _name(tg.elts[0])): raise TranslateError(f"{W}: enumerate target not recognised")
            evar = tg.elts[0].id; it = it.args[0]; tg = tg.elts[1]
        if not (isinstance(it, ast.Attribute) and _name(it.value, "mesh") and it.attr == "edges" and isinstance(tg, ast.Tuple) and len(tg.elts) == 2
                and all(_name(x) for x in tg.elts)):
            raise TranslateError(f"{W}: branch {m} does not iterate `(u, v) in mesh.edges`")
        u, v = (x.id for x in tg.elts)
        local = {}
        writes = []
        for s in _strip(lo.body):
            if isinstance(s, ast.Assign) and len(s.targets) == 1 and _name(s.targets[0]):
                local[s.targets[0].id] = s.value; continue
            t = s.targets[0] if isinstance(s, ast.Assign) and len(s.targets) == 1 else None
            if isinstance(t, ast.Subscript) and isinstance(t.value, ast.Subscript) and _name(t.value.value, "connectivity") and _name(t.value.slice) and _name(t.slice):
                val = s.value
                if _name(val) and val.id in local: val = local[val.id]
                if _const(val) and isinstance(val.value, (int, float)) and val.value == int(val.value) and val.value >= 0: wt = f"({int(val.value)} : Rat)"
                elif _is_dist(val, "mesh", u, v): wt = "len e"
                elif isinstance(val, ast.Subscript) and _name(val.value, "weights") and evar and _name(val.slice, evar): wt = "w e"
                else: raise TranslateError(f"{W}: weight written in branch {m} not recognised: {ast.unparse(val)[:60]}")
                writes.append(({u: "a", v: "b"}.get(t.value.slice.id), {u: "a", v: "b"}.get(t.slice.id), wt))
                continue
            raise TranslateError(f"{W}: statement in the connectivity loop not recognised: {ast.unparse(s)[:80]}")
        if sorted((x, y) for x, y, _ in writes) != [("a", "b"), ("b", "a")] or len({wt for _, _, wt in writes}) != 1:
            raise TranslateError(f"{W}: branch {m} must write connectivity[u][v] and connectivity[v][u] with the same weight (found {writes})")
        out[m] = (writes[0][2], [(x, y) for x, y, _ in writes])
    # sink edges: for s in targets: connectivity[s][TARGET] = 0 ; connectivity[TARGET][s] = 0
    sink = None
    for s in body:
        if isinstance(s, ast.For) and _name(s.iter, "targets") and _name(s.target):
            sv = s.target.id
            ws = []
            for st in _strip(s.body):
                t = st.targets[0] if isinstance(st, ast.Assign) and len(st.targets) == 1 else None
                if isinstance(t, ast.Subscript) and isinstance(t.value, ast.Subscript) and _name(t.value.value, "connectivity") and \
                        _const(st.value) and st.value.value == int(st.value.value) and st.value.value >= 0:
                    ws.append((ast.unparse(t.value.slice).replace(sv, "s"), ast.unparse(t.slice).replace(sv, "s"), int(st.value.value)))
                else: raise TranslateError(f"{W}: statement in the sink loop not recognised: {ast.unparse(st)[:80]}")
            sink = ws
    if sink is None or sorted((a, b) for a, b, _ in sink) != [("TARGET", "s"), ("s", "TARGET")] or len({w for _, _, w in sink}) != 1:
        raise TranslateError(f"{W}: the loop joining every target to TARGET (both directions, one weight) not found: {sink}")
    # creation of the outer dict: one empty inner dict per vertex id, one for TARGET
    created = set()
    for s in body:
        if isinstance(s, ast.Assign) and len(s.targets) == 1 and _name(s.targets[0], "connectivity"):
            v = s.value
            lc = v.args[0] if (_call(v, "dict", 1) and isinstance(v.args[0], (ast.ListComp, ast.GeneratorExp))) else None
            okc = False
            if lc is not None and isinstance(lc.elt, ast.Tuple) and len(lc.elt.elts) == 2 and len(lc.generators) == 1:
                g = lc.generators[0]
                okc = _name(lc.elt.elts[0], g.target.id) and (_call(lc.elt.elts[1], "dict", 0) or (isinstance(lc.elt.elts[1], ast.Dict) and not lc.elt.elts[1].keys)) \
                    and ast.unparse(g.iter) == "mesh.id_vertices" and not g.ifs
            if isinstance(v, ast.DictComp) and len(v.generators) == 1:
                g = v.generators[0]
                okc = _name(v.key, g.target.id) and (_call(v.value, "dict", 0) or (isinstance(v.value, ast.Dict) and not v.value.keys)) \
                    and ast.unparse(g.iter) == "mesh.id_vertices" and not g.ifs
            if not okc: raise TranslateError(f"{W}: connectivity is not created as one EMPTY dict per vertex id: {ast.unparse(v)[:80]}")
            created.add("vertices")
        if isinstance(s, ast.Assign) and len(s.targets) == 1 and isinstance(s.targets[0], ast.Subscript) and _name(s.targets[0].value, "connectivity") \
                and _name(s.targets[0].slice, "TARGET") and (_call(s.value, "dict", 0) or (isinstance(s.value, ast.Dict) and not s.value.keys)):
            created.add("sink")
    if created != {"vertices", "sink"}: raise TranslateError(f"{W}: creation of the empty inner dicts (every vertex id, TARGET) not found: {sorted(created)}")
    # the two writes of an edge touch different inner dicts (or, for a loop, the same key): their order is immaterial -> sorted
    def wr(mode):
        wt, pairs = out[mode]
        ls = []
        if wt not in ("len e", "w e") and not wt.startswith("("): raise TranslateError(f"{W}: weight {wt}")
        for x, y in sorted(pairs):
            ls.append(f"    let c := cset c {x} {y} ({wt})")
        return ls
    conn = ["/-- body of `for e, (a, b) in enumerate(mesh.edges)` per weight mode: the writes into the dict of dicts -/",
            "def connEdge (mode : WMode) (len : Nat → Rat) (w : Nat → Rat) (c : Conn) (ie : Nat × Nat × Nat) : Conn :=",
            "  let e := ie.1", "  let a := ie.2.1", "  let b := ie.2.2", "  match mode with"]
    for mname in ("one", "length", "custom"):
        conn += [f"  | .{mname} =>"] + wr(mname) + ["    c"]
    conn += ["/-- body of `for s in targets` -/", "def connSink (sink : Nat) (c : Conn) (s : Nat) : Conn :="]
    for x, y, wz in sorted(sink, key=lambda t_: (t_[0] == "TARGET", t_)):
        conn.append(f"  let c := cset c {x.replace('TARGET', 'sink')} {y.replace('TARGET', 'sink')} ({wz} : Rat)")
    conn += ["  c", "/-- the whole construction: empty inner dicts, the loop over the (enumerated) mesh edges, the loop over the targets -/",
             "def connBuild (mode : WMode) (len : Nat → Rat) (w : Nat → Rat) (ies : List (Nat × Nat × Nat)) (sink : Nat) (targets : List Nat) : Conn :=",
             "  let c : Conn := fun _ => []", "  let c := ies.foldl (connEdge mode len w) c", "  let c := targets.foldl (connSink sink) c", "  c", ""]
    lines = ["/-! ### the `connectivity` dict of shortest_path_to_vertex_set: weight written for mesh edge number `e` in both directions,",
             "and the weight of the fictitious edges target ↔ TARGET -/",
             "def connWeight (mode : WMode) (len : Nat → Rat) (w : Nat → Rat) (e : Nat) : Rat :=",
             "  match mode with", f"  | .one => {out['one'][0]}", f"  | .length => {out['length'][0]}", f"  | .custom => {out['custom'][0]}",
             f"def sinkWeight : Rat := ({sink[0][2]} : Rat)", ""]
    return lines + conn


def _shortcut(f):
    """empty-set guard + single-target shortcut of shortest_path_to_vertex_set"""
    W = "shortest_path_to_vertex_set"
    body = _strip(f.body)
    env = Env({"targets": ("targets", "list")})
    guard = short = None
    for s in body:
        if isinstance(s, ast.If) and not s.orelse and isinstance(s.test, ast.Compare) and _call(s.test.left, "len", 1) and _name(s.test.left.args[0], "targets"):
            b = _strip(s.body)
            if len(b) == 1 and isinstance(b[0], ast.Raise): guard = env.cond(s.test, W)
            else: short = s
    if guard is None: raise TranslateError(f"{W}: `if len(targets) == 0: raise` not found")
    if short is None: raise TranslateError(f"{W}: single-target shortcut `if len(targets) == 1:` not found")
    sc = env.cond(short.test, W)
    b = _strip(short.body)
    # TARGET = targets[0]
    if not (isinstance(b[0], ast.Assign) and _name(b[0].targets[0], "TARGET")):
        raise TranslateError(f"{W}: shortcut does not begin with `TARGET = targets[…]`")
    tgt = env.nat(b[0].value, W)

    def branch(stmts):
        """… = shortest_path(mesh, start, TARGET, weights, export_path_mesh)…; return TARGET, parent[TARGET](, mesh)"""
        stmts = _strip(stmts)
        if not (len(stmts) == 2 and isinstance(stmts[0], ast.Assign) and isinstance(stmts[1], ast.Return) and isinstance(stmts[1].value, ast.Tuple)):
            raise TranslateError(f"{W}: shortcut branch is not `… = shortest_path(…); return …`")
        call = stmts[0].value
        sub = None
        if isinstance(call, ast.Subscript): sub = call.slice; call = call.value
        if not (isinstance(call, ast.Call) and _name(call.func, "shortest_path")): raise TranslateError(f"{W}: shortcut does not call shortest_path")
        params = ["mesh", "start", "targets", "weights", "export_path_mesh"]
        bound = dict(zip(params, call.args))
        for k in call.keywords: bound[k.arg] = k.value
        want = {"mesh": "mesh", "start": "start", "targets": "TARGET", "weights": "weights", "export_path_mesh": "export_path_mesh"}
        got = {k: ast.unparse(v) for k, v in bound.items()}
        if got != want: raise TranslateError(f"{W}: shortcut calls shortest_path with {got}, expected {want}")
        tg = stmts[0].targets[0]
        ret = stmts[1].value.elts
        if isinstance(tg, ast.Tuple):                       # parent, mesh = shortest_path(...)
            if sub is not None or len(tg.elts) != 2: raise TranslateError(f"{W}: shortcut unpacking not recognised")
            dictname, pmname = tg.elts[0].id, tg.elts[1].id
            path = lambda n: isinstance(n, ast.Subscript) and _name(n.value, dictname) and _name(n.slice, "TARGET")
            exp = True
        else:
            if not _name(sub, "TARGET"): raise TranslateError(f"{W}: shortcut does not read the entry of TARGET from the returned dict")
            pname = tg.id
            path = lambda n: _name(n, pname)
            exp = False
        if not (len(ret) == (3 if exp else 2) and path(ret[1])): raise TranslateError(f"{W}: shortcut must return (index, path{', mesh' if exp else ''})")
        if exp and not _name(ret[2], pmname): raise TranslateError(f"{W}: shortcut must return the polyline as third component")
        idx = "TARGET" if _name(ret[0], "TARGET") else "start" if _name(ret[0], "start") else None
        if idx is None: raise TranslateError(f"{W}: returned index not recognised: {ast.unparse(ret[0])[:40]}")
        return f"(sp TARGET, {idx})", exp
    rest = b[1:]
    if len(rest) == 1 and isinstance(rest[0], ast.If) and _name(rest[0].test, "export_path_mesh"):
        e1, x1 = branch(rest[0].body); e2, x2 = branch(rest[0].orelse)
        if not (x1 and not x2): raise TranslateError(f"{W}: export / plain branches of the shortcut are mixed up")
        ret = f"if exportMesh then some {e1} else some {e2}"
    else:
        raise TranslateError(f"{W}: shortcut is not split on export_path_mesh")
    # targets are turned into a list first
    conv = any(isinstance(s, ast.If) and isinstance(s.test, ast.UnaryOp) and _call(s.test.operand, "isinstance", 2) and _name(s.test.operand.args[0], "targets")
               for s in body)
    if not conv: raise TranslateError(f"{W}: `if not isinstance(targets, list): targets = [x for x in targets]` not found")
    return ["/-! ### dispatch of shortest_path_to_vertex_set: `none` = `Exception(\"No target provided\")`; `sp t` = the entry of `t` in the dict",
            "returned by `shortest_path(mesh, start, t, weights, export_path_mesh)`; `general` = the sink construction. Result: (path, index) -/",
            "def vertexSet_src (sp : Nat → Res) (general : Unit → Res × Nat) (targets : List Nat) (exportMesh : Bool) : Option (Res × Nat) :=",
            f"  if {guard} then none", f"  else if {sc} then", f"    let TARGET := {tgt}", f"    {ret}", "  else some (general ())", ""]


def _border(tree):
    W = "shortest_path_to_border"
    f = _fn(tree, W)
    body = _strip(f.body)
    if len(body) != 4: raise TranslateError(f"{W}: expected guard, call, selection, return (found {len(body)} statements)")
    g, call, sel, ret = body
    env = Env({"bv": ("bv", "list"), "result": ("result", "list")})
    ok = isinstance(g, ast.If) and not g.orelse and len(_strip(g.body)) == 1 and isinstance(_strip(g.body)[0], ast.Raise) and \
        isinstance(g.test, ast.Compare) and _call(g.test.left, "len", 1) and ast.unparse(g.test.left.args[0]) == "mesh.boundary_vertices"
    if not ok: raise TranslateError(f"{W}: `if len(mesh.boundary_vertices) == 0: raise` not found")
    gt = copy.deepcopy(g.test); gt.left.args[0] = ast.Name("bv")
    guard = env.cond(gt, W)
    if not (isinstance(call, ast.Assign) and _name(call.targets[0]) and isinstance(call.value, ast.Call) and _name(call.value.func, "shortest_path_to_vertex_set")):
        raise TranslateError(f"{W}: call of shortest_path_to_vertex_set not found")
    res = call.targets[0].id
    params = ["mesh", "start", "targets", "weights", "export_path_mesh"]
    bound = dict(zip(params, call.value.args))
    for k in call.value.keywords: bound[k.arg] = k.value
    got = {k: ast.unparse(v) for k, v in bound.items()}
    want = {"mesh": "mesh", "start": "start", "targets": "mesh.boundary_vertices", "weights": "weights", "export_path_mesh": "export_path_mesh"}
    if got != want: raise TranslateError(f"{W}: shortest_path_to_vertex_set is called with {got}, expected {want}")
    env[res] = ("result", "list")

    def pick(n):
        if isinstance(n, ast.Subscript) and _name(n.value, res):
            if isinstance(n.slice, ast.Slice) and n.slice.upper is None and n.slice.step is None and n.slice.lower is not None:
                return f".inr (result.drop {env.nat(n.slice.lower, W)})"
            return f".inl (result.getD {env.nat(n.slice, W)} default)"
        raise TranslateError(f"{W}: returned expression not recognised: {ast.unparse(n)[:60]}")
    if not (isinstance(sel, ast.If) and not sel.orelse and len(_strip(sel.body)) == 1 and isinstance(_strip(sel.body)[0], ast.Return) and isinstance(ret, ast.Return)):
        raise TranslateError(f"{W}: `if len(result) == 2: return result[1]` / `return result[1:]` not found")
    return ["/-! ### shortest_path_to_border -/",
            "/-- `none` = `Exception(\"Mesh has no border\")`; `vset` = shortest_path_to_vertex_set(mesh, start, ·, weights, export_path_mesh);",
            "`bv` = mesh.boundary_vertices -/",
            "def toBorder_src (vset : List Nat → Res × Nat) (bv : List Nat) : Option (Res × Nat) :=",
            f"  if {guard} then none else some (vset bv)",
            "/-- which components of the tuple returned by shortest_path_to_vertex_set are handed back -/",
            "def borderPick {α : Type} [Inhabited α] (result : List α) : α ⊕ List α :=",
            f"  if {env.cond(sel.test, W)} then {pick(_strip(sel.body)[0].value)} else {pick(ret.value)}", ""]


def _check_weight(tree):
    W = "_check_weight_argument"
    f = _fn(tree, W)
    body = _strip(f.body)
    ok = len(body) == 1 and isinstance(body[0], ast.If) and _call(body[0].test, "isinstance", 2) and _name(body[0].test.args[1], "str")
    if not ok: raise TranslateError(f"{W}: does not start with `if isinstance(weights, str)`")
    a = _strip(body[0].body)
    if not (len(a) == 1 and isinstance(a[0], ast.Expr) and _call(a[0].value, "check_argument", 4) and isinstance(a[0].value.args[3], ast.List)):
        raise TranslateError(f"{W}: string branch is not check_argument(…, [..])")
    strs = [e.value for e in a[0].value.args[3].elts if isinstance(e, ast.Constant)]
    o = body[0].orelse
    if not (len(o) == 1 and isinstance(o[0], ast.If) and len(_strip(o[0].body)) == 1 and isinstance(_strip(o[0].body)[0], ast.Raise) and not o[0].orelse):
        raise TranslateError(f"{W}: non-string branch is not `elif not (…): raise`")
    t = o[0].test
    if not (isinstance(t, ast.UnaryOp) and isinstance(t.op, ast.Not)): raise TranslateError(f"{W}: type test is not negated")
    types = []
    for n in ast.walk(t.operand):
        if _call(n, "isinstance", 2) and _name(n.args[0], "weights"):
            ty = n.args[1]
            types += [ast.unparse(x) for x in (ty.elts if isinstance(ty, ast.Tuple) else [ty])]
    q = lambda l: "[" + ", ".join('"' + x + '"' for x in l) + "]"
    return ["/-! ### _check_weight_argument: accepted strings and accepted container types -/",
            f"def weightStrings : List String := {q(strs)}", f"def weightTypes : List String := {q(sorted(types))}", ""]


HEADER = """import Mouette.Model.Dijkstra
import Mouette.Model.PathMesh
import Mouette.Model.ConnDict
/-
Imperative translation of the glue of mouette/processing/paths.py (everything around the two Dijkstra loops).
Bridges: Mouette/Props/C09Source.lean.
-/
namespace Mouette.Generated.C09G
open Mouette.Dijkstra

/-- the three weight modes of the `weights` argument: "one", "length", anything else (dict / Attribute) -/
inductive WMode where
  | one | length | custom
deriving DecidableEq, Repr

"""



def _stub(name, ns, sites):
    """a translation site failed: do not leave the file of an EARLIER tree on disk; the stub has no definitions, so every bridge
    that needs them fails to build and the build log talks about THIS tree"""
    bad = "; ".join(f"{s['site']}: {str(s.get('detail'))[:160]}" for s in sites if not s["ok"]).replace("-/", "- /")
    T.write_generated(name, f"/- TRANSLATION FAILED on the current source tree, no definitions emitted.\n{bad}\n-/\nnamespace {ns}\nend {ns}\n")

def translate():
    sites, out = [], {}

    def run(name, key, fn):
        def g():
            out[key] = fn()
            return f"{len(out[key])} lines"
        rec = T.site(name, g); sites.append(rec); return rec["ok"]
    tree = lambda: T.load(FILE)[0]
    ok = True
    ok &= run("paths.py:build_path (whole body, imperatively)", "build", lambda: _build_path(tree()))
    ok &= run("paths.py:shortest_path (back-tracking, returned value)", "bsp", lambda: _backtrack_sp(_fn(tree(), "shortest_path"))[0])
    ok &= run("paths.py:shortest_path (weight-mode dispatch)", "wsp", lambda: _weights_sp(_fn(tree(), "shortest_path")))
    ok &= run("paths.py:shortest_path (target normalisation)", "tn", lambda: _targets_norm(_fn(tree(), "shortest_path")))
    ok &= run("paths.py:shortest_path_to_vertex_set (back-tracking from the sink, index, returned value)", "bset",
              lambda: _backtrack_set(_fn(tree(), "shortest_path_to_vertex_set")))
    ok &= run("paths.py:shortest_path_to_vertex_set (connectivity construction per weight mode, sink edges)", "conn",
              lambda: _conn_build(_fn(tree(), "shortest_path_to_vertex_set")))
    ok &= run("paths.py:shortest_path_to_vertex_set (empty-set guard, single-target shortcut)", "short",
              lambda: _shortcut(_fn(tree(), "shortest_path_to_vertex_set")))
    ok &= run("paths.py:shortest_path_to_border (guard, argument binding, tuple selection)", "border", lambda: _border(tree()))
    ok &= run("paths.py:_check_weight_argument (accepted values)", "cw", lambda: _check_weight(tree()))
    if ok:
        body = []
        for k in ("build", "bsp", "wsp", "tn", "bset", "conn", "short", "border", "cw"): body += out[k]
        T.write_generated("C09Glue", "\n".join(body) + "\nend Mouette.Generated.C09G\n", HEADER)
    else:
        _stub("C09Glue", "Mouette.Generated.C09G", sites)
    return sites
