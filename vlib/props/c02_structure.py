"""C02, translated STRUCTURE fragments (round 2): the control skeleton of the construction code is re-read with Python
`ast` on every run and written to lean/Mouette/Generated/C02Structure.lean in the vocabulary of
lean/Mouette/Lemmas/C02Steps.lean. Bridge theorems in Props/C02.lean state that the model runs exactly this skeleton.

Sites
  prepare()                     ordered steps, the config switch guarding each completion step, the `_prepared` guard first
  _prepare_edges.is_valid       the validity predicate, operators and bounds, as a Lean Bool expression
  _complete_edges_from_faces    `if not has_attribute("hard_edges")` guard, flags set before the completion loop
  corner appends                argument order of `face_corners.append(v, iF)`, `cell_corners.append(v, iC)`,
                                `CornerDataContainer.append(val_elem, val_adj)` routing, the two `cell_faces` appends
  _compute_dimensionality       the if/elif chain (container tested, value assigned)
  _instanciate_raw_mesh_data    prepare BEFORE reading dimensionality, `max(dim, dimensionality)`, default -1, class per value
  Mesh.__init__                 `dim > k` thresholds and the containers shared at each threshold
A shape that is no longer recognised raises TranslateError (site `ok: False` = broken obligation); a recognised but
different skeleton (reordered steps, other operator, swapped arguments) is emitted as it is and breaks a bridge theorem.
"""
import ast

from .. import translate as T

STEP_OF = {
    "_complete_faces_from_cells": "completeFaces", "_complete_edges_from_faces": "completeEdges",
    "_prepare_vertices": "prepareVertices", "_prepare_edges": "prepareEdges", "_prepare_faces": "prepareFaces",
    "_generate_face_corners": "genFaceCorners", "_prepare_cells": "prepareCells",
    "_generate_cell_corners": "genCellCorners", "_generate_cell_faces": "genCellFaces",
    "_compute_dimensionality": "computeDim",
}
GUARD_OF = {"complete_faces_from_cells": "ifCF", "complete_edges_from_faces": "ifCE"}


def _body(fn):
    b = list(fn.body)
    if b and isinstance(b[0], ast.Expr) and isinstance(b[0].value, ast.Constant) and isinstance(b[0].value.value, str):
        b = b[1:]
    return b


def _self_call(node):
    """`self.<name>()` (expression statement) -> name, else None"""
    if isinstance(node, ast.Expr) and isinstance(node.value, ast.Call) and not node.value.args and not node.value.keywords:
        f = node.value.func
        if isinstance(f, ast.Attribute) and isinstance(f.value, ast.Name) and f.value.id == "self":
            return f.attr
    return None


def _is_attr(node, obj, attr):
    return isinstance(node, ast.Attribute) and node.attr == attr and isinstance(node.value, ast.Name) and node.value.id == obj


# ------------------------------------------------------------------------------------------------------------
def prepare_program(tree):
    fn = T.find_def(tree, "RawMeshData.prepare")
    body = _body(fn)
    guard_first = False
    steps = []
    for k, st in enumerate(body):
        if isinstance(st, ast.If) and _is_attr(st.test, "self", "_prepared") and len(st.body) == 1 \
                and isinstance(st.body[0], ast.Return) and st.body[0].value is None and not st.orelse:
            if k != 0:
                raise T.TranslateError("`if self._prepared: return` is not the first statement of prepare()")
            guard_first = True
            continue
        if isinstance(st, ast.If) and isinstance(st.test, ast.Attribute) and isinstance(st.test.value, ast.Name) \
                and st.test.value.id == "config" and not st.orelse and len(st.body) == 1:
            if st.test.attr not in GUARD_OF:
                raise T.TranslateError(f"unknown config switch {st.test.attr}")
            name = _self_call(st.body[0])
            if name not in STEP_OF:
                raise T.TranslateError(f"unrecognised guarded step: {ast.dump(st.body[0])[:80]}")
            steps.append((GUARD_OF[st.test.attr], STEP_OF[name])); continue
        name = _self_call(st)
        if name is not None:
            if name not in STEP_OF:
                raise T.TranslateError(f"unknown step self.{name}()")
            steps.append(("always", STEP_OF[name])); continue
        if isinstance(st, ast.Assign) and len(st.targets) == 1 and _is_attr(st.targets[0], "self", "_prepared") \
                and isinstance(st.value, ast.Constant) and st.value.value is True:
            steps.append(("always", "setPrepared")); continue
        raise T.TranslateError(f"unrecognised statement in prepare(): {ast.dump(st)[:100]}")
    return guard_first, steps


# ------------------------------------------------------------------------------------------------------------
_CMP = {ast.NotEq: "≠", ast.Eq: "=", ast.Lt: "<", ast.LtE: "≤", ast.Gt: ">", ast.GtE: "≥"}


def _bool_expr(node, names, ty="Int", rename=None):
    if isinstance(node, ast.BoolOp):
        op = "&&" if isinstance(node.op, ast.And) else "||"
        return "(" + f" {op} ".join(_bool_expr(v, names, ty, rename) for v in node.values) + ")"
    if isinstance(node, ast.UnaryOp) and isinstance(node.op, ast.Not):
        return f"(!{_bool_expr(node.operand, names, ty, rename)})"
    if isinstance(node, ast.Compare):
        terms = [node.left] + list(node.comparators)
        parts = []
        for l, op, r in zip(terms, node.ops, terms[1:]):
            if type(op) not in _CMP:
                raise T.TranslateError("unsupported comparison operator")
            parts.append(f"decide ({_int_term(l, names, ty, rename)} {_CMP[type(op)]} {_int_term(r, names, ty, rename)})")
        return "(" + " && ".join(parts) + ")"
    raise T.TranslateError(f"unsupported boolean expression {ast.dump(node)[:80]}")


def _int_term(node, names, ty="Int", rename=None):
    if isinstance(node, ast.Subscript) and isinstance(node.value, ast.Name) and isinstance(node.slice, ast.Constant) \
            and (node.value.id, node.slice.value) in (rename or {}):
        return rename[(node.value.id, node.slice.value)]
    if isinstance(node, ast.Name) and node.id in names:
        return (rename or {}).get(node.id, node.id)
    if isinstance(node, ast.Constant) and isinstance(node.value, int) and not isinstance(node.value, bool):
        if ty == "Nat" and node.value < 0: raise T.TranslateError("negative constant in a count comparison")
        return f"({node.value} : {ty})"
    raise T.TranslateError(f"unsupported term in validity predicate: {ast.dump(node)[:60]}")


def is_valid_predicate(tree):
    fn = T.find_def(tree, "RawMeshData._prepare_edges")
    bound, inner = None, None
    for st in fn.body:
        if isinstance(st, ast.Assign) and len(st.targets) == 1 and isinstance(st.targets[0], ast.Name) \
                and isinstance(st.value, ast.Call) and isinstance(st.value.func, ast.Name) and st.value.func.id == "len" \
                and len(st.value.args) == 1 and _is_attr(st.value.args[0], "self", "vertices"):
            bound = st.targets[0].id
        if isinstance(st, ast.FunctionDef) and st.name == "is_valid":
            inner = st
    if inner is None or bound is None:
        raise T.TranslateError("`N = len(self.vertices)` / nested `def is_valid(a,b)` not found in _prepare_edges")
    params = [a.arg for a in inner.args.args]
    if len(params) != 2 or len(inner.body) != 1 or not isinstance(inner.body[0], ast.Return):
        raise T.TranslateError("is_valid is not `def is_valid(a,b): return <expr>`")
    expr = _bool_expr(inner.body[0].value, set(params) | {bound})
    # the predicate must be what decides: `any(not is_valid(a,b) for a,b in self.edges)` and `if is_valid(a,b)` in the loop
    uses = [n for n in ast.walk(fn) if isinstance(n, ast.Call) and isinstance(n.func, ast.Name) and n.func.id == "is_valid"]
    if len(uses) < 2 or not all(len(u.args) == 2 and all(isinstance(a, ast.Name) for a in u.args) for u in uses):
        raise T.TranslateError("is_valid(a,b) is not used both for the `any(...)` test and in the filter loop")
    return params, bound, expr


# ------------------------------------------------------------------------------------------------------------
def hard_edges_guard(tree):
    fn = T.find_def(tree, "RawMeshData._complete_edges_from_faces")
    body = _body(fn)
    empty_first = False
    if body and isinstance(body[0], ast.If) and isinstance(body[0].test, ast.Call) and isinstance(body[0].test.func, ast.Attribute) \
            and body[0].test.func.attr == "empty" and _is_attr(body[0].test.func.value, "self", "faces") \
            and len(body[0].body) == 1 and isinstance(body[0].body[0], ast.Return):
        empty_first = True

    def creates(st):
        for n in ast.walk(st):
            if isinstance(n, ast.Call) and isinstance(n.func, ast.Attribute) and n.func.attr == "create_attribute" \
                    and _is_attr(n.func.value, "self", "edges") and n.args and isinstance(n.args[0], ast.Constant):
                return n.args[0].value
        return None

    def flag_loop(stmts):
        for st in stmts:
            over_all_edges = _is_attr(st.iter, "self", "id_edges") if isinstance(st, ast.For) else False
            if isinstance(st, ast.For) and isinstance(st.iter, ast.Call) and isinstance(st.iter.func, ast.Name) and st.iter.func.id == "range" \
                    and len(st.iter.args) == 1 and isinstance(st.iter.args[0], ast.Call) and isinstance(st.iter.args[0].func, ast.Name) \
                    and st.iter.args[0].func.id == "len" and _is_attr(st.iter.args[0].args[0], "self", "edges"):
                over_all_edges = True                                  # `range(len(self.edges))` is what `self.id_edges` returns
            if isinstance(st, ast.For) and over_all_edges and len(st.body) == 1 \
                    and isinstance(st.body[0], ast.Assign) and isinstance(st.body[0].targets[0], ast.Subscript) \
                    and isinstance(st.body[0].value, ast.Constant) and st.body[0].value.value is True:
                return True
        return False
    guard, name, k_create, k_loop = None, None, None, None
    for k, st in enumerate(body):
        nm = creates(st)
        if nm is not None and k_create is None:
            k_create, name = k, nm
            if isinstance(st, ast.If):
                t = st.test
                if isinstance(t, ast.UnaryOp) and isinstance(t.op, ast.Not) and isinstance(t.operand, ast.Call) \
                        and isinstance(t.operand.func, ast.Attribute) and t.operand.func.attr == "has_attribute" \
                        and _is_attr(t.operand.func.value, "self", "edges") and t.operand.args \
                        and isinstance(t.operand.args[0], ast.Constant) and not st.orelse:
                    if t.operand.args[0].value != nm:
                        raise T.TranslateError("has_attribute and create_attribute name different attributes")
                    guard = "ifAbsent"
                    if not flag_loop(st.body):
                        raise T.TranslateError("no `for e in self.id_edges: hard_edges[e] = True` under the guard")
                else:
                    raise T.TranslateError(f"unrecognised guard around create_attribute: {ast.dump(t)[:80]}")
            else:
                guard = "always"
                if not flag_loop(body[k:k + 2]):
                    raise T.TranslateError("no `for e in self.id_edges: hard_edges[e] = True` after create_attribute")
        if isinstance(st, ast.For) and _is_attr(st.iter, "self", "faces"):
            k_loop = k
    if guard is None or k_loop is None:
        raise T.TranslateError("create_attribute(\"hard_edges\") / `for f in self.faces` not found")
    return {"guard": guard, "name": name, "flags_before": k_create < k_loop, "empty_first": empty_first}


# ------------------------------------------------------------------------------------------------------------
def completion_skip_guard(tree):
    """_complete_edges_from_faces: inside the loop over the face sides, `edge = keyify(f[i], f[(i+1)%nf])` then
    `if <test over edge[0], edge[1], N>: continue` BEFORE the membership test; `N = len(self.vertices)`"""
    fn = T.find_def(tree, "RawMeshData._complete_edges_from_faces")
    bound = None
    for st in fn.body:
        if isinstance(st, ast.Assign) and isinstance(st.targets[0], ast.Name) and isinstance(st.value, ast.Call) \
                and isinstance(st.value.func, ast.Name) and st.value.func.id == "len" and _is_attr(st.value.args[0], "self", "vertices"):
            bound = st.targets[0].id
    for outer in fn.body:
        if not (isinstance(outer, ast.For) and _is_attr(outer.iter, "self", "faces")): continue
        for inner in outer.body:
            if not isinstance(inner, ast.For): continue
            var, k_skip, k_member, test = None, None, None, None
            for k, st in enumerate(inner.body):
                if isinstance(st, ast.Assign) and isinstance(st.targets[0], ast.Name) and isinstance(st.value, ast.Call) \
                        and isinstance(st.value.func, ast.Attribute) and st.value.func.attr == "keyify":
                    var = st.targets[0].id
                elif isinstance(st, ast.If) and len(st.body) == 1 and isinstance(st.body[0], ast.Continue) and not st.orelse:
                    k_skip, test = k, st.test
                elif isinstance(st, ast.If) and isinstance(st.test, ast.Compare) and isinstance(st.test.ops[0], ast.NotIn):
                    k_member = k
            if var is None or k_member is None:
                raise T.TranslateError("side loop: `edge = keyify(...)` / `if edge not in edge_set` not recognised")
            if k_skip is None or bound is None:
                raise T.TranslateError("side loop: no `if <degenerate side>: continue` guard (or no `N = len(self.vertices)`)")
            if k_skip > k_member:
                raise T.TranslateError("the degenerate-side guard comes after the edge was appended")
            return _bool_expr(test, {bound}, "Int", {(var, 0): "a", (var, 1): "b", bound: "N"})
    raise T.TranslateError("loop over the sides of the faces not found")


# ------------------------------------------------------------------------------------------------------------
def _corner_append_roles(fn, container):
    """roles of the two arguments of `self.<container>.append(x, y)` inside `for i, R in enumerate(...): for v in R:`"""
    found = []
    for outer in ast.walk(fn):
        if not (isinstance(outer, ast.For) and isinstance(outer.iter, ast.Call) and isinstance(outer.iter.func, ast.Name)
                and outer.iter.func.id == "enumerate" and isinstance(outer.target, ast.Tuple) and len(outer.target.elts) == 2):
            continue
        idx, row = outer.target.elts[0].id, outer.target.elts[1].id
        for inner in outer.body:
            if isinstance(inner, ast.For) and isinstance(inner.iter, ast.Name) and inner.iter.id == row and isinstance(inner.target, ast.Name):
                v = inner.target.id
                for st in inner.body:
                    if isinstance(st, ast.Expr) and isinstance(st.value, ast.Call) and isinstance(st.value.func, ast.Attribute) \
                            and st.value.func.attr == "append" and _is_attr(st.value.func.value, "self", container):
                        roles = []
                        for a in st.value.args:
                            if isinstance(a, ast.Name) and a.id == v: roles.append("vertex")
                            elif isinstance(a, ast.Name) and a.id == idx: roles.append("owner")
                            else: raise T.TranslateError(f"{container}.append argument is neither the vertex nor the element index")
                        found.append(roles)
    if len(found) != 1 or len(found[0]) != 2:
        raise T.TranslateError(f"exactly one `self.{container}.append(x, y)` in an enumerate/for nest expected, found {len(found)}")
    return found[0]


def corner_appends(tree_md, tree_dc):
    fc = _corner_append_roles(T.find_def(tree_md, "RawMeshData._generate_face_corners"), "face_corners")
    cc = _corner_append_roles(T.find_def(tree_md, "RawMeshData._generate_cell_corners"), "cell_corners")
    ap = T.find_def(tree_dc, "CornerDataContainer.append")
    params = [a.arg for a in ap.args.args][1:]
    slots = {}
    for st in ap.body:
        if isinstance(st, ast.Expr) and isinstance(st.value, ast.Call) and isinstance(st.value.func, ast.Attribute) \
                and st.value.func.attr == "append" and isinstance(st.value.func.value, ast.Attribute) \
                and isinstance(st.value.func.value.value, ast.Name) and st.value.func.value.value.id == "self" \
                and len(st.value.args) == 1 and isinstance(st.value.args[0], ast.Name):
            slots[st.value.args[0].id] = st.value.func.value.attr
    if len(params) != 2 or set(slots) != set(params) or sorted(slots.values()) != ["_adj", "_elem"]:
        raise T.TranslateError("CornerDataContainer.append(val_elem, val_adj) routing not recognised")
    routing = ["elem" if slots[p] == "_elem" else "adj" for p in params]
    # the two direct appends of _generate_cell_faces
    gf = T.find_def(tree_md, "RawMeshData._generate_cell_faces")
    cell_idx, fid_var, elem_ok, adj_ok = None, None, None, None
    for outer in ast.walk(gf):
        if isinstance(outer, ast.For) and isinstance(outer.iter, ast.Call) and isinstance(outer.iter.func, ast.Name) \
                and outer.iter.func.id == "enumerate" and _is_attr(outer.iter.args[0], "self", "cells"):
            cell_idx = outer.target.elts[0].id
            for n in ast.walk(outer):
                if isinstance(n, ast.Assign) and isinstance(n.targets[0], ast.Name):
                    v = n.value
                    if (isinstance(v, ast.Call) and isinstance(v.func, ast.Attribute) and v.func.attr == "get"
                            and isinstance(v.func.value, ast.Name) and v.func.value.id == "face_id") or \
                            (isinstance(v, ast.Subscript) and isinstance(v.value, ast.Name) and v.value.id == "face_id"):
                        fid_var = n.targets[0].id
                if isinstance(n, ast.Call) and isinstance(n.func, ast.Attribute) and n.func.attr == "append" \
                        and isinstance(n.func.value, ast.Attribute) and _is_attr(n.func.value.value, "self", "cell_faces") and len(n.args) == 1:
                    a = n.args[0]
                    is_fid = (isinstance(a, ast.Name) and a.id == fid_var) or \
                             (isinstance(a, ast.Subscript) and isinstance(a.value, ast.Name) and a.value.id == "face_id")
                    is_cell = isinstance(a, ast.Name) and a.id == cell_idx
                    if n.func.value.attr == "_elem": elem_ok = "faceId" if is_fid else "cellIndex" if is_cell else None
                    if n.func.value.attr == "_adj": adj_ok = "faceId" if is_fid else "cellIndex" if is_cell else None
    if elem_ok is None or adj_ok is None:
        raise T.TranslateError("cell_faces._elem.append(<face id>) / cell_faces._adj.append(<cell index>) not recognised")
    return {"face": fc, "cell": cc, "routing": routing, "cellFaceElem": elem_ok, "cellFaceAdj": adj_ok}


# ------------------------------------------------------------------------------------------------------------
def _count_role(value, container):
    """len(self.<container>) / len(self.<container>._elem) -> nelem ; len(..._adj) -> nadj ;
    sum([len(x) for x in self.<elements>]) -> total"""
    if isinstance(value, ast.Call) and isinstance(value.func, ast.Name) and value.func.id == "len" and len(value.args) == 1:
        a = value.args[0]
        if _is_attr(a, "self", container): return "nelem"
        if isinstance(a, ast.Attribute) and _is_attr(a.value, "self", container):
            return {"_elem": "nelem", "_adj": "nadj"}.get(a.attr)
    if isinstance(value, ast.Call) and isinstance(value.func, ast.Name) and value.func.id == "sum" and len(value.args) == 1 \
            and isinstance(value.args[0], (ast.ListComp, ast.GeneratorExp)):
        lc = value.args[0]
        if isinstance(lc.elt, ast.Call) and isinstance(lc.elt.func, ast.Name) and lc.elt.func.id == "len" and len(lc.generators) == 1 \
                and isinstance(lc.generators[0].iter, ast.Attribute) and isinstance(lc.generators[0].iter.value, ast.Name) \
                and lc.generators[0].iter.value.id == "self":
            return "total:" + lc.generators[0].iter.attr
    return None


def _resets(stmts, container):
    got = set()
    for st in stmts:
        if isinstance(st, ast.Assign) and isinstance(st.targets[0], ast.Attribute) and _is_attr(st.targets[0].value, "self", container) \
                and isinstance(st.value, ast.List) and not st.value.elts:
            got.add(st.targets[0].attr)
    return got


def corner_guards(tree):
    """regeneration criteria of _generate_face_corners / _generate_cell_corners and the resets of the regenerating
    branch; _generate_cell_faces must rebuild unconditionally (resets at top level)"""
    out = {}
    for fname, container, elements in (("_generate_face_corners", "face_corners", "faces"), ("_generate_cell_corners", "cell_corners", "cells")):
        fn = T.find_def(tree, "RawMeshData." + fname)
        roles, guard = {}, None
        for st in _body(fn):
            if isinstance(st, ast.Assign) and isinstance(st.targets[0], ast.Name):
                role = _count_role(st.value, container)
                if role is None: raise T.TranslateError(f"{fname}: unrecognised count `{st.targets[0].id} = ...`")
                if role.startswith("total:"):
                    if role != "total:" + elements: raise T.TranslateError(f"{fname}: the total is not taken over self.{elements}")
                    role = "total"
                roles[st.targets[0].id] = role
            elif isinstance(st, ast.If) and guard is None and not st.orelse:
                guard = st
            else:
                raise T.TranslateError(f"{fname}: unrecognised statement {ast.dump(st)[:80]}")
        if guard is None: raise T.TranslateError(f"{fname}: no regeneration guard")
        expr = _bool_expr(guard.test, set(roles), "Nat", roles)
        inner = None
        body = guard.body
        if len(body) == 1 and isinstance(body[0], ast.If) and body[0].orelse:      # `if <adjacency only>: ... else: <both>`
            inner = _bool_expr(body[0].test, set(roles), "Nat", roles)
            body = body[0].orelse
        rs = _resets(body, container)
        if rs != {"_elem", "_adj"}:
            raise T.TranslateError(f"{fname}: the regenerating branch does not reset both _elem and _adj (found {sorted(rs)})")
        if not any(isinstance(x, ast.For) for x in body):
            raise T.TranslateError(f"{fname}: no regeneration loop after the resets")
        out[container] = (expr, inner)
    fn = T.find_def(tree, "RawMeshData._generate_cell_faces")
    top = _body(fn)
    if _resets(top, "cell_faces") == {"_elem", "_adj"}:
        out["cell_faces_always"] = True
    else:
        raise T.TranslateError("_generate_cell_faces: `self.cell_faces._elem = []` / `_adj = []` are not unconditional first-level statements")
    return out


# ------------------------------------------------------------------------------------------------------------
def dimension_table(tree):
    fn = T.find_def(tree, "RawMeshData._compute_dimensionality")
    body = _body(fn)
    if len(body) != 1 or not isinstance(body[0], ast.If):
        raise T.TranslateError("_compute_dimensionality is not a single if/elif chain")
    rows, node, default = [], body[0], None

    def assigned(stmts):
        if len(stmts) == 1 and isinstance(stmts[0], ast.Assign) and _is_attr(stmts[0].targets[0], "self", "_dimensionality") \
                and isinstance(stmts[0].value, ast.Constant) and isinstance(stmts[0].value.value, int):
            return stmts[0].value.value
        raise T.TranslateError("branch does not assign a constant to self._dimensionality")
    while True:
        t = node.test
        if not (isinstance(t, ast.UnaryOp) and isinstance(t.op, ast.Not) and isinstance(t.operand, ast.Call)
                and isinstance(t.operand.func, ast.Attribute) and t.operand.func.attr == "empty"
                and isinstance(t.operand.func.value, ast.Attribute) and isinstance(t.operand.func.value.value, ast.Name)
                and t.operand.func.value.value.id == "self"):
            raise T.TranslateError("test is not `not self.<container>.empty()`")
        rows.append((t.operand.func.value.attr, assigned(node.body)))
        if len(node.orelse) == 1 and isinstance(node.orelse[0], ast.If):
            node = node.orelse[0]; continue
        default = assigned(node.orelse); break
    return rows, default


def instanciate_program(tree):
    fn = T.find_def(tree, "_instanciate_raw_mesh_data")
    data, dimv = [a.arg for a in fn.args.args][:2]
    steps, table = [], []
    for st in _body(fn):
        if isinstance(st, ast.Expr) and isinstance(st.value, ast.Call) and isinstance(st.value.func, ast.Attribute) \
                and st.value.func.attr == "prepare" and isinstance(st.value.func.value, ast.Name) and st.value.func.value.id == data:
            steps.append("InstStep.prepare"); continue
        if isinstance(st, ast.If) and isinstance(st.test, ast.Compare) and isinstance(st.test.ops[0], ast.Is) \
                and isinstance(st.test.left, ast.Name) and st.test.left.id == dimv and len(st.body) == 1 \
                and isinstance(st.body[0], ast.Assign) and st.body[0].targets[0].id == dimv:
            steps.append(f"InstStep.defaultDim ({T.int_literal_table(st.body[0].value)})"); continue
        if isinstance(st, ast.Assign) and isinstance(st.targets[0], ast.Name) and st.targets[0].id == dimv:
            v = st.value
            if isinstance(v, ast.Call) and isinstance(v.func, ast.Name) and v.func.id in ("max", "min") and len(v.args) == 2:
                kinds = []
                for a in v.args:
                    if isinstance(a, ast.Name) and a.id == dimv: kinds.append("dim")
                    elif _is_attr(a, data, "dimensionality"): kinds.append("dimensionality")
                    else: raise T.TranslateError("argument of max/min is neither dim nor <data>.dimensionality")
                if sorted(kinds) != ["dim", "dimensionality"]:
                    raise T.TranslateError("max/min does not combine dim with <data>.dimensionality")
                steps.append("InstStep.combineMax" if v.func.id == "max" else "InstStep.combineMin"); continue
            if _is_attr(v, data, "dimensionality"):
                steps.append("InstStep.setToDimensionality"); continue
            raise T.TranslateError(f"unrecognised assignment to {dimv}")
        if isinstance(st, ast.If) and isinstance(st.test, ast.Compare) and isinstance(st.test.ops[0], ast.Eq) \
                and isinstance(st.test.left, ast.Name) and st.test.left.id == dimv and len(st.body) == 1 \
                and isinstance(st.body[0], ast.Return) and isinstance(st.body[0].value, ast.Call) \
                and isinstance(st.body[0].value.func, ast.Name) and len(st.body[0].value.args) == 1 \
                and isinstance(st.body[0].value.args[0], ast.Name) and st.body[0].value.args[0].id == data:
            if not steps or steps[-1] != "InstStep.dispatch": steps.append("InstStep.dispatch")
            table.append((T.int_literal_table(st.test.comparators[0]), st.body[0].value.func.id)); continue
        raise T.TranslateError(f"unrecognised statement in _instanciate_raw_mesh_data: {ast.dump(st)[:100]}")
    return steps, table


def mesh_init_table(tree):
    fn = T.find_def(tree, "Mesh.__init__")
    params = [a.arg for a in fn.args.args]
    dimv, data = params[1], params[2]
    prepares, rows = False, []
    for st in _body(fn):
        if isinstance(st, ast.If) and isinstance(st.test, ast.Compare) and isinstance(st.test.ops[0], ast.Is):
            for n in ast.walk(st):
                if isinstance(n, ast.Call) and isinstance(n.func, ast.Attribute) and n.func.attr == "prepare" \
                        and isinstance(n.func.value, ast.Name) and n.func.value.id == data and n in [s.value for s in st.orelse if isinstance(s, ast.Expr)]:
                    prepares = True
            continue
        if isinstance(st, ast.Assign) and _is_attr(st.targets[0], "self", "vertices"):
            continue
        if isinstance(st, ast.If) and isinstance(st.test, ast.Compare) and isinstance(st.test.ops[0], ast.Lt) \
                and isinstance(st.test.comparators[0], ast.Name) and st.test.comparators[0].id == dimv and len(st.test.ops) == 1:
            # `k < dim` (the normalised spelling of `dim > k`)
            st = ast.If(ast.Compare(st.test.comparators[0], [ast.Gt()], [st.test.left]), st.body, st.orelse)
        if isinstance(st, ast.If) and isinstance(st.test, ast.Compare) and isinstance(st.test.ops[0], ast.Gt) \
                and isinstance(st.test.left, ast.Name) and st.test.left.id == dimv:
            names = []
            for s in st.body:
                if not (isinstance(s, ast.Assign) and isinstance(s.targets[0], ast.Attribute) and _is_attr(s.value, data, s.targets[0].attr)):
                    raise T.TranslateError("threshold block does not share `self.x = data.x`")
                names.append(s.targets[0].attr)
            rows.append((T.int_literal_table(st.test.comparators[0]), names)); continue
        raise T.TranslateError(f"unrecognised statement in Mesh.__init__: {ast.dump(st)[:100]}")
    if not prepares:
        raise T.TranslateError("Mesh.__init__ does not call data.prepare() when data is given")
    return rows


# ------------------------------------------------------------------------------------------------------------
def _lstr(s):
    return '"' + s + '"'


def translate_structure():
    """Runs every structure site, writes Generated/C02Structure.lean; returns the evidence records."""
    sites, out = [], {}

    def run(name, fn):
        rec = T.site(name, fn)
        sites.append(rec)
        return rec["ok"]
    # harmless respellings (`not a in b`, `a > b`, `x = x + 1`, `self.id_edges`, `len(X) == 0`) are normalised away first,
    # with the same normaliser as the translated bodies (vlib/gen/c02_translate.py)
    from ..gen.c02_translate import Norm

    def _load(rel):
        tree = Norm().visit(T.load(rel)[0])
        ast.fix_missing_locations(tree)
        return tree
    md = _load("mouette/mesh/mesh_data.py")
    dc = _load("mouette/mesh/data_container.py")
    mm = _load("mouette/mesh/mesh.py")
    bs = _load("mouette/mesh/datatypes/base.py")

    def s_prepare():
        g, steps = prepare_program(md); out["prepare"] = (g, steps)
        return {"guard_first": g, "steps": [f"{a}:{b}" for a, b in steps]}

    def s_valid():
        params, bound, expr = is_valid_predicate(md); out["valid"] = (params, bound, expr)
        return {"params": params, "bound": f"{bound} = len(self.vertices)", "expr": expr}

    def s_hard():
        out["hard"] = hard_edges_guard(md); return out["hard"]

    def s_skip():
        out["skip"] = completion_skip_guard(md); return {"skip_if": out["skip"]}

    def s_corner():
        out["corner"] = corner_appends(md, dc); return out["corner"]

    def s_guards():
        out["guards"] = corner_guards(md)
        return {"face_corners": out["guards"]["face_corners"][0], "cell_corners": list(out["guards"]["cell_corners"]),
                "cell_faces": "rebuilt unconditionally"}

    def s_dim():
        rows, d = dimension_table(md); out["dim"] = (rows, d)
        return {"chain": rows, "else": d}

    def s_inst():
        steps, table = instanciate_program(mm); out["inst"] = (steps, table)
        return {"steps": steps, "classes": table}

    def s_init():
        out["init"] = mesh_init_table(bs); return {"thresholds": out["init"]}
    run("mesh_data.py:prepare (ordered steps, config guards, _prepared guard first)", s_prepare)
    run("mesh_data.py:_prepare_edges.is_valid (validity predicate: operators and bounds)", s_valid)
    run("mesh_data.py:_complete_edges_from_faces (hard_edges guard, flags before completion)", s_hard)
    run("mesh_data.py:_complete_edges_from_faces (degenerate sides are skipped before they are stored)", s_skip)
    run("mesh_data.py/_data_container.py: corner append argument order and routing", s_corner)
    run("mesh_data.py:_generate_face_corners/_generate_cell_corners/_generate_cell_faces (regeneration criteria, resets)", s_guards)
    run("mesh_data.py:_compute_dimensionality (if/elif chain)", s_dim)
    run("mesh.py:_instanciate_raw_mesh_data (prepare before dimensionality, max, class per value)", s_inst)
    run("datatypes/base.py:Mesh.__init__ (dim thresholds, shared containers)", s_init)

    g, steps = out.get("prepare", (False, []))
    params, bound, expr = out.get("valid", (["a", "b"], "N", "false"))
    hard = out.get("hard", {"guard": "always", "name": "", "flags_before": False, "empty_first": False})
    corner = out.get("corner", {"face": [], "cell": [], "routing": [], "cellFaceElem": "cellIndex", "cellFaceAdj": "faceId"})
    guards = out.get("guards", {"face_corners": ("false", None), "cell_corners": ("false", "false"), "cell_faces_always": False})
    dim_rows, dim_default = out.get("dim", ([], 0))
    inst_steps, inst_table = out.get("inst", ([], []))
    init_rows = out.get("init", [])
    b = "import Mouette.Lemmas.C02Steps\nset_option linter.unusedVariables false\nnamespace Mouette.Generated.C02S\nopen Mouette.Prepare\n\n"
    b += "/-- RawMeshData.prepare: is `if self._prepared: return` the first statement; the guarded steps in source order -/\n"
    b += "def prepareProgram : PrepareProgram :=\n  { guardFirst := %s,\n    steps := [%s] }\n\n" % (
        "true" if g else "false", ", ".join(f"(Guard.{a}, Step.{s})" for a, s in steps))
    b += "/-- `is_valid(%s)` of _prepare_edges with `%s = len(self.vertices)`, verbatim -/\n" % (", ".join(params), bound)
    b += "def isValid (%s %s : Int) : Bool := %s\n\n" % (" ".join(params), bound, expr)
    b += "/-- _complete_edges_from_faces: guard of the hard_edges creation, its name, flags set before the completion loop,\n`if self.faces.empty(): return` first -/\n"
    b += "def hardGuard : HardGuard := HardGuard.%s\ndef hardAttrName : String := %s\n" % (hard["guard"], _lstr(hard["name"]))
    b += "def hardFlagsBeforeCompletion : Bool := %s\ndef emptyFacesReturnFirst : Bool := %s\n\n" % (
        str(bool(hard["flags_before"])).lower(), str(bool(hard["empty_first"])).lower())
    b += "/-- the side `(a, b) = keyify(...)` of a face is skipped by the completion when (verbatim, `N = len(self.vertices)`) -/\n"
    b += "def completionSkips (a b N : Int) : Bool := %s\n\n" % out.get("skip", "false")
    b += "/-- argument roles of `face_corners.append(·,·)` / `cell_corners.append(·,·)`, routing of the parameters of\n`CornerDataContainer.append` to `_elem` / `_adj`, what the two direct appends of `_generate_cell_faces` receive -/\n"
    b += "def faceCornerArgs : List CornerArg := [%s]\n" % ", ".join("CornerArg." + r for r in corner["face"])
    b += "def cellCornerArgs : List CornerArg := [%s]\n" % ", ".join("CornerArg." + r for r in corner["cell"])
    b += "def cornerAppendSlots : List Slot := [%s]\n" % ", ".join("Slot." + r for r in corner["routing"])
    b += "def cellFaceElemArg : CellFaceArg := CellFaceArg.%s\ndef cellFaceAdjArg : CellFaceArg := CellFaceArg.%s\n\n" % (
        corner["cellFaceElem"], corner["cellFaceAdj"])
    b += "/-- when corner records are regenerated (counts: stored elements, stored owners, vertices of all faces / cells);\nthe inner test of _generate_cell_corners (`build only adjacency`); cell-face records are rebuilt unconditionally -/\n"
    b += "def faceCornerGuard (nelem nadj total : Nat) : Bool := %s\n" % guards["face_corners"][0]
    b += "def cellCornerGuard (nelem nadj total : Nat) : Bool := %s\n" % guards["cell_corners"][0]
    b += "def cellCornerAdjOnlyGuard (nelem nadj total : Nat) : Bool := %s\n" % (guards["cell_corners"][1] or "false")
    b += "def cellFacesAlwaysRebuilt : Bool := %s\n\n" % str(bool(guards["cell_faces_always"])).lower()
    b += "/-- _compute_dimensionality: (container tested non-empty, value), in order; the else value -/\n"
    b += "def dimChain : List (String × Nat) := [%s]\ndef dimDefault : Nat := %d\n\n" % (
        ", ".join(f"({_lstr(c)}, {v})" for c, v in dim_rows), dim_default)
    b += "/-- _instanciate_raw_mesh_data: statements in source order; the class returned per value -/\n"
    b += "def instProgram : List InstStep := [%s]\n" % ", ".join(inst_steps)
    b += "def classTable : List (Int × String) := [%s]\n\n" % ", ".join(f"({k}, {_lstr(c)})" for k, c in inst_table)
    b += "/-- Mesh.__init__: `if dim > k:` blocks and the containers shared from the data in each -/\n"
    b += "def meshInitTable : List (Nat × List String) := [%s]\n\n" % ", ".join(
        "(%d, [%s])" % (k, ", ".join(_lstr(n) for n in names)) for k, names in init_rows)
    b += "end Mouette.Generated.C02S\n"
    T.write_generated("C02Structure", b)
    return sites
