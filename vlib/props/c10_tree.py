"""Round 4 — imperative translation of mouette/processing/trees/{base,edge_sp,face_sp,cell_sp}.py beyond the BFS loop body
that c10_translate.py already reads; re-extracted with `ast` on every run into lean/Mouette/Generated/C10Tree.lean:

  base.py   SpanningTree.traverse (+ its inner pop()): the order flag, which end of the deque each order pops, the initial
            `(root, None)`, the loop condition, the order of the yielded pair, what is appended per child
            SpanningForest.edges / traverse / n_trees / __getitem__: accumulation over self.trees in order
  *_sp.py   put_neighbours_in_queue of Edge/Face/CellSpanningTree.compute (three different shapes: which connectivity query is
            iterated, every guard — seen flag, exclusion test, `is not None` —, what is appended), the initial tables and the
            three statements before the loop (in source order), the final loop that fills children / edges (isinf guard,
            `p is not None`, which table gets which append, keyify)
  edge_sp   EdgeMinimalSpanningTree.compute: weight-mode dispatch, admissible-edge filter, the sort (key, direction), the
            Kruskal loop (connected / union / append / the two neighbour-set insertions), the orientation BFS from the root
  forests   *SpanningForest.compute: the visited flags, the loop over all ids, the constructor call (which root, whether the
            exclusion set is handed on), the marking of every traversed node

Bridges: Props/C10Source.lean (`Generated.… = Model.…`). Normalised away: renamed locals / loop variables, `a > b` vs
`b < a`, `len(q) > 0` / `len(q)` / `q` as loop condition, `if c: continue` vs nesting the rest under `if not c`, `x is not None`
/ `not x is None`, docstrings, comments, annotations. Anything else raises TranslateError (broken obligation).
"""
import ast
import copy

from .. import translate as T
from ..translate import TranslateError
from .c09_glue import _name, _const, _call, _mcall, _strip

BASE = "mouette/processing/trees/base.py"
EDGE = "mouette/processing/trees/edge_sp.py"
FACE = "mouette/processing/trees/face_sp.py"
CELL = "mouette/processing/trees/cell_sp.py"


def _self(n, attr=None):
    return isinstance(n, ast.Attribute) and _name(n.value, "self") and (attr is None or n.attr == attr)


def _unnest_continue(stmts):
    """`if c: continue ; rest`  ->  `if not c: rest`   (recursively)"""
    out = []
    stmts = _strip(stmts)
    for i, s in enumerate(stmts):
        if isinstance(s, ast.If) and not s.orelse and len(_strip(s.body)) == 1 and isinstance(_strip(s.body)[0], ast.Continue):
            rest = _unnest_continue(stmts[i + 1:])
            out.append(ast.If(ast.UnaryOp(ast.Not(), s.test), rest or [ast.Pass()], []))
            return out
        if isinstance(s, ast.If):
            s = ast.If(s.test, _unnest_continue(s.body), _unnest_continue(s.orelse))
        out.append(s)
    return out


def _queue_nonempty(t, q="queue"):
    if _name(t, q): return True
    if _call(t, "len", 1) and _name(t.args[0], q): return True
    if isinstance(t, ast.Compare) and len(t.ops) == 1 and _const(t.comparators[0], 0) and _call(t.left, "len", 1) and _name(t.left.args[0], q) and \
            isinstance(t.ops[0], (ast.Gt, ast.NotEq)): return True
    if isinstance(t, ast.Compare) and len(t.ops) == 1 and _const(t.left, 0) and _call(t.comparators[0], "len", 1) and \
            _name(t.comparators[0].args[0], q) and isinstance(t.ops[0], (ast.Lt, ast.NotEq)): return True
    return False


# ------------------------------------------------------------------------------------------------
# (1) SpanningTree.traverse
# ------------------------------------------------------------------------------------------------
def _traverse(tree):
    W = "SpanningTree.traverse"
    f = T.find_def(tree, W)
    body = _strip(f.body)
    # skip the two argument checks (raise)
    body = [s for s in body if not (isinstance(s, ast.If) and len(_strip(s.body)) == 1 and isinstance(_strip(s.body)[0], ast.Raise))]
    flag = None
    popdef = None
    init = None
    loop = None
    for s in body:
        if isinstance(s, ast.Assign) and _name(s.targets[0]) and isinstance(s.value, ast.Compare) and len(s.value.ops) == 1 and \
                isinstance(s.value.ops[0], ast.Eq):
            a, b = s.value.left, s.value.comparators[0]
            if _name(b, "order"): a, b = b, a
            if _name(a, "order") and isinstance(b, ast.Constant) and b.value in ("BFS", "DFS"):
                flag = (s.targets[0].id, b.value); continue
        if isinstance(s, ast.Assign) and _name(s.targets[0]) and _call(s.value, "deque", 0): qn = s.targets[0].id; continue
        if isinstance(s, ast.FunctionDef): popdef = s; continue
        if isinstance(s, ast.Expr) and _name(_mcall(s.value, "append", 1)): init = s.value.args[0]; continue
        if isinstance(s, ast.While): loop = s; continue
        raise TranslateError(f"{W}: statement not recognised: {ast.unparse(s)[:80]}")
    if not (flag and popdef and init is not None and loop): raise TranslateError(f"{W}: order flag / pop() / initial append / while loop not all found")
    fname, fval = flag
    # pop(): if flag: return queue.A() ; return queue.B()
    pb = _strip(popdef.body)
    ok = len(pb) == 2 and isinstance(pb[0], ast.If) and _name(pb[0].test, fname) and len(_strip(pb[0].body)) == 1 and \
        isinstance(_strip(pb[0].body)[0], ast.Return) and isinstance(pb[1], ast.Return) and not pb[0].orelse
    if not ok and len(pb) == 1 and isinstance(pb[0], ast.If) and _name(pb[0].test, fname) and len(_strip(pb[0].orelse)) == 1:
        pb = [ast.If(pb[0].test, pb[0].body, []), _strip(pb[0].orelse)[0]]; ok = isinstance(pb[1], ast.Return)
    if not ok: raise TranslateError(f"{W}: inner pop() is not `if {fname}: return queue.popleft()` / `return queue.pop()`")

    def end(r):
        v = r.value
        for m in ("popleft", "pop"):
            if _name(_mcall(v, m, 0), qn): return m
        raise TranslateError(f"{W}: pop() returns something else than queue.popleft() / queue.pop(): {ast.unparse(v)[:50]}")
    when_flag, otherwise = end(_strip(pb[0].body)[0]), end(pb[1])
    bfs_end, dfs_end = (when_flag, otherwise) if fval == "BFS" else (otherwise, when_flag)
    lean_pop = {"popleft": "(match q with | [] => none | x :: r => some (x, r))",
                "pop": "(match q.getLast? with | none => none | some x => some (x, q.dropLast))"}
    # initial append (self.root, None)
    if not (isinstance(init, ast.Tuple) and len(init.elts) == 2 and _self(init.elts[0], "root") and isinstance(init.elts[1], ast.Constant) and init.elts[1].value is None):
        raise TranslateError(f"{W}: traversal does not start with (self.root, None)")
    if not _queue_nonempty(loop.test, qn): raise TranslateError(f"{W}: loop condition is not `len(queue) > 0`")
    lb = _strip(loop.body)
    ok = len(lb) == 3 and isinstance(lb[0], ast.Assign) and isinstance(lb[0].targets[0], ast.Tuple) and len(lb[0].targets[0].elts) == 2 and \
        _call(lb[0].value, "pop", 0) and isinstance(lb[1], ast.Expr) and isinstance(lb[1].value, ast.Yield) and isinstance(lb[2], ast.For)
    if not ok: raise TranslateError(f"{W}: loop body is not `node, parent = pop(); yield …; for child in self.children[node]: …`")
    a, b = (e.id for e in lb[0].targets[0].elts)
    y = lb[1].value.value
    if not (isinstance(y, ast.Tuple) and len(y.elts) == 2 and all(_name(e) for e in y.elts)): raise TranslateError(f"{W}: yield is not a pair of names")
    ren = {a: "node", b: "parent"}
    ytxt = ", ".join(ren.get(e.id, "?") for e in y.elts)
    fo = lb[2]
    ok = _name(fo.target) and isinstance(fo.iter, ast.Subscript) and _self(fo.iter.value, "children") and _name(fo.iter.slice, a)
    if not ok: raise TranslateError(f"{W}: children loop is not `for child in self.children[node]`")
    fb = _strip(fo.body)
    ap = fb[0].value.args[0] if (len(fb) == 1 and isinstance(fb[0], ast.Expr) and _name(_mcall(fb[0].value, "append", 1), qn)) else None
    if not (isinstance(ap, ast.Tuple) and len(ap.elts) == 2 and all(_name(e) for e in ap.elts)): raise TranslateError(f"{W}: children loop does not append a pair")
    ren2 = {fo.target.id: "child", a: "node"}
    c0, c1 = (ren2.get(e.id) for e in ap.elts)
    if c0 is None or c1 is None: raise TranslateError(f"{W}: appended pair uses unexpected names")
    return ["/-! ### SpanningTree.traverse (base.py); the deque is a list with its LEFT end at the head -/", "",
            "/-- the inner `pop()` -/",
            "def popSrc (isBFS : Bool) (q : List (Nat × Option Nat)) : Option ((Nat × Option Nat) × List (Nat × Option Nat)) :=",
            f"  if isBFS then {lean_pop[bfs_end]}", f"  else {lean_pop[dfs_end]}", "",
            "def travSrc (isBFS : Bool) (children : Nat → List Nat) :",
            "    Nat → List (Nat × Option Nat) → List (Nat × Option Nat) → List (Nat × Option Nat) × List (Nat × Option Nat)",
            "  | 0, q, O => (O, q)", "  | f+1, q, O =>", "    match popSrc isBFS q with", "    | none => (O, q)",
            "    | some ((node, parent), q) =>", f"      let O := O ++ [({ytxt})]",
            f"      let q := (children node).foldl (fun q child => q ++ [({c0}, some {c1})]) q", "      travSrc isBFS children f q O", "",
            "def traverseSrc (isBFS : Bool) (n : Nat) (t : Tree) : List (Nat × Option Nat) × List (Nat × Option Nat) :=",
            "  travSrc isBFS t.children (n + 1) ([] ++ [(t.root, none)]) []", ""]


# ------------------------------------------------------------------------------------------------
# (2) put_neighbours_in_queue, initialisation, final loop of the three BFS trees
# ------------------------------------------------------------------------------------------------
KIND = {"edge": dict(cls="EdgeSpanningTree", file=EDGE, iter="vertex_to_vertices", raw=False),
        "face": dict(cls="FaceSpanningTree", file=FACE, iter="face_to_edges", raw=True, other="opposite_face", excl="forbidden_edges"),
        "cell": dict(cls="CellSpanningTree", file=CELL, iter="cell_to_face", raw=True, other="other_face_side", excl="forbidden_faces")}


def _put(tag, comp):
    K = KIND[tag]
    W = f"{K['cls']}.compute.put_neighbours_in_queue"
    defs = [s for s in comp.body if isinstance(s, ast.FunctionDef)]
    if len(defs) != 1 or len(defs[0].args.args) != 1: raise TranslateError(f"{W}: expected one nested one-parameter function in compute()")
    d = defs[0]
    x = d.args.args[0].arg
    b = _strip(d.body)
    if not (len(b) == 1 and isinstance(b[0], ast.For) and _name(b[0].target) and not b[0].orelse): raise TranslateError(f"{W}: body is not a single for loop")
    fo = b[0]
    it = fo.iter
    if not (isinstance(it, ast.Call) and isinstance(it.func, ast.Attribute) and it.func.attr == K["iter"] and len(it.args) == 1 and _name(it.args[0], x)):
        raise TranslateError(f"{W}: loop does not iterate connectivity.{K['iter']}({x})")
    lv = fo.target.id
    # environment: python name -> lean term
    env = {x: "x"}
    if K["raw"]: env[lv] = "c.1"            # the connector id (edge / face)
    else: env[lv] = "e.1"                    # the neighbouring vertex
    other = {}                               # name -> True for `nf = opposite_face(...)`

    def cond(n):
        if isinstance(n, ast.BoolOp):
            op = " && " if isinstance(n.op, ast.And) else " || "
            return "(" + op.join(cond(v) for v in n.values) + ")"
        if isinstance(n, ast.UnaryOp) and isinstance(n.op, ast.Not):
            c = n.operand
            flip = {ast.Is: ast.IsNot, ast.IsNot: ast.Is, ast.In: ast.NotIn, ast.NotIn: ast.In}
            if isinstance(c, ast.Compare) and len(c.ops) == 1 and type(c.ops[0]) in flip:        # not (x is None)  ==  x is not None
                return cond(ast.Compare(c.left, [flip[type(c.ops[0])]()], c.comparators))
            return f"(!{cond(c)})"
        if isinstance(n, ast.Subscript) and _name(n.value, "seen") and _name(n.slice) and n.slice.id in env:
            return f"(seen {env[n.slice.id]})"
        if isinstance(n, ast.Compare) and len(n.ops) == 1:
            l, r, op = n.left, n.comparators[0], n.ops[0]
            if isinstance(op, (ast.IsNot, ast.Is)) and _name(l) and l.id in other and isinstance(r, ast.Constant) and r.value is None:
                return "c.2.isSome" if isinstance(op, ast.IsNot) else "c.2.isNone"
            if isinstance(op, (ast.In, ast.NotIn)) and K["raw"] and _name(l, lv) and _self(r, K["excl"]):
                return "(g.excl c.1)" if isinstance(op, ast.In) else "(!(g.excl c.1))"
        if not K["raw"] and isinstance(n, ast.Call) and _self(n.func, "_avoid_edge") and len(n.args) == 2 and \
                sorted(a.id for a in n.args if _name(a)) == sorted([x, lv]):
            return "(g.excl e.2)"            # edge id of {v, nv} = the connector of this adjacency (Props: bridge_avoid_edge)
        raise TranslateError(f"{W}: condition not recognised: {ast.unparse(n)[:80]}")

    def block(stmts, ind):
        pad = " " * ind
        stmts = _unnest_continue(stmts)
        out = []
        for i, s in enumerate(stmts):
            if isinstance(s, ast.Pass): continue
            if isinstance(s, ast.Assign) and K["raw"]:
                t, v = s.targets[0], s.value
                # a, b = self.mesh.edges[e]
                if isinstance(t, ast.Tuple) and isinstance(v, ast.Subscript) and ast.unparse(v.value) == "self.mesh.edges" and _name(v.slice, lv):
                    for e_ in t.elts: env[e_.id] = "<endpoint>"
                    continue
                # nf = opposite_face(a, b, f) / c2 = other_face_side(c, F)
                if _name(t) and isinstance(v, ast.Call) and isinstance(v.func, ast.Attribute) and v.func.attr == K["other"]:
                    names = [a.id for a in v.args if _name(a)]
                    if x not in names or not all(n_ in env for n_ in names) or len(names) != len(v.args):
                        raise TranslateError(f"{W}: {K['other']} is not called with the current element and connector: {ast.unparse(v)[:60]}")
                    if tag == "cell" and lv not in names: raise TranslateError(f"{W}: other_face_side is not called with the face of the loop")
                    if tag == "face" and not all(env.get(n_) in ("<endpoint>", "x") for n_ in names):
                        raise TranslateError(f"{W}: opposite_face is not called with the end points of the edge of the loop")
                    other[t.id] = True; env[t.id] = "(c.2.getD 0)"
                    continue
            if isinstance(s, ast.If) and not s.orelse:
                sub = block(s.body, ind + 2)
                out.append(f"{pad}if {cond(s.test)} then")
                out += sub
                out.append(f"{pad}else queue")
                if i != len(stmts) - 1: raise TranslateError(f"{W}: statements after a guarded block")
                return out
            if isinstance(s, ast.Expr) and _name(_mcall(s.value, "append", 1), "queue"):
                a = s.value.args[0]
                if isinstance(a, ast.Tuple) and len(a.elts) == 2 and all(_name(e_) and e_.id in env for e_ in a.elts):
                    out.append(f"{pad}queue ++ [({env[a.elts[0].id]}, {env[a.elts[1].id]})]")
                    if i != len(stmts) - 1: raise TranslateError(f"{W}: statements after the append")
                    return out
            raise TranslateError(f"{W}: statement not recognised: {ast.unparse(s)[:80]}")
        raise TranslateError(f"{W}: a branch does not end with queue.append(…)")
    inner = block(fo.body, 4)
    if K["raw"]:
        head = [f"def put_{tag} (g : RawCfg) (seen : Nat → Bool) (x : Nat) (queue : List (Nat × Nat)) : List (Nat × Nat) :=",
                "  (g.conn x).foldl (fun queue c =>"]
    else:
        head = [f"def put_{tag} (g : Cfg) (seen : Nat → Bool) (x : Nat) (queue : List (Nat × Nat)) : List (Nat × Nat) :=",
                "  (g.adj x).foldl (fun queue e =>"]
    return head + inner + ["    ) queue", ""], d.name


def _init_and_finish(tag, comp, putname):
    K = KIND[tag]
    W = f"{K['cls']}.compute"
    body = _strip(comp.body)
    iw = [i for i, s in enumerate(body) if isinstance(s, ast.While)]
    idf = [i for i, s in enumerate(body) if isinstance(s, ast.FunctionDef)]
    if len(iw) != 1 or len(idf) != 1 or idf[0] > iw[0]: raise TranslateError(f"{W}: expected nested def, then one while loop")
    # ---- tables initialised before the nested def
    tables = {}
    for s in body[:idf[0]]:
        if not (isinstance(s, ast.Assign) and len(s.targets) == 1): raise TranslateError(f"{W}: unexpected statement before put_neighbours_in_queue: {ast.unparse(s)[:60]}")
        t, v = s.targets[0], s.value
        name = ("self." + t.attr) if _self(t) else t.id if _name(t) else None
        if name is None: raise TranslateError(f"{W}: unexpected assignment target {ast.unparse(t)[:40]}")
        if isinstance(v, ast.List) and not v.elts: tables[name] = "[]"
        elif _call(v, "deque", 0): tables[name] = "deque"
        elif isinstance(v, ast.BinOp) and isinstance(v.op, ast.Mult) and isinstance(v.left, ast.List) and len(v.left.elts) == 1 and isinstance(v.left.elts[0], ast.Constant):
            tables[name] = repr(v.left.elts[0].value)
        elif isinstance(v, ast.ListComp) and len(v.generators) == 1 and not v.generators[0].ifs:
            e = v.elt
            if isinstance(e, ast.List) and not e.elts: tables[name] = "[]each"
            elif isinstance(e, ast.Constant): tables[name] = repr(e.value)
            elif _call(e, "float", 1) and isinstance(e.args[0], ast.Constant) and e.args[0].value == "inf": tables[name] = "inf"
            else: raise TranslateError(f"{W}: table {name} initialised with {ast.unparse(e)[:40]}")
        else: raise TranslateError(f"{W}: initialisation of {name} not recognised: {ast.unparse(v)[:60]}")
    want = {"self.parent": "None", "self.children": "[]each", "self.edges": "[]", "dist_to_root": "inf", "seen": "False", "queue": "deque"}
    if tables != want: raise TranslateError(f"{W}: initial tables are {tables}, expected {want}")
    # ---- statements between the nested def and the loop
    lines = [f"def binit_{tag} (g : {'RawCfg' if K['raw'] else 'Cfg'}) (root : Nat) : BState :=",
             "  let s : BState := { seen := fun _ => false, parent := fun _ => none, dist := fun _ => none, queue := [] }"]
    kinds = []
    for s in body[idf[0] + 1:iw[0]]:
        if isinstance(s, ast.Expr) and _call(s.value, putname, 1) and _self(s.value.args[0], "root"):
            lines.append(f"  let s := {{ s with queue := put_{tag} g s.seen root s.queue }}"); kinds.append("put"); continue
        if isinstance(s, ast.Assign) and isinstance(s.targets[0], ast.Subscript) and _self(s.targets[0].slice, "root"):
            t = s.targets[0]
            if _name(t.value, "dist_to_root") and _const(s.value, 0):
                lines.append("  let s := { s with dist := upd s.dist root (some 0) }"); kinds.append("dist"); continue
            if _name(t.value, "seen") and isinstance(s.value, ast.Constant) and s.value.value is True:
                lines.append("  let s := { s with seen := upd s.seen root true }"); kinds.append("seen"); continue
        raise TranslateError(f"{W}: statement before the loop not recognised: {ast.unparse(s)[:80]}")
    if sorted(kinds) != ["dist", "put", "seen"]: raise TranslateError(f"{W}: before the loop expected put(root), dist[root]=0, seen[root]=True; found {kinds}")
    lines += ["  s", ""]
    # ---- final loop
    tail = body[iw[0] + 1:]
    fors = [s for s in tail if isinstance(s, ast.For)]
    if len(fors) != 1: raise TranslateError(f"{W}: expected one final loop that fills children / edges")
    fo = fors[0]
    ids = {"edge": "id_vertices", "face": "id_faces", "cell": "id_cells"}[tag]
    if not (_name(fo.target) and ast.unparse(fo.iter) == f"self.mesh.{ids}"): raise TranslateError(f"{W}: final loop does not iterate self.mesh.{ids}")
    v = fo.target.id
    fb = _unnest_continue(fo.body)
    fin = [f"def finish_{tag} (n : Nat) (s : BState) : List (Nat × Nat) × List (Nat × Nat) :=", "  (List.range n).foldl (fun acc v =>"]

    def fblock(stmts, ind, env):
        pad = " " * ind
        out = []
        stmts = [s for s in stmts if not isinstance(s, ast.Pass)]
        for i, s in enumerate(stmts):
            last = i == len(stmts) - 1
            if isinstance(s, ast.Assign) and _name(s.targets[0]) and isinstance(s.value, ast.Subscript) and _self(s.value.value, "parent") and _name(s.value.slice, v):
                env[s.targets[0].id] = "popt"; continue
            if isinstance(s, ast.If) and not s.orelse and last:
                t = s.test
                if isinstance(t, ast.UnaryOp) and isinstance(t.op, ast.Not) and _call(t.operand, "isinf", 1) and \
                        isinstance(t.operand.args[0], ast.Subscript) and _name(t.operand.args[0].value, "dist_to_root") and _name(t.operand.args[0].slice, v):
                    return out + [f"{pad}if (s.dist v).isSome then"] + fblock(s.body, ind + 2, env) + [f"{pad}else acc"]
                if isinstance(t, ast.Compare) and isinstance(t.ops[0], ast.IsNot) and _name(t.left) and env.get(t.left.id) == "popt" and \
                        isinstance(t.comparators[0], ast.Constant) and t.comparators[0].value is None:
                    env2 = dict(env); env2[t.left.id] = "p"
                    return out + [f"{pad}match s.parent v with", f"{pad}| some p =>"] + fblock(s.body, ind + 2, env2) + [f"{pad}| none => acc"]
                raise TranslateError(f"{W}: guard in the final loop not recognised: {ast.unparse(t)[:60]}")
            if isinstance(s, ast.Expr) and isinstance(s.value, ast.Call):
                o = _mcall(s.value, "append", 1)
                a = s.value.args[0] if o is not None else None
                if isinstance(o, ast.Subscript) and _self(o.value, "children") and _name(o.slice) and env.get(o.slice.id) == "p" and _name(a, v):
                    out.append(f"{pad}let acc := (acc.1 ++ [(p, v)], acc.2)");
                elif o is not None and _self(o, "edges") and _call(a, "keyify", 2) and all(_name(z) for z in a.args):
                    nm = [("p" if env.get(z.id) == "p" else "v" if z.id == v else None) for z in a.args]
                    if None in nm: raise TranslateError(f"{W}: keyify arguments not recognised")
                    out.append(f"{pad}let acc := (acc.1, acc.2 ++ [keyify {nm[0]} {nm[1]}])")
                else: raise TranslateError(f"{W}: statement of the final loop not recognised: {ast.unparse(s)[:80]}")
                if last: out.append(f"{pad}acc")
                continue
            raise TranslateError(f"{W}: statement of the final loop not recognised: {ast.unparse(s)[:80]}")
        if not out: raise TranslateError(f"{W}: empty branch in the final loop")
        return out
    fin += fblock(fb, 4, {}) + ["    ) ([], [])", ""]
    return lines + fin


# ------------------------------------------------------------------------------------------------
# (3) EdgeMinimalSpanningTree.compute
# ------------------------------------------------------------------------------------------------
def _mst(tree):
    W = "EdgeMinimalSpanningTree.compute"
    f = T.find_def(tree, W)
    body = _strip(f.body)
    out = ["/-! ### EdgeMinimalSpanningTree.compute -/", ""]
    # -- weight modes
    chain = [s for s in body if isinstance(s, ast.If) and isinstance(s.test, ast.Compare) and _self(s.test.left, "weights")]
    if len(chain) != 1: raise TranslateError(f"{W}: weight-mode chain not found")
    modes, cur = {}, chain[0]
    while True:
        c = cur.test
        if not (isinstance(c, ast.Compare) and isinstance(c.ops[0], ast.Eq) and _self(c.left, "weights") and isinstance(c.comparators[0], ast.Constant)):
            raise TranslateError(f"{W}: weight-mode test not recognised")
        modes[c.comparators[0].value] = _strip(cur.body)
        if len(cur.orelse) == 1 and isinstance(cur.orelse[0], ast.If): cur = cur.orelse[0]; continue
        modes["custom"] = _strip(cur.orelse); break
    if set(modes) != {"one", "length", "custom"}: raise TranslateError(f"{W}: weight modes are {sorted(modes)}")
    wl = {}
    for m, b in modes.items():
        lam = [s for s in b if isinstance(s, ast.Assign) and _name(s.targets[0], "edge_length") and isinstance(s.value, ast.Lambda)]
        if len(lam) != 1 or len(lam[0].value.args.args) != 1: raise TranslateError(f"{W}: branch {m} does not define edge_length as a one-argument lambda")
        e = lam[0].value.args.args[0].arg
        ex = lam[0].value.body
        aux = {s.targets[0].id: s.value for s in b if isinstance(s, ast.Assign) and _name(s.targets[0]) and s is not lam[0]}
        if _const(ex) and ex.value == int(ex.value) and ex.value >= 0: wl[m] = f"({int(ex.value)} : Rat)"
        elif isinstance(ex, ast.Subscript) and _self(ex.value, "weights") and _name(ex.slice, e): wl[m] = "w e"
        elif isinstance(ex, ast.Subscript) and _name(ex.value) and ex.value.id in aux and _name(ex.slice, e) and \
                isinstance(aux[ex.value.id], ast.Call) and _name(aux[ex.value.id].func, "attr_edge_length"): wl[m] = "len e"
        else: raise TranslateError(f"{W}: edge_length of mode {m} not recognised: {ast.unparse(ex)[:60]}")
    out += ["def mstWeight (mode : WMode) (len : Nat → Rat) (w : Nat → Rat) (e : Nat) : Rat :=", "  match mode with",
            f"  | .one => {wl['one']}", f"  | .length => {wl['length']}", f"  | .custom => {wl['custom']}", ""]
    # -- admissible edges
    adm = [s for s in body if isinstance(s, ast.If) and s.orelse and any(isinstance(x, ast.Assign) and _name(x.targets[0], "edges") for x in s.body)]
    if len(adm) != 1: raise TranslateError(f"{W}: admissible-edge selection `if …: edges = … else: edges = …` not found")
    from .c10_translate import _cond

    def edge_list(stmts):
        s = _strip(stmts)
        if not (len(s) == 1 and isinstance(s[0], ast.Assign) and isinstance(s[0].value, ast.ListComp) and len(s[0].value.generators) == 1):
            raise TranslateError(f"{W}: edges = [...] not recognised")
        lc = s[0].value
        g = lc.generators[0]
        if ast.unparse(g.iter) == "self.mesh.id_edges" and not g.ifs and _name(lc.elt, g.target.id): return "List.range m"
        if _call(g.iter, "enumerate", 1) and ast.unparse(g.iter.args[0]) == "self.mesh.edges" and isinstance(g.target, ast.Tuple) and \
                _name(lc.elt, g.target.elts[0].id) and len(g.ifs) == 1:
            c = g.ifs[0]
            neg = isinstance(c, ast.UnaryOp) and isinstance(c.op, ast.Not)
            call = c.operand if neg else c
            if isinstance(call, ast.Call) and isinstance(call.func, ast.Attribute) and call.func.attr == "is_edge_on_border" and \
                    sorted(a.id for a in call.args if _name(a)) == sorted(x.id for x in g.target.elts[1].elts):
                return "(List.range m).filter (fun e => " + ("!(onBorder e)" if neg else "onBorder e") + ")"
        raise TranslateError(f"{W}: edge list not recognised: {ast.unparse(lc)[:80]}")
    out += ["/-- edge ids handed to Kruskal -/",
            "def admissible (avoidBound isPoly : Bool) (onBorder : Nat → Bool) (m : Nat) : List Nat :=",
            f"  if {_cond(adm[0].test)} then {edge_list(adm[0].body)} else {edge_list(adm[0].orelse)}", ""]
    # -- sort
    srt = [s for s in body if isinstance(s, ast.Expr) and _name(_mcall_kw(s.value, "sort"), "edges")]
    if len(srt) != 1: raise TranslateError(f"{W}: `edges.sort(key=…)` not found")
    kws = {k.arg: k.value for k in srt[0].value.keywords}
    if srt[0].value.args or set(kws) - {"key", "reverse"} or "key" not in kws: raise TranslateError(f"{W}: sort arguments not recognised")
    if "reverse" in kws and not (isinstance(kws["reverse"], ast.Constant) and kws["reverse"].value is False): raise TranslateError(f"{W}: the sort is reversed")
    k = kws["key"]
    ok = _name(k, "edge_length") or (isinstance(k, ast.Lambda) and len(k.args.args) == 1 and _call(k.body, "edge_length", 1) and _name(k.body.args[0], k.args.args[0].arg))
    if not ok: raise TranslateError(f"{W}: sort key is not the edge weight: {ast.unparse(k)[:60]}")
    out += ["/-- `edges.sort(key = edge_length)`: stable, ascending in the weight (third component) -/",
            "def sortEdges (es : List (Nat × Nat × Rat)) : List (Nat × Nat × Rat) := es.mergeSort (fun a b => decide (a.2.2 ≤ b.2.2))", ""]
    # -- Kruskal loop
    ufi = [s for s in body if isinstance(s, ast.Assign) and _name(s.targets[0]) and _call(s.value, "UnionFind", 1)]
    if len(ufi) != 1 or ast.unparse(ufi[0].value.args[0]) != "self.mesh.id_vertices": raise TranslateError(f"{W}: `uf = UnionFind(self.mesh.id_vertices)` not found")
    uf = ufi[0].targets[0].id
    kl = [s for s in body if isinstance(s, ast.For) and _name(s.iter, "edges")]
    if len(kl) != 1: raise TranslateError(f"{W}: `for e in edges` not found")
    fo = kl[0]
    lb = _unnest_continue(fo.body)
    ok = len(lb) == 2 and isinstance(lb[0], ast.Assign) and isinstance(lb[0].targets[0], ast.Tuple) and len(lb[0].targets[0].elts) == 2 and \
        isinstance(lb[0].value, ast.Subscript) and ast.unparse(lb[0].value.value) == "self.mesh.edges" and _name(lb[0].value.slice, fo.target.id) and \
        isinstance(lb[1], ast.If) and not lb[1].orelse
    if not ok: raise TranslateError(f"{W}: Kruskal loop is not `a, b = self.mesh.edges[e]; if not uf.connected(a, b): …`")
    a, b = (x.id for x in lb[0].targets[0].elts)
    ren = {a: "a", b: "b"}
    t = lb[1].test
    if not (isinstance(t, ast.UnaryOp) and isinstance(t.op, ast.Not) and _name(_mcall(t.operand, "connected", 2), uf) and
            [ren.get(z.id) for z in t.operand.args if _name(z)] in (["a", "b"], ["b", "a"])):
        raise TranslateError(f"{W}: Kruskal guard is not `not uf.connected(a, b)`")
    ca = " ".join(ren[z.id] for z in t.operand.args)
    ks = ["def kruskalStep (acc : UF.State × List (Nat × Nat) × List (Nat × Nat)) (e : Nat × Nat × Rat) :",
          "    UF.State × List (Nat × Nat) × List (Nat × Nat) :=", "  let a := e.1", "  let b := e.2.1",
          f"  match UF.connected acc.1 {ca} with", "  | none => acc", "  | some (uf, conn) =>", "    if !conn then",
          "      let edges := acc.2.1", "      let nb := acc.2.2"]
    seen = []
    for s in _strip(lb[1].body):
        if isinstance(s, ast.Expr) and _name(_mcall(s.value, "union", 2), uf) and [ren.get(z.id) for z in s.value.args if _name(z)] in (["a", "b"], ["b", "a"]):
            ks.append("      let uf := UF.union uf " + " ".join(ren[z.id] for z in s.value.args)); seen.append("union"); continue
        if isinstance(s, ast.Expr) and _self(_mcall(s.value, "append", 1), "edges") and _call(s.value.args[0], "keyify", 2) and \
                all(_name(z) and z.id in ren for z in s.value.args[0].args):
            ks.append("      let edges := edges ++ [keyify " + " ".join(ren[z.id] for z in s.value.args[0].args) + "]"); seen.append("append"); continue
        o = _mcall(s.value, "add", 1) if isinstance(s, ast.Expr) else None
        if isinstance(o, ast.Subscript) and _name(o.value, "neighbours") and _name(o.slice) and o.slice.id in ren and _name(s.value.args[0]) and s.value.args[0].id in ren:
            ks.append(f"      let nb := nb ++ [({ren[o.slice.id]}, {ren[s.value.args[0].id]})]"); seen.append("nb"); continue
        raise TranslateError(f"{W}: statement of the Kruskal loop not recognised: {ast.unparse(s)[:80]}")
    if sorted(seen) != ["append", "nb", "nb", "union"]: raise TranslateError(f"{W}: Kruskal body must be union, edges.append, two neighbour insertions (found {seen})")
    ks += ["      (uf, edges, nb)", "    else (uf, acc.2.1, acc.2.2)", ""]
    out += ks
    # the same loop body over the UnionFind class AS TRANSLATED from mouette/utils/unionfind.py by property C20
    # (Generated/C20UF.lean: `connected`, `union`; `none` = the exception of the method)
    ku = []
    for l in ks:
        l = l.replace("def kruskalStep (acc : UF.State ×", "def kruskalStepUF (acc : UFS.St ×").replace("    UF.State × List (Nat × Nat) × List (Nat × Nat) :=", "    UFS.St × List (Nat × Nat) × List (Nat × Nat) :=")
        l = l.replace("match UF.connected acc.1", "match C20.connected acc.1")
        if l.strip().startswith("let uf := UF.union uf"):
            args = l.strip()[len("let uf := UF.union uf "):]
            ku += [f"      match C20.union uf {args} with", "      | none => (uf, edges, nb)", "      | some (uf, _) =>"]
            continue
        ku.append(l)
    out += ["/-- `uf = UnionFind(self.mesh.id_vertices)` on the translated class -/",
            "def ufCtor (n : Nat) : UFS.St := C20.ctor C20.init (List.range n)", ""] + ku
    # -- orientation
    i0 = body.index(fo)
    rest = body[i0 + 1:]
    iw = [i for i, s in enumerate(rest) if isinstance(s, ast.While)]
    if len(iw) != 1: raise TranslateError(f"{W}: orientation loop not found")
    pre, w = rest[:iw[0]], rest[iw[0]]
    oi = ["def orientInit (nb : Nat → List Nat) (root : Nat) : OState :=",
          "  let s : OState := { parent := fun _ => none, children := fun _ => [], queue := [] }"]
    for s in pre:
        if isinstance(s, ast.Assign) and _name(s.targets[0]) and _call(s.value, "deque", 0): continue
        if isinstance(s, ast.Assign) and isinstance(s.targets[0], ast.Subscript) and _self(s.targets[0].slice, "root"):
            t_ = s.targets[0]
            if _self(t_.value, "parent") and isinstance(s.value, ast.Constant) and s.value.value is None:
                oi.append("  let s := { s with parent := upd s.parent root none }"); continue
            if _self(t_.value, "children") and _call(s.value, "list", 1) and ast.unparse(s.value.args[0]) == "neighbours[self.root]":
                oi.append("  let s := { s with children := upd s.children root (nb root) }"); continue
        if isinstance(s, ast.For) and ast.unparse(s.iter) == "neighbours[self.root]" and _name(s.target):
            fb = _strip(s.body)
            a_ = fb[0].value.args[0] if len(fb) == 1 and isinstance(fb[0], ast.Expr) and _name(_mcall(fb[0].value, "append", 1)) else None
            if isinstance(a_, ast.Tuple) and len(a_.elts) == 2 and _name(a_.elts[0], s.target.id) and _self(a_.elts[1], "root"):
                oi.append("  let s := { s with queue := (nb root).foldl (fun q v => q ++ [(v, root)]) s.queue }"); continue
        raise TranslateError(f"{W}: statement before the orientation loop not recognised: {ast.unparse(s)[:80]}")
    if len(oi) != 5: raise TranslateError(f"{W}: orientation must start with parent[root] = None, children[root] = list(neighbours[root]) and the queue of (v, root)")
    oi += ["  s", ""]
    if not _queue_nonempty(w.test): raise TranslateError(f"{W}: orientation loop condition is not `len(queue) > 0`")
    wb = _strip(w.body)
    ok = len(wb) == 4 and isinstance(wb[0], ast.Assign) and isinstance(wb[0].targets[0], ast.Tuple) and _name(_mcall(wb[0].value, "popleft", 0))
    if not ok: raise TranslateError(f"{W}: orientation loop does not begin with `v, prev = queue.popleft()`")
    v, prev = (x.id for x in wb[0].targets[0].elts)
    os_ = ["def orientStep (nb : Nat → List Nat) (s : OState) : Option OState :=", "  match s.queue with", "  | [] => none",
           "  | (v, prev) :: q' =>", "    let s := { s with queue := q' }"]
    s1, s2, s3 = wb[1:]
    ok1 = isinstance(s1, ast.Assign) and isinstance(s1.targets[0], ast.Subscript) and _self(s1.targets[0].value, "parent") and _name(s1.targets[0].slice, v) and _name(s1.value, prev)
    if not ok1: raise TranslateError(f"{W}: `self.parent[v] = prev` not found")
    os_.append("    let s := { s with parent := upd s.parent v (some prev) }")
    ok2 = isinstance(s2, ast.Assign) and isinstance(s2.targets[0], ast.Subscript) and _self(s2.targets[0].value, "children") and _name(s2.targets[0].slice, v) and \
        isinstance(s2.value, ast.ListComp) and len(s2.value.generators) == 1 and len(s2.value.generators[0].ifs) == 1
    if ok2:
        g = s2.value.generators[0]
        c = g.ifs[0]
        ok2 = _name(s2.value.elt, g.target.id) and ast.unparse(g.iter) == f"neighbours[{v}]" and isinstance(c, ast.Compare) and isinstance(c.ops[0], ast.NotEq) and \
            sorted([ast.unparse(c.left), ast.unparse(c.comparators[0])]) == sorted([g.target.id, prev])
    if not ok2: raise TranslateError(f"{W}: `self.children[v] = [x for x in neighbours[v] if x != prev]` not found")
    os_.append("    let s := { s with children := upd s.children v ((nb v).filter (fun x => x != prev)) }")
    ok3 = isinstance(s3, ast.For) and _name(s3.target) and isinstance(s3.iter, ast.Subscript) and _self(s3.iter.value, "children") and _name(s3.iter.slice, v)
    if ok3:
        fb = _strip(s3.body)
        a_ = fb[0].value.args[0] if len(fb) == 1 and isinstance(fb[0], ast.Expr) and _name(_mcall(fb[0].value, "append", 1)) else None
        ok3 = isinstance(a_, ast.Tuple) and len(a_.elts) == 2 and _name(a_.elts[0], s3.target.id) and _name(a_.elts[1], v)
    if not ok3: raise TranslateError(f"{W}: `for child in self.children[v]: queue.append((child, v))` not found")
    os_ += ["    let s := { s with queue := (s.children v).foldl (fun q child => q ++ [(child, v)]) s.queue }", "    some s", ""]
    return out + oi + os_


def _mcall_kw(n, attr):
    if isinstance(n, ast.Call) and isinstance(n.func, ast.Attribute) and n.func.attr == attr: return n.func.value
    return None


# ------------------------------------------------------------------------------------------------
# (4) forests
# ------------------------------------------------------------------------------------------------
FOREST = {"edge": ("EdgeSpanningForest", EDGE, "EdgeSpanningTree", "id_vertices", None),
          "face": ("FaceSpanningForest", FACE, "FaceSpanningTree", "id_faces", "forbidden_edges"),
          "cell": ("CellSpanningForest", CELL, "CellSpanningTree", "id_cells", None)}


def _forest(tag, tree):
    cls, _, tcls, ids, excl = FOREST[tag]
    W = f"{cls}.compute"
    f = T.find_def(tree, W)
    body = _strip(f.body)
    vis = [s for s in body if isinstance(s, ast.Assign) and _name(s.targets[0]) and isinstance(s.value, (ast.BinOp, ast.ListComp))]
    if len(vis) != 1: raise TranslateError(f"{W}: visited flags not found")
    vn = vis[0].targets[0].id
    v = vis[0].value
    okv = (isinstance(v, ast.BinOp) and isinstance(v.left, ast.List) and len(v.left.elts) == 1 and isinstance(v.left.elts[0], ast.Constant) and v.left.elts[0].value is False) or \
          (isinstance(v, ast.ListComp) and isinstance(v.elt, ast.Constant) and v.elt.value is False)
    if not okv: raise TranslateError(f"{W}: visited flags are not initialised to False")
    fors = [s for s in body if isinstance(s, ast.For)]
    if len(fors) != 1 or ast.unparse(fors[0].iter) != f"self.mesh.{ids}" or not _name(fors[0].target): raise TranslateError(f"{W}: loop over self.mesh.{ids} not found")
    fo = fors[0]
    x = fo.target.id
    fb = _unnest_continue(fo.body)
    ok = len(fb) == 1 and isinstance(fb[0], ast.If) and not fb[0].orelse and isinstance(fb[0].test, ast.UnaryOp) and isinstance(fb[0].test.op, ast.Not) and \
        isinstance(fb[0].test.operand, ast.Subscript) and _name(fb[0].test.operand.value, vn) and _name(fb[0].test.operand.slice, x)
    if not ok: raise TranslateError(f"{W}: guard `if not visited[{x}]` not found")
    lines = [f"def forestStep_{tag} (mk : Nat → Tree) (trav : String → Tree → List (Nat × Option Nat))",
             "    (acc : (Nat → Bool) × List Nat × List Tree) (v : Nat) : (Nat → Bool) × List Nat × List Tree :=",
             "  if !(acc.1 v) then", "    let visited := acc.1", "    let roots := acc.2.1", "    let trees := acc.2.2"]
    tv = None
    passes = None
    seen = []
    for s in _strip(fb[0].body):
        if isinstance(s, ast.Expr) and _self(_mcall(s.value, "append", 1), "roots") and _name(s.value.args[0], x):
            lines.append("    let roots := roots ++ [v]"); seen.append("roots"); continue
        if isinstance(s, ast.Assign) and _name(s.targets[0]) and isinstance(s.value, ast.Call) and isinstance(s.value.func, ast.Call) and _name(s.value.func.func, tcls) \
                and not s.value.args:
            c = s.value.func
            args = [ast.unparse(a) for a in c.args] + [f"{k.arg}={ast.unparse(k.value)}" for k in c.keywords]
            if len(args) < 2 or args[0] != "self.mesh" or args[1] not in (x, f"starting_{ {'edge':'vertex','face':'face','cell':'cell'}[tag] }={x}"):
                raise TranslateError(f"{W}: tree constructor is not called with (self.mesh, {x}, …): {args}")
            extra = args[2:]
            if excl is None:
                if extra: raise TranslateError(f"{W}: unexpected constructor arguments {extra}")
                passes = False
            else:
                if extra in ([f"self.{excl}"], [f"{excl}=self.{excl}"]): passes = True
                elif not extra: passes = False
                else: raise TranslateError(f"{W}: unexpected constructor arguments {extra}")
            tv = s.targets[0].id
            lines.append("    let tree_v := mk v"); seen.append("mk"); continue
        if isinstance(s, ast.Expr) and _self(_mcall(s.value, "append", 1), "trees") and tv and _name(s.value.args[0], tv):
            lines.append("    let trees := trees ++ [tree_v]"); seen.append("trees"); continue
        if isinstance(s, ast.For) and tv and isinstance(s.iter, ast.Call) and _name(_mcall_kw(s.iter, "traverse"), tv):
            order = "BFS"
            if s.iter.args: order = s.iter.args[0].value if isinstance(s.iter.args[0], ast.Constant) else None
            for k in s.iter.keywords:
                if k.arg == "order" and isinstance(k.value, ast.Constant): order = k.value.value
            if order not in ("BFS", "DFS"): raise TranslateError(f"{W}: traversal order not recognised")
            tg = s.target
            node = tg.elts[0].id if isinstance(tg, ast.Tuple) and len(tg.elts) == 2 and _name(tg.elts[0]) else None
            sb = _strip(s.body)
            ok = node and len(sb) == 1 and isinstance(sb[0], ast.Assign) and isinstance(sb[0].targets[0], ast.Subscript) and _name(sb[0].targets[0].value, vn) and \
                _name(sb[0].targets[0].slice, node) and isinstance(sb[0].value, ast.Constant) and sb[0].value.value is True
            if not ok: raise TranslateError(f"{W}: marking loop is not `for (node, _) in tree.traverse(): visited[node] = True`")
            lines.append(f"    let visited := (trav \"{order}\" tree_v).foldl (fun vis e => upd vis e.1 true) visited"); seen.append("mark"); continue
        raise TranslateError(f"{W}: statement not recognised: {ast.unparse(s)[:80]}")
    if sorted(seen) != ["mark", "mk", "roots", "trees"]: raise TranslateError(f"{W}: body must append the root, build the tree, append it and mark its nodes (found {seen})")
    lines += ["    (visited, roots, trees)", "  else acc",
              f"/-- does `{cls}.compute` hand its exclusion set on to every tree it builds? -/",
              f"def forestPassesExcl_{tag} : Bool := {'true' if passes else 'false'}", ""]
    return lines


def _forest_base(tree):
    W = "SpanningForest"
    e = _strip(T.find_def(tree, "SpanningForest.edges").body)
    ok = len(e) == 3 and isinstance(e[0], ast.Assign) and isinstance(e[0].value, ast.List) and not e[0].value.elts and isinstance(e[1], ast.For) and \
        _self(e[1].iter, "trees") and isinstance(e[2], ast.Return) and _name(e[2].value, e[0].targets[0].id)
    if ok:
        b = _strip(e[1].body)
        acc = e[0].targets[0].id
        tv = e[1].target.id
        s = b[0] if len(b) == 1 else None
        ok = (isinstance(s, ast.AugAssign) and isinstance(s.op, ast.Add) and _name(s.target, acc) and ast.unparse(s.value) == f"{tv}.edges") or \
             (isinstance(s, ast.Assign) and _name(s.targets[0], acc) and ast.unparse(s.value) == f"{acc} + {tv}.edges") or \
             (isinstance(s, ast.Expr) and _name(_mcall(s.value, "extend", 1), acc) and ast.unparse(s.value.args[0]) == f"{tv}.edges")
    if not ok: raise TranslateError(f"{W}.edges: not an accumulation of tree.edges into a FRESH list over self.trees")
    t = _strip(T.find_def(tree, "SpanningForest.traverse").body)
    ok = len(t) == 1 and isinstance(t[0], ast.For) and _self(t[0].iter, "trees")
    if ok:
        inner = _strip(t[0].body)
        ok = len(inner) == 1 and isinstance(inner[0], ast.For) and isinstance(inner[0].iter, ast.Call) and _name(_mcall_kw(inner[0].iter, "traverse"), t[0].target.id)
        if ok:
            kw = {k.arg: ast.unparse(k.value) for k in inner[0].iter.keywords}
            pos = [ast.unparse(a) for a in inner[0].iter.args]
            ok = (kw == {"order": "order"} and not pos) or (pos == ["order"] and not kw)
            y = _strip(inner[0].body)
            ok = ok and len(y) == 1 and isinstance(y[0], ast.Expr) and isinstance(y[0].value, ast.Yield) and _name(y[0].value.value, inner[0].target.id)
    if not ok: raise TranslateError(f"{W}.traverse: not `for tree in self.trees: for el in tree.traverse(order=order): yield el`")
    n = _strip(T.find_def(tree, "SpanningForest.n_trees").body)
    if not (len(n) == 1 and isinstance(n[0], ast.Return) and _call(n[0].value, "len", 1) and _self(n[0].value.args[0], "trees")):
        raise TranslateError(f"{W}.n_trees: not len(self.trees)")
    g = _strip(T.find_def(tree, "SpanningForest.__getitem__").body)
    if not (len(g) == 1 and isinstance(g[0], ast.Return) and isinstance(g[0].value, ast.Subscript) and _self(g[0].value.value, "trees")):
        raise TranslateError(f"{W}.__getitem__: not self.trees[key]")
    for cls in ("SpanningTree", "SpanningForest"):
        c = _strip(T.find_def(tree, cls + ".__call__").body)
        if not (len(c) == 2 and isinstance(c[0], ast.Expr) and _name(_mcall(c[0].value, "compute", 0), "self") and isinstance(c[1], ast.Return) and _name(c[1].value, "self")):
            raise TranslateError(f"{cls}.__call__: not `self.compute(); return self`")
    return ["/-! ### SpanningForest accessors (base.py) -/",
            "/-- `obj()` = `obj.compute()` then the object itself, for trees and forests: the number of computes per call -/",
            "def callComputes : Nat := 1",
            "def forestEdges (ts : List Tree) : List (Nat × Nat) := ts.foldl (fun acc t => acc ++ t.edges) []",
            "def forestTraverse (trav : Tree → List (Nat × Option Nat)) (ts : List Tree) : List (Nat × Option Nat) :=",
            "  ts.foldl (fun acc t => (trav t).foldl (fun acc el => acc ++ [el]) acc) []",
            "def forestNTrees (ts : List Tree) : Nat := ts.length",
            "def forestGet (ts : List Tree) (key : Nat) : Option Tree := ts[key]?", ""]



# ------------------------------------------------------------------------------------------------
# (5) round 5: constructors, the `_computed` flag, build_tree_as_polyline
# ------------------------------------------------------------------------------------------------
def _is_none(n):
    return isinstance(n, ast.Constant) and n.value is None


def _empty_list(n):
    return isinstance(n, ast.List) and not n.elts


def _self_assigns(stmts):
    """{attr: value node} of the top-level `self.attr = value` statements (annotated ones included), in order"""
    out = {}
    for st in stmts:
        if isinstance(st, ast.AnnAssign) and st.value is not None and _self(st.target): out[st.target.attr] = st.value
        elif isinstance(st, ast.Assign) and len(st.targets) == 1 and _self(st.targets[0]): out[st.targets[0].attr] = st.value
    return out


def _super_init(stmts, W):
    for st in stmts:
        if isinstance(st, ast.Expr) and isinstance(st.value, ast.Call) and isinstance(st.value.func, ast.Attribute) and st.value.func.attr == "__init__" \
                and _call(st.value.func.value, "super", 0):
            return st.value
    raise TranslateError(f"{W}: super().__init__(…) not called")


def _root_choice(body, param, count, W):
    """if <param> is not None: self.root = <param> else: self.root = randint(0, len(self.mesh.<count>) - 1)"""
    for st in body:
        if isinstance(st, ast.If) and st.orelse:
            t = st.test
            a, b = _strip(st.body), _strip(st.orelse)
            if isinstance(t, ast.Compare) and len(t.ops) == 1 and _name(t.left, param) and _is_none(t.comparators[0]) and isinstance(t.ops[0], (ast.IsNot, ast.Is)):
                if isinstance(t.ops[0], ast.Is): a, b = b, a
                ok = len(a) == 1 and isinstance(a[0], ast.Assign) and _self(a[0].targets[0], "root") and _name(a[0].value, param) and \
                    len(b) == 1 and isinstance(b[0], ast.Assign) and _self(b[0].targets[0], "root") and _call(b[0].value, "randint", 2) and \
                    _const(b[0].value.args[0], 0) and ast.unparse(b[0].value.args[1]).replace(" ", "") == f"len(self.mesh.{count})-1"
                if ok: return
                raise TranslateError(f"{W}: root selection branches not recognised")
            if _name(t, param) or (isinstance(t, ast.UnaryOp) and _name(t.operand, param)):
                raise TranslateError(f"{W}: the root is selected by the TRUTH VALUE of `{param}` (element 0 is a valid root), not by `is not None`")
    raise TranslateError(f"{W}: `if {param} is not None: self.root = {param} else: randint(0, len(self.mesh.{count})-1)` not found")


def _excl_default(body, param, attr, W):
    """if <param> is None: self.<attr> = set() else: self.<attr> = <param>"""
    for st in body:
        if isinstance(st, ast.If) and st.orelse and isinstance(st.test, ast.Compare) and _name(st.test.left, param) and _is_none(st.test.comparators[0]):
            a, b = _strip(st.body), _strip(st.orelse)
            if isinstance(st.test.ops[0], ast.IsNot): a, b = b, a
            va, vb = _self_assigns(a).get(attr), _self_assigns(b).get(attr)
            if va is not None and vb is not None and (_call(va, "set", 0)) and _name(vb, param): return
            raise TranslateError(f"{W}: default of {attr} not recognised")
    raise TranslateError(f"{W}: `if {param} is None: self.{attr} = set() else: self.{attr} = {param}` not found")


def _constructors():
    out = ["/-! ### constructors and the `_computed` flag -/", ""]
    base = T.load(BASE)[0]
    # SpanningTree.__init__ / compute / traverse guard
    W = "SpanningTree.__init__"
    a = _self_assigns(_strip(T.find_def(base, W).body))
    if not (set(a) == {"mesh", "root", "parent", "children", "edges", "_computed"} and _name(a["mesh"], "mesh") and all(_is_none(a[k]) for k in ("root", "parent", "children", "edges"))
            and isinstance(a["_computed"], ast.Constant) and a["_computed"].value is False):
        raise TranslateError(f"{W}: expected mesh, root/parent/children/edges = None, _computed = False (found {sorted(a)})")
    W = "SpanningTree.compute"
    c = _self_assigns(_strip(T.find_def(base, W).body))
    if not (set(c) == {"_computed"} and isinstance(c["_computed"], ast.Constant) and c["_computed"].value is True): raise TranslateError(f"{W}: does not (only) set _computed = True")
    W = "SpanningTree.traverse"
    guards = [st for st in _strip(T.find_def(base, W).body) if isinstance(st, ast.If) and len(_strip(st.body)) == 1 and isinstance(_strip(st.body)[0], ast.Raise)]
    g0 = guards[0].test if guards else None
    if not (len(guards) == 2 and isinstance(g0, ast.UnaryOp) and isinstance(g0.op, ast.Not) and _self(g0.operand, "_computed")):
        raise TranslateError(f"{W}: the first guard is not `if not self._computed: raise`")
    g1 = guards[1].test
    if not (isinstance(g1, ast.Compare) and isinstance(g1.ops[0], ast.NotIn) and _name(g1.left, "order") and isinstance(g1.comparators[0], (ast.List, ast.Tuple, ast.Set))):
        raise TranslateError(f"{W}: the second guard is not `if order not in [...]: raise`")
    orders = sorted(e.value for e in g1.comparators[0].elts)
    # which compute() sets the flag, and how
    flags = {}
    for tag, (path, cls) in {"edge": (EDGE, "EdgeSpanningTree"), "mst": (EDGE, "EdgeMinimalSpanningTree"), "face": (FACE, "FaceSpanningTree"), "cell": (CELL, "CellSpanningTree")}.items():
        f = T.find_def(T.load(path)[0], cls + ".compute")
        last = _strip(f.body)[-1]
        direct = isinstance(last, ast.Assign) and _self(last.targets[0], "_computed") and isinstance(last.value, ast.Constant) and last.value.value is True
        viasuper = isinstance(last, ast.Expr) and isinstance(last.value, ast.Call) and isinstance(last.value.func, ast.Attribute) and last.value.func.attr == "compute" and \
            _call(last.value.func.value, "super", 0)
        if tag == "mst" and viasuper: raise TranslateError(f"{cls}.compute: ends with super().compute(), which would run the breadth-first tree of the parent class")
        if not (direct or viasuper): raise TranslateError(f"{cls}.compute: the LAST statement does not set the computed flag")
        for st in ast.walk(f):
            if isinstance(st, ast.Return) and st is not last: raise TranslateError(f"{cls}.compute: returns before the end (the flag / the tables may not be set)")
        flags[tag] = True
    q = lambda l: "[" + ", ".join('"' + x + '"' for x in l) + "]"
    out += ["def computedAfterInit : Bool := false", "def computedAfterCompute : Bool := true",
            f"def traverseOrders : List String := {q(orders)}",
            "/-- the two guards of `traverse`: `none` = the exception -/",
            "def traverseGuard (computed : Bool) (order : String) : Option Unit :=",
            "  if !computed then none else if !(traverseOrders.contains order) then none else some ()",
            "/-- every concrete `compute()` ends by setting the flag and has no early return -/",
            "def computeSetsFlag : List (String × Bool) := " + "[" + ", ".join(f'("{k}", true)' for k in flags) + "]", ""]
    # tree constructors
    spec = {"edge": (EDGE, "EdgeSpanningTree", "starting_vertex", "vertices", "id_vertices"), "face": (FACE, "FaceSpanningTree", "starting_face", "faces", "id_faces"),
            "cell": (CELL, "CellSpanningTree", "starting_cell", "cells", "id_cells")}
    for tag, (path, cls, rp, cnt, ids) in spec.items():
        W = cls + ".__init__"
        f = T.find_def(T.load(path)[0], W)
        body = _strip(f.body)
        sup = _super_init(body, W)
        if [ast.unparse(x) for x in sup.args] != ["mesh"] or sup.keywords: raise TranslateError(f"{W}: super().__init__ is not called with (mesh)")
        _root_choice(body, rp, cnt, W)
        a = _self_assigns(body)
        okt = ast.unparse(a.get("parent", ast.Constant(0))).replace(" ", "") == f"[None]*len(self.mesh.{cnt})" and _empty_list(a.get("edges")) and \
            isinstance(a.get("children"), ast.ListComp) and _empty_list(a["children"].elt) and ast.unparse(a["children"].generators[0].iter) == f"self.mesh.{ids}"
        if not okt: raise TranslateError(f"{W}: tables parent / children / edges are not initialised empty")
        if tag == "edge":
            if not (_name(a.get("_avoidbound"), "avoid_boundary") and _name(a.get("_avoidedges"), "avoid_edges")): raise TranslateError(f"{W}: avoid_boundary / avoid_edges are not stored as given")
            dflt = {x.arg: d for x, d in zip(f.args.args[::-1], f.args.defaults[::-1])}
            if not (_is_none(dflt.get("starting_vertex")) and isinstance(dflt.get("avoid_boundary"), ast.Constant) and dflt["avoid_boundary"].value is False and _is_none(dflt.get("avoid_edges"))):
                raise TranslateError(f"{W}: parameter defaults changed")
        else:
            _excl_default(body, {"face": "forbidden_edges", "cell": "forbidden_faces"}[tag], {"face": "forbidden_edges", "cell": "forbidden_faces"}[tag], W)
    # MST constructor
    W = "EdgeMinimalSpanningTree.__init__"
    f = T.find_def(T.load(EDGE)[0], W)
    body = _strip(f.body)
    sup = _super_init(body, W)
    got = [ast.unparse(x) for x in sup.args] + [f"{k.arg}={ast.unparse(k.value)}" for k in sup.keywords]
    if got not in (["mesh", "starting_vertex", "avoid_boundary=avoid_boundary"], ["mesh", "starting_vertex", "avoid_boundary"]):
        raise TranslateError(f"{W}: super().__init__ is called with {got}")
    if not _name(_self_assigns(body).get("weights"), "weights"): raise TranslateError(f"{W}: weights not stored as given")
    # forests
    W = "SpanningForest.__init__"
    a = _self_assigns(_strip(T.find_def(base, W).body))
    if not (_name(a.get("mesh"), "mesh") and _empty_list(a.get("trees")) and _empty_list(a.get("roots"))): raise TranslateError(f"{W}: mesh / trees = [] / roots = [] not found")
    for path, cls, extra in ((EDGE, "EdgeSpanningForest", None), (FACE, "FaceSpanningForest", "forbidden_edges"), (CELL, "CellSpanningForest", None)):
        W = cls + ".__init__"
        body = _strip(T.find_def(T.load(path)[0], W).body)
        sup = _super_init(body, W)
        if [ast.unparse(x) for x in sup.args] != ["mesh"]: raise TranslateError(f"{W}: super().__init__ is not called with (mesh)")
        a = _self_assigns(body)
        if extra and not _name(a.get(extra), extra): raise TranslateError(f"{W}: {extra} not stored as given")
        if set(a) - ({extra} if extra else set()): raise TranslateError(f"{W}: unexpected attributes {sorted(a)}")
    out += ["/-- the root of a tree: the given element (ANY element, 0 included), else `randint(0, n - 1)` -/",
            "def rootOf (given : Option Nat) (randint : Nat → Nat → Nat) (n : Nat) : Nat :=",
            "  match given with", "  | some r => r", "  | none => randint 0 (n - 1)",
            "/-- the exclusion set of a face / cell tree: the given one, else the empty set -/",
            "def exclOf (given : Option (Nat → Bool)) : Nat → Bool :=", "  match given with", "  | some f => f", "  | none => fun _ => false",
            "/-- what the MST constructor hands to the parent constructor as `avoid_edges` (nothing: the default `None`) -/",
            "def mstAvoidEdges : Option (Nat → Bool) := none", ""]
    return out


def _polylines():
    out = ["/-! ### build_tree_as_polyline -/", ""]
    # edge: all mesh vertices; one edge keyify(v, father) per traversed (v, father) with a father
    W = "EdgeSpanningTree.build_tree_as_polyline"
    body = _strip(T.find_def(T.load(EDGE)[0], W).body)
    ok = len(body) == 4 and isinstance(body[0], ast.Assign) and _call(body[0].value, "PolyLine", 0) and isinstance(body[1], ast.For) and isinstance(body[2], ast.For) and \
        isinstance(body[3], ast.Return) and _name(body[3].value, body[0].targets[0].id)
    if not ok: raise TranslateError(f"{W}: expected output = PolyLine(); vertex loop; traversal loop; return output")
    o = body[0].targets[0].id
    v1 = body[1]
    b1 = _strip(v1.body)
    if not (ast.unparse(v1.iter) == "self.mesh.vertices" and len(b1) == 1 and isinstance(b1[0], ast.Expr) and ast.unparse(_mcall(b1[0].value, "append", 1) or ast.Constant(0)) == f"{o}.vertices"
            and _name(b1[0].value.args[0], v1.target.id)):
        raise TranslateError(f"{W}: the vertices of the mesh are not copied one by one")
    t = body[2]
    it = t.iter
    if not (isinstance(it, ast.Call) and _self(it.func, "traverse") and isinstance(t.target, ast.Tuple) and len(t.target.elts) == 2): raise TranslateError(f"{W}: second loop is not over self.traverse()")
    order = "BFS"
    for k in it.keywords:
        if k.arg == "order" and isinstance(k.value, ast.Constant): order = k.value.value
    if it.args: order = it.args[0].value if isinstance(it.args[0], ast.Constant) else None
    if order not in ("BFS", "DFS"): raise TranslateError(f"{W}: traversal order not recognised")
    vv, ff = (e.id for e in t.target.elts)
    tb = _unnest_continue(t.body)
    ok = len(tb) == 1 and isinstance(tb[0], ast.If) and isinstance(tb[0].test, ast.UnaryOp) and isinstance(tb[0].test.operand, ast.Compare) and \
        _name(tb[0].test.operand.left, ff) and isinstance(tb[0].test.operand.ops[0], ast.Is) and _is_none(tb[0].test.operand.comparators[0])
    if not ok:
        ok = len(tb) == 1 and isinstance(tb[0], ast.If) and isinstance(tb[0].test, ast.Compare) and _name(tb[0].test.left, ff) and isinstance(tb[0].test.ops[0], ast.IsNot) and _is_none(tb[0].test.comparators[0])
    if not ok: raise TranslateError(f"{W}: the root (father None) is not skipped")
    ib = _strip(tb[0].body)
    a = ib[0].value.args[0] if len(ib) == 1 and isinstance(ib[0], ast.Expr) and ast.unparse(_mcall(ib[0].value, "append", 1) or ast.Constant(0)) == f"{o}.edges" else None
    if not (_call(a, "keyify", 2) and sorted(x.id for x in a.args if _name(x)) == sorted([vv, ff])): raise TranslateError(f"{W}: appended edge is not keyify(v, father)")
    ren = {vv: "vf.1", ff: "father"}
    out += ["/-- edges of the polyline exported by `EdgeSpanningTree.build_tree_as_polyline` (its vertices are all the mesh vertices, same numbering) -/",
            "def polyEdges_edge (trav : String → List (Nat × Option Nat)) : List (Nat × Nat) :=",
            f"  (trav \"{order}\").foldl (fun out vf =>", "    match vf.2 with", "    | none => out",
            "    | some father => out ++ [keyify vf.1 father]) []", ""]        # keyify is symmetric: argument order normalised
    # face / cell: one polyline vertex per element (its barycentre), one edge [i, parent[i]] per element with a parent
    for tag, path, cls, ids in (("face", FACE, "FaceSpanningTree", "id_faces"), ("cell", CELL, "CellSpanningTree", "id_cells")):
        W = cls + ".build_tree_as_polyline"
        body = _strip(T.find_def(T.load(path)[0], W).body)
        fors = [st for st in body if isinstance(st, ast.For)]
        if not (len(fors) == 1 and ast.unparse(fors[0].iter) == f"self.mesh.{ids}" and _name(fors[0].target) and isinstance(body[-1], ast.Return)): raise TranslateError(f"{W}: loop over self.mesh.{ids} not found")
        i = fors[0].target.id
        fb = _strip(fors[0].body)
        ok = len(fb) == 2 and isinstance(fb[0], ast.Expr) and _mcall(fb[0].value, "append", 1) is not None and ast.unparse(_mcall(fb[0].value, "append", 1)).endswith(".vertices") and \
            isinstance(fb[0].value.args[0], ast.Subscript) and _name(fb[0].value.args[0].slice, i)
        if not ok: raise TranslateError(f"{W}: one polyline vertex per element (indexed by the element id) expected")
        g = fb[1]
        ok = isinstance(g, ast.If) and not g.orelse and isinstance(g.test, ast.Compare) and isinstance(g.test.ops[0], ast.IsNot) and _is_none(g.test.comparators[0]) and \
            ast.unparse(g.test.left) == f"self.parent[{i}]"
        if ok:
            gb = _strip(g.body)
            a = gb[0].value.args[0] if len(gb) == 1 and isinstance(gb[0], ast.Expr) and _mcall(gb[0].value, "append", 1) is not None and ast.unparse(_mcall(gb[0].value, "append", 1)).endswith(".edges") else None
            ok = isinstance(a, (ast.List, ast.Tuple)) and len(a.elts) == 2
        if not ok: raise TranslateError(f"{W}: `if self.parent[i] is not None: output.edges.append([i, self.parent[i]])` not found")
        m = {i: "i", f"self.parent[{i}]": "p"}
        e0, e1 = (m.get(ast.unparse(x)) for x in a.elts)
        if e0 is None or e1 is None or {e0, e1} != {"i", "p"}: raise TranslateError(f"{W}: appended edge is not [i, self.parent[i]]")
        out += [f"/-- edges of the polyline exported by `{cls}.build_tree_as_polyline` (vertex number i = barycentre of element i) -/",
                f"def polyEdges_{tag} (n : Nat) (parent : Nat → Option Nat) : List (Nat × Nat) :=",
                "  (List.range n).foldl (fun out i =>", "    match parent i with", "    | some p => out ++ [(i, p)]", "    | none => out) []", ""]      # a segment is an unordered pair: orientation normalised
    # forest: merge of the polylines of its trees
    W = "SpanningForest.build_tree_as_polyline"
    body = _strip(T.find_def(T.load(BASE)[0], W).body)
    ok = len(body) == 2 and isinstance(body[0], ast.Assign) and isinstance(body[0].value, ast.ListComp) and ast.unparse(body[0].value.generators[0].iter) == "self.trees" and \
        isinstance(body[0].value.elt, ast.Call) and isinstance(body[0].value.elt.func, ast.Attribute) and body[0].value.elt.func.attr == "build_tree_as_polyline" and \
        isinstance(body[1], ast.Return) and _call(body[1].value, "merge", 1) and _name(body[1].value.args[0], body[0].targets[0].id)
    if not ok: raise TranslateError(f"{W}: not `merge([t.build_tree_as_polyline() for t in self.trees])`")
    out += ["/-- the forest's polyline is the merge of the polylines of its trees, in order -/", "def forestPolylineIsMergeOfTrees : Bool := true", ""]
    return out


HEADER = """import Mouette.Model.Trees
import Mouette.Generated.C20UF
/-
Imperative translation of mouette/processing/trees/*.py (everything but the BFS loop body, which is in C10Loop.lean).
Bridges: Mouette/Props/C10Source.lean.
-/
namespace Mouette.Generated.C10T
open Mouette.Trees Mouette.Generated
open Mouette.Dijkstra (upd)

/-- connectivity as the face / cell trees query it: `conn x` lists, in iteration order, the connector ids (edges of a face,
faces of a cell) with the element on the other side (`none`: border) -/
structure RawCfg where
  conn : Nat → List (Nat × Option Nat)
  excl : Nat → Bool

/-- the adjacency (neighbour, connector) the model is run on -/
def RawCfg.cfg (g : RawCfg) : Cfg :=
  { adj := fun x => (g.conn x).filterMap (fun c => c.2.map (fun y => (y, c.1))), excl := g.excl }

inductive WMode where
  | one | length | custom
deriving DecidableEq, Repr

"""



def _stub(name, ns, sites):
    """a translation site failed: do not leave the file of an EARLIER tree on disk; the stub has no definitions, so every bridge
    that needs them fails to build and the build log talks about THIS tree"""
    bad = "; ".join(f"{s['site']}: {str(s.get('detail'))[:160]}" for s in sites if not s["ok"]).replace("-/", "- /")
    T.write_generated(name, f"/- TRANSLATION FAILED on the current source tree, no definitions emitted.\n{bad}\n-/\nnamespace {ns}\nend {ns}\n")

def translate():
    sites, out = [], {}

    def run(name, key, fn):
        def g():
            out[key] = fn()
            return f"{len(out[key])} lines"
        rec = T.site(name, g); sites.append(rec); return rec["ok"]
    ok = True
    ok &= run("base.py:SpanningTree.traverse (+ inner pop)", "trav", lambda: _traverse(T.load(BASE)[0]))
    ok &= run("base.py:SpanningForest.edges / traverse / n_trees / __getitem__", "fbase", lambda: _forest_base(T.load(BASE)[0]))
    for tag, K in KIND.items():
        def f(tag=tag, K=K):
            comp = T.find_def(T.load(K["file"])[0], K["cls"] + ".compute")
            put, pname = _put(tag, comp)
            return [f"/-! ### {K['cls']}.compute -/", ""] + put + _init_and_finish(tag, comp, pname)
        ok &= run(f"{K['file'].split('/')[-1]}:{K['cls']}.compute (put_neighbours_in_queue, initialisation, final loop)", "bfs_" + tag, f)
    ok &= run("edge_sp.py:EdgeMinimalSpanningTree.compute (weights, admissible edges, sort, Kruskal loop, orientation)", "mst", lambda: _mst(T.load(EDGE)[0]))
    for tag, (cls, path, *_r) in FOREST.items():
        ok &= run(f"{path.split('/')[-1]}:{cls}.compute", "forest_" + tag, lambda tag=tag, path=path: _forest(tag, T.load(path)[0]))
    ok &= run("base.py / *_sp.py: constructors (root selection, exclusion defaults, empty tables), _computed flag, traverse guards", "ctor", _constructors)
    ok &= run("*_sp.py / base.py: build_tree_as_polyline (edge, face, cell, forest)", "poly", _polylines)
    if ok:
        body = []
        for k in ("trav", "bfs_edge", "bfs_face", "bfs_cell", "mst", "forest_edge", "forest_face", "forest_cell", "fbase", "ctor", "poly"): body += out[k]
        T.write_generated("C10Tree", "\n".join(body) + "\nend Mouette.Generated.C10T\n", HEADER)
    else:
        _stub("C10Tree", "Mouette.Generated.C10T", sites)
    return sites
