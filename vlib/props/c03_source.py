"""C03 round 4: function BODIES of mouette/mesh/datatypes/volume.py compiled statement by statement (Python `ast` ->
lean/Mouette/Generated/C03S.lean) on every run; the bridges `Generated.f = Model.f` are in lean/Mouette/Props/C03Source.lean.

What is read imperatively
  state-building methods  `_compute_cell_adj`, `_compute_connectivity`, `_compute_edge_id`, `_compute_adjacent_cell` of
                          `VolumeMesh._Connectivity`; `_compute_interior_boundary_faces/_vertices/_edges` of `VolumeMesh`;
                          the map-building loops of `_BoundaryConnectivity._extract_surface_boundary`:
                          a record `<Name>St` of the containers the method stores (in order of first store) + `outside`;
                          every statement becomes one `let s := ...` in source order; `for` -> `foldl` over the iterable;
                          `if` -> `if .. then .. else ..` on the state; which container is written, with which key and value,
                          the initial values (`dict([(i, []) ..])`, `dict([(i, set()) ..])`, `[]`, `create_attribute`), the
                          `list(..)` conversions and the loop domains are all taken from the source text.
  accessors               `face_to_cells`, `cell_to_face`, `vertex_to_cell`, `cell_to_cell`, `is_face_on_border`,
                          the properties `boundary_faces` / `interior_faces`: guard (`if self._X is None: self._compute()`)
                          + returned expression.
Vocabulary (what a container operation means): lean/Mouette/Model/VolSource.lean.

Outside the translated fragment (reported in the site detail, never silently): the branch taken by NON-tetrahedral cells
(`else` of `if len(C)==4`, `if len(cell)==8`) sets `outside := true` in the generated definition (the bridges prove it stays
false on tetrahedral meshes); `super().<same method>()` calls (inherited surface part: C01); the reuse of a stored
"adjacent_cell" attribute; the `config.sort_neighborhoods` tail of `_compute_edge_id` (`_sort_edge_neighborhoods` has its own site).

Tolerated respellings (normalised away: the generated text does not change): renamed locals / loop variables; commuted `==` / `!=`;
`a > b` = `b < a`; `a >= b` = `b <= a`; `not a == b` = `a != b`; `x += [v]` = `x.append(v)`; `X[k] = X[k] | c` = `X[k] |= c`;
annotations on assignments; docstrings, comments, `pass`, `print(..)` / logging calls.
Anything else raises TranslateError -> `ok: False` -> broken obligation -> failing-input search.
"""
import ast
import copy

from .. import translate as T
from ..translate import TranslateError

VOL = "mouette/mesh/datatypes/volume.py"

MESH_LISTS = {"cells": "cell", "faces": "face", "edges": "edge"}
MESH_RANGES = {"id_vertices": "nV", "id_edges": "nE", "id_faces": "nF", "id_cells": "nC"}
LOGGERS = {"print", "warn", "warning", "info", "debug", "log"}


# ------------------------------------------------------------------------------------------------------------------
# normalisation
# ------------------------------------------------------------------------------------------------------------------
def _callfree(n):
    return not any(isinstance(x, ast.Call) for x in ast.walk(n))


class Norm(ast.NodeTransformer):
    def visit_UnaryOp(self, n):
        self.generic_visit(n)
        if isinstance(n.op, ast.Not) and isinstance(n.operand, ast.Compare) and len(n.operand.ops) == 1:
            c = n.operand
            flip = {ast.Eq: ast.NotEq, ast.NotEq: ast.Eq, ast.In: ast.NotIn, ast.NotIn: ast.In, ast.Is: ast.IsNot, ast.IsNot: ast.Is,
                    ast.Lt: ast.GtE, ast.GtE: ast.Lt, ast.Gt: ast.LtE, ast.LtE: ast.Gt}
            if type(c.ops[0]) in flip:
                return self.visit(ast.copy_location(ast.Compare(c.left, [flip[type(c.ops[0])]()], c.comparators), n))
        return n

    def visit_Compare(self, n):
        self.generic_visit(n)
        if len(n.ops) == 1:
            op, a, b = n.ops[0], n.left, n.comparators[0]
            if isinstance(op, (ast.Gt, ast.GtE)) and _callfree(a) and _callfree(b):
                return ast.copy_location(ast.Compare(b, [ast.Lt() if isinstance(op, ast.Gt) else ast.LtE()], [a]), n)
        return n

    def visit_AnnAssign(self, n):
        self.generic_visit(n)
        if n.value is None: return None
        return ast.copy_location(ast.Assign([n.target], n.value), n)

    def visit_Assign(self, n):
        self.generic_visit(n)
        # X[k] = X[k] | c  ->  X[k] |= c
        if len(n.targets) == 1 and isinstance(n.value, ast.BinOp) and isinstance(n.value.op, ast.BitOr) \
                and ast.unparse(n.value.left) == ast.unparse(n.targets[0]):
            return ast.copy_location(ast.AugAssign(n.targets[0], ast.BitOr(), n.value.right), n)
        return n


def _body(fn):
    fn = Norm().visit(copy.deepcopy(fn))
    ast.fix_missing_locations(fn)
    return _strip(fn.body)


def _is_log(st):
    if not (isinstance(st, ast.Expr) and isinstance(st.value, ast.Call)): return False
    f = st.value.func
    name = f.id if isinstance(f, ast.Name) else f.attr if isinstance(f, ast.Attribute) else None
    if name not in LOGGERS: return False
    return not any(isinstance(x, ast.Attribute) and isinstance(x.value, ast.Name) and x.value.id == "self" and x.attr.startswith("_")
                   and isinstance(x.ctx, ast.Store) for x in ast.walk(st))


def _strip(stmts):
    return [s for s in stmts if not (isinstance(s, ast.Pass) or (isinstance(s, ast.Expr) and isinstance(s.value, ast.Constant)) or _is_log(s))]


# ------------------------------------------------------------------------------------------------------------------
# attribute chains: who is `self` here?
# ------------------------------------------------------------------------------------------------------------------
def _chain(n):
    """a.b.c -> ['a','b','c'] or None"""
    parts = []
    while isinstance(n, ast.Attribute):
        parts.append(n.attr); n = n.value
    if isinstance(n, ast.Name):
        parts.append(n.id); return list(reversed(parts))
    return None


def resolve(ctx, node):
    """-> ('mesh', attr) | ('conn', attr) | ('own', attr) | None   for an attribute chain rooted at self"""
    ch = _chain(node)
    if not ch or ch[0] != "self": return None
    ch = ch[1:]
    if ctx == "conn":
        if len(ch) == 2 and ch[0] == "mesh": return ("mesh", ch[1])
        if len(ch) == 1: return ("own" if ch[0].startswith("_") else "conn", ch[0])
    if ctx == "mesh":
        if len(ch) == 2 and ch[0] == "connectivity": return ("conn", ch[1])
        if len(ch) == 1: return ("own" if ch[0].startswith("_") else "mesh", ch[0])
    if ctx == "bc":
        if len(ch) == 3 and ch[0] == "complete_mesh" and ch[1] == "connectivity": return ("conn", ch[2])
        if len(ch) == 2 and ch[0] == "complete_mesh": return ("mesh", ch[1])
        if len(ch) == 1: return ("own", ch[0])
    return None


# ------------------------------------------------------------------------------------------------------------------
# the compiler
# ------------------------------------------------------------------------------------------------------------------
LEAN_TY = {"dict": "Dict", "list": "List Nat", "flags": "Flags", "amap2": "AMap (Nat × Nat)", "amap": "AMap Nat"}


class Unit:
    """everything compiled so far: generated functions callable from later ones"""

    def __init__(self):
        self.funcs = {}      # (level, python name) -> {"lean": name, "ret": type, "params": n}
        self.fields = {}     # python attribute `_adjF2C` -> (compute function lean name, field, type, elem)
        self.text = []
        self.bstates = {}    # python method name -> {"lean", "fields", "locals"} of the boundary-extraction methods
        self.outside = []    # notes
        self.detail = {}


class Fn:
    def __init__(self, unit, ctx, fn, lean_name):
        self.u, self.ctx, self.fn, self.lean = unit, ctx, fn, lean_name
        self.n = 0
        self.fields = []          # [(pyattr, leanfield, type, elem)]
        self.cellvars = set()

    # -- names -------------------------------------------------------------------------------------------------------
    def fresh(self):
        self.n += 1
        return f"x{self.n - 1}"

    def err(self, msg):
        return TranslateError(f"{self.fn.name}: {msg}")

    def field(self, attr):
        for f in self.fields:
            if f[0] == attr: return f
        return None

    # -- expressions ---------------------------------------------------------------------------------------------------
    def cx(self, n, env):
        """-> (lean text, type)   types: nat list bool optnat"""
        if isinstance(n, ast.Constant):
            if isinstance(n.value, bool): return ("true" if n.value else "false"), "bool"
            if isinstance(n.value, int) and n.value >= 0: return str(n.value), "nat"
            raise self.err(f"unsupported constant {n.value!r}")
        if isinstance(n, ast.Name):
            if n.id in env: return env[n.id]
            raise self.err(f"unbound name {n.id}")
        if isinstance(n, (ast.Tuple, ast.List)):
            parts = [self.cx_atom(e, env) for e in n.elts]
            if all(t == "nat" for _, t in parts): return "[" + ", ".join(e for e, _ in parts) + "]", "list"
            raise self.err(f"tuple of {[t for _, t in parts]}")
        if isinstance(n, ast.Call):
            return self.ccall(n, env)
        if isinstance(n, ast.BinOp):
            a, ta = self.cx_atom(n.left, env); b, tb = self.cx_atom(n.right, env)
            if isinstance(n.op, ast.Add) and ta == tb == "list": return f"({a} ++ {b})", "list"
            if isinstance(n.op, ast.Add) and ta == tb == "nat": return f"({a} + {b})", "nat"
            if isinstance(n.op, ast.Mod) and ta == tb == "nat": return f"({a} % {b})", "nat"
            raise self.err(f"operator {type(n.op).__name__} on {ta},{tb}")
        if isinstance(n, ast.Compare) and len(n.ops) == 1:
            op, l, r = n.ops[0], n.left, n.comparators[0]
            if isinstance(op, (ast.In, ast.NotIn)):
                a, ta = self.cx_atom(l, env); b, tb = self.cx_atom(r, env)
                if ta != "nat" or tb != "list": raise self.err(f"membership of {ta} in {tb}")
                return (f"({b}.contains {a})" if isinstance(op, ast.In) else f"(!{b}.contains {a})"), "bool"
            a, ta = self.cx_atom(l, env); b, tb = self.cx_atom(r, env)
            if ta != "nat" or tb != "nat": raise self.err(f"comparison of {ta} and {tb}")
            if isinstance(op, (ast.Eq, ast.NotEq)):
                a, b = self._order(a, b)
                return f"({a} {'==' if isinstance(op, ast.Eq) else '!='} {b})", "bool"
            if isinstance(op, ast.Lt): return f"decide ({a} < {b})", "bool"
            if isinstance(op, ast.LtE): return f"decide ({a} ≤ {b})", "bool"
            raise self.err(f"comparison operator {type(op).__name__}")
        if isinstance(n, ast.Subscript):
            return self.csub(n, env)
        if isinstance(n, ast.Attribute):
            r = resolve(self.ctx, n)
            if r and r[0] == "mesh" and r[1] in MESH_RANGES: return f"(List.range m.{MESH_RANGES[r[1]]})", "list"
            if r and r[0] == "mesh" and ("mesh", r[1]) in self.u.funcs and self.u.funcs[("mesh", r[1])]["params"] == 0:
                return f"({self.u.funcs[('mesh', r[1])]['lean']} m)", self.u.funcs[("mesh", r[1])]["ret"]
        raise self.err(f"unsupported expression {ast.unparse(n)[:80]}")

    @staticmethod
    def _order(a, b):
        """canonical operand order of == / != : literals last, later-bound local first"""
        def rank(x):
            if x.isdigit(): return (2, 0, x)
            if x[0] == "x" and x[1:].isdigit(): return (0, -int(x[1:]), x)
            return (1, 0, x)
        return (a, b) if rank(a) <= rank(b) else (b, a)

    def csub(self, n, env):
        v, s = n.value, n.slice
        if isinstance(s, ast.Slice):
            e, t = self.cx_atom(v, env)
            if t != "list" or s.step is not None: raise self.err(f"slice of {t}")
            if s.lower is None and s.upper is not None:
                i, ti = self.cx_atom(s.upper, env)
                if ti == "nat": return f"{e}.take {i}", "list*"
            if s.lower is not None and s.upper is None:
                i, ti = self.cx_atom(s.lower, env)
                if ti == "nat": return f"{e}.drop {i}", "list*"
            raise self.err(f"unsupported slice {ast.unparse(n)}")
        r = resolve(self.ctx, v) if isinstance(v, ast.Attribute) else None
        if r and r[0] == "mesh" and r[1] in MESH_LISTS:
            i, ti = self.cx_atom(s, env)
            if ti != "nat": raise self.err("container index is not an int")
            return f"(m.{MESH_LISTS[r[1]]} {i})", "list"
        if r and r[0] == "own":
            f = self.field(r[1])
            if f is None: raise self.err(f"read of self.{r[1]} before it is stored")
            if f[2] == "dict":
                i, ti = self.cx_atom(s, env)
                return f"(dGet s.{f[1]} {i})", "list"
            if f[2] == "flags":
                i, ti = self.cx_atom(s, env)
                return f"(flagGet s.{f[1]} {i})", "bool"
            if f[2] == "amap":
                i, ti = self.cx_atom(s, env)
                return f"(aGetD s.{f[1]} {i})", "nat"
            raise self.err(f"read of self.{r[1]}[..] ({f[2]})")
        e, t = self.cx_atom(v, env)
        if t == "list":
            i, ti = self.cx_atom(s, env)
            if ti != "nat": raise self.err("list index is not an int")
            return f"{e}.getD {i} 0", "nat*"
        raise self.err(f"subscript of {t}")

    def cx_atom(self, n, env):
        e, t = self.cx(n, env)
        if t.endswith("*"): return f"({e})", t[:-1]
        return e, t

    def ccall(self, n, env):
        f = n.func
        if isinstance(f, ast.Name):
            if f.id == "len" and len(n.args) == 1:
                e, t = self.cx_atom(n.args[0], env)
                if t != "list": raise self.err(f"len of {t}")
                return f"{e}.length", "nat*"
            if f.id in ("set", "list", "tuple") and len(n.args) == 1 and not n.keywords:
                e, t = self.cx_atom(n.args[0], env)
                if t != "list": raise self.err(f"{f.id}() of {t}")
                return e, "list"
            if f.id == "range" and len(n.args) == 1:
                e, t = self.cx_atom(n.args[0], env)
                if t != "nat": raise self.err("range of a non-int")
                return f"(List.range {e})", "list"
            raise self.err(f"call of {f.id}")
        r = resolve(self.ctx, f) if isinstance(f, ast.Attribute) else None
        if r is None or n.keywords: raise self.err(f"unsupported call {ast.unparse(n)[:60]}")
        level, name = r
        if level == "own": level = "conn" if self.ctx == "conn" else "mesh" if self.ctx == "mesh" else "own"
        if level == "conn" and name == "face_id":
            if len(n.args) == 1 and isinstance(n.args[0], ast.Starred):
                e, t = self.cx_atom(n.args[0].value, env)
                if t != "list": raise self.err("face_id(*x) of a non-list")
                return f"m.faceIdD {e}", "nat*"
            args = [self.cx_atom(a, env) for a in n.args]
            if len(args) != 3 or any(t != "nat" for _, t in args): raise self.err("face_id arguments")
            return "m.faceIdD [" + ", ".join(e for e, _ in args) + "]", "nat*"
        if level == "conn" and name == "edge_id":
            args = [self.cx_atom(a, env) for a in n.args]
            if len(args) != 2 or any(t != "nat" for _, t in args): raise self.err("edge_id arguments")
            return f"m.edgeIdD {args[0][0]} {args[1][0]}", "nat*"
        if level == "conn" and name == "face_to_edges":
            args = [self.cx_atom(a, env) for a in n.args]
            if len(args) != 1 or args[0][1] != "nat": raise self.err("face_to_edges arguments")
            return f"(m.faceToEdges {args[0][0]})", "list"
        g = self.u.funcs.get((level, name))
        if g is not None:
            if any(isinstance(a, ast.Starred) for a in n.args): raise self.err("starred call")
            args = [self.cx_atom(a, env) for a in n.args]
            if len(args) != g["params"] or any(t != "nat" for _, t in args): raise self.err(f"call of {name} with {[t for _, t in args]}")
            return f"{g['lean']} m" + "".join(" " + e for e, _ in args), g["ret"] + "*"
        raise self.err(f"call of {level}.{name}, which is not translated (or is defined later)")

    # -- statements ------------------------------------------------------------------------------------------------
    def bind(self, name, env, top_env, text_type):
        if name in top_env and top_env is not env and name in env and env[name] is top_env.get(name):
            raise self.err(f"local {name} bound outside a loop is reassigned inside it (loop-carried local)")
        x = self.fresh()
        env[name] = (x, text_type)
        return x

    def block(self, stmts, env, ind, loop_env=None):
        """-> list of lines (each a `let ...`), WITHOUT the final `s`"""
        out = []
        stmts = _strip(stmts)
        for i, st in enumerate(stmts):
            if isinstance(st, ast.If) and stmts[i + 1:] and any(isinstance(x, ast.Name) and isinstance(x.ctx, ast.Store)
                                                               for b in st.body + st.orelse for x in ast.walk(b)
                                                               if not isinstance(b, (ast.For, ast.While))):
                # the branches bind locals used afterwards: the rest of the block is continued inside each branch
                st2 = copy.deepcopy(st)
                st2.body = st.body + stmts[i + 1:]
                st2.orelse = (st.orelse or []) + stmts[i + 1:]
                out += self.cif(st2, env, ind, loop_env, tail=len(stmts) - i - 1)
                return out
            out += self.stmt(st, env, ind, loop_env)
        return out

    def init_value(self, v, env):
        """initial value of a stored container -> (type, elem, lean)"""
        # dict([(i, []) for i in <range>])  /  dict([(i, set()) for i in <range>])
        if isinstance(v, ast.Call) and isinstance(v.func, ast.Name) and v.func.id == "dict" and len(v.args) == 1 \
                and isinstance(v.args[0], (ast.ListComp, ast.GeneratorExp)) and len(v.args[0].generators) == 1:
            g = v.args[0].generators[0]
            elt = v.args[0].elt
            if isinstance(elt, ast.Tuple) and len(elt.elts) == 2 and isinstance(g.target, ast.Name) and not g.ifs \
                    and isinstance(elt.elts[0], ast.Name) and elt.elts[0].id == g.target.id:
                r = resolve(self.ctx, g.iter) if isinstance(g.iter, ast.Attribute) else None
                if r and r[0] == "mesh" and r[1] in MESH_RANGES:
                    n = f"m.{MESH_RANGES[r[1]]}"
                    e = elt.elts[1]
                    if isinstance(e, ast.List) and not e.elts: return "dict", "list", f"dictOfLists {n}"
                    if isinstance(e, ast.Call) and isinstance(e.func, ast.Name) and e.func.id == "set" and not e.args:
                        return "dict", "set", f"dictOfSets {n}"
        if isinstance(v, ast.Dict) and not v.keys and all(isinstance(k, ast.Constant) for k in v.keys) and False: pass
        if isinstance(v, ast.DictComp) and isinstance(v.key, ast.Name) and len(v.generators) == 1 and not v.generators[0].ifs \
                and isinstance(v.generators[0].target, ast.Name) and v.generators[0].target.id == v.key.id:
            r = resolve(self.ctx, v.generators[0].iter) if isinstance(v.generators[0].iter, ast.Attribute) else None
            if r and r[0] == "mesh" and r[1] in MESH_RANGES:
                n = f"m.{MESH_RANGES[r[1]]}"
                e = v.value
                if isinstance(e, ast.List) and not e.elts: return "dict", "list", f"dictOfLists {n}"
                if isinstance(e, ast.Call) and isinstance(e.func, ast.Name) and e.func.id == "set" and not e.args:
                    return "dict", "set", f"dictOfSets {n}"
        if isinstance(v, ast.List) and not v.elts: return "list", None, "[]"
        if isinstance(v, ast.Call) and isinstance(v.func, ast.Name) and v.func.id == "list" and not v.args: return "list", None, "[]"
        if isinstance(v, ast.Call) and isinstance(v.func, ast.Name) and v.func.id == "dict" and not v.args and not v.keywords:
            return "amap", None, "[]"
        if isinstance(v, ast.Dict) and not v.keys: return "amap", None, "[]"
        if isinstance(v, ast.Call) and isinstance(v.func, ast.Attribute) and v.func.attr == "create_attribute":
            ch = _chain(v.func.value)
            a = v.args
            if ch and a and isinstance(a[0], ast.Constant) and len(a) >= 2 and isinstance(a[1], ast.Name):
                if a[1].id == "bool" and len(a) == 2 and not v.keywords: return "flags", None, "[]"
                if a[1].id == "int" and ch[-1] == "cell_faces":
                    kw = {k.arg: ast.unparse(k.value) for k in v.keywords}
                    if kw == {"default_value": "config.NOT_AN_ID"} and len(a) == 3 and ast.unparse(a[2]) == "1":
                        return "amap2", None, "[]"
        raise self.err(f"unsupported initial value {ast.unparse(v)[:70]}")

    def stmt(self, st, env, ind, loop_env):
        L = []
        # ---- stores into self attributes / subscripts
        if isinstance(st, ast.Assign) and len(st.targets) == 1:
            t, v = st.targets[0], st.value
            # tuple unpacking
            if isinstance(t, ast.Tuple) and all(isinstance(e, ast.Name) for e in t.elts):
                if isinstance(v, ast.Tuple) and len(v.elts) == len(t.elts):
                    vals = [self.cx(e, env) for e in v.elts]
                    for name, (e, ty) in zip(t.elts, vals):
                        if ty.rstrip("*") != "nat": raise self.err(f"unpacked value of type {ty}")
                        x = self.bind(name.id, env, loop_env, "nat")
                        env[name.id] = (x, "nat")
                        L.append(f"{ind}let {x} := {e}")
                    return L
                if isinstance(v, ast.Tuple) and len(v.elts) != len(t.elts): raise self.err("unpacking of a tuple of another length")
                # self.m2b_x, self.b2m_x = dict(), dict() handled below; `a,b,c,d = <list>`
                e, ty = self.cx_atom(v, env)
                if ty != "list": raise self.err(f"unpacking of a {ty}")
                for i, name in enumerate(t.elts):
                    x = self.bind(name.id, env, loop_env, "nat")
                    L.append(f"{ind}let {x} := unpack {e} {i}")
                return L
            if isinstance(t, ast.Tuple) and isinstance(v, ast.Tuple) and len(t.elts) == len(v.elts) and all(isinstance(e, ast.Attribute) for e in t.elts):
                for tt, vv in zip(t.elts, v.elts):
                    L += self.stmt(ast.Assign([tt], vv), env, ind, loop_env)
                return L
            if isinstance(t, ast.Name):
                if self._is_container_init(v):
                    ty, elem, init = self.init_value(v, env)
                    f0 = self.field(t.id)
                    c = f0[1] if f0 else (self._cname(t.id) if hasattr(self, "_cname") else t.id)
                    self._declare(t.id, c, ty, elem, local=True)
                    L.append(f"{ind}let s := {{ s with {c} := {init} }}")
                    return L
                e, ty = self.cx(v, env)
                ty = ty.rstrip("*")
                if ty not in ("nat", "list", "bool"): raise self.err(f"local of type {ty}")
                if isinstance(v, ast.Subscript) and isinstance(v.value, ast.Attribute):
                    r = resolve(self.ctx, v.value)
                    if r and r[0] == "mesh" and r[1] == "cells": self.cellvars.add(t.id)
                x = self.bind(t.id, env, loop_env, ty)
                L.append(f"{ind}let {x} := {e}")
                return L
            if isinstance(t, ast.Attribute):
                r = resolve(self.ctx, t)
                if not r or r[0] != "own": raise self.err(f"store into {ast.unparse(t)}")
                ty, elem, init = self.init_value(v, env)
                self._declare(r[1], r[1].lstrip("_"), ty, elem)
                L.append(f"{ind}let s := {{ s with {r[1].lstrip('_')} := {init} }}")
                return L
            if isinstance(t, ast.Subscript):
                f = self._target_field(t.value)
                if f is None: raise self.err(f"store into {ast.unparse(t)[:50]}")
                if f[2] == "dict":
                    k, tk = self.cx_atom(t.slice, env)
                    # X[k] = list(X[k])
                    if isinstance(v, ast.Call) and isinstance(v.func, ast.Name) and v.func.id == "list" and len(v.args) == 1 \
                            and ast.unparse(v.args[0]) == ast.unparse(t):
                        if f[3] == "set": return [f"{ind}let s := {{ s with {f[1]} := dListOfSet s.{f[1]} {k} }}"]
                        return ["NOOP"]
                    raise self.err(f"store {ast.unparse(st)[:60]}")
                if f[2] == "amap2":
                    if not (isinstance(t.slice, ast.Tuple) and len(t.slice.elts) == 2): raise self.err("attribute key is not a pair")
                    a = [self.cx_atom(e, env) for e in t.slice.elts]; val = self.cx_atom(v, env)
                    if any(x[1] != "nat" for x in a + [val]): raise self.err("attribute store types")
                    return [f"{ind}let s := {{ s with {f[1]} := aSet s.{f[1]} ({a[0][0]}, {a[1][0]}) {val[0]} }}"]
                if f[2] == "amap":
                    k = self.cx_atom(t.slice, env); val = self.cx_atom(v, env)
                    if k[1] != "nat" or val[1] != "nat": raise self.err("map store types")
                    return [f"{ind}let s := {{ s with {f[1]} := aSet s.{f[1]} {k[0]} {val[0]} }}"]
                if f[2] == "flags":
                    if not (isinstance(v, ast.Constant) and v.value is True): raise self.err("flag stored with something else than True")
                    k = self.cx_atom(t.slice, env)
                    if k[1] != "nat": raise self.err("flag key type")
                    kk = k[0] if k[0].isalnum() else k[0] if k[0].startswith("(") else f"({k[0]})"
                    return [f"{ind}let s := {{ s with {f[1]} := flagSet s.{f[1]} {kk} }}"]
                raise self.err(f"store into a {f[2]}")
        if isinstance(st, ast.AugAssign):
            t = st.target
            if isinstance(st.op, ast.BitOr) and isinstance(t, ast.Subscript):
                f = self._target_field(t.value)
                if f and f[2] == "dict" and f[3] == "set":
                    k = self.cx_atom(t.slice, env); val = self.cx_atom(st.value, env)
                    if k[1] != "nat" or val[1] != "list": raise self.err("|= types")
                    return [f"{ind}let s := {{ s with {f[1]} := dUnion s.{f[1]} {k[0]} {val[0]} }}"]
            if isinstance(st.op, ast.Add) and isinstance(st.value, ast.List) and len(st.value.elts) == 1:
                return self.stmt(ast.Expr(ast.Call(ast.Attribute(t, "append", ast.Load()), [st.value.elts[0]], [])), env, ind, loop_env)
            raise self.err(f"unsupported in-place update {ast.unparse(st)[:60]}")
        if isinstance(st, ast.Expr) and isinstance(st.value, ast.Call) and isinstance(st.value.func, ast.Attribute):
            c = st.value
            meth, recv = c.func.attr, c.func.value
            if meth in ("append", "add") and len(c.args) == 1 and not c.keywords:
                if isinstance(recv, ast.Subscript):
                    f = self._target_field(recv.value)
                    if f and f[2] == "dict":
                        if (meth == "append") != (f[3] == "list"): raise self.err(f".{meth} on a dict of {f[3]}s")
                        k = self.cx_atom(recv.slice, env); val = self.cx_atom(c.args[0], env)
                        if k[1] != "nat" or val[1] != "nat": raise self.err(f".{meth} types")
                        op = "dAppend" if meth == "append" else "dAdd"
                        return [f"{ind}let s := {{ s with {f[1]} := {op} s.{f[1]} {k[0]} {val[0]} }}"]
                f = self._target_field(recv)
                if f and f[2] == "list":
                    val = self.cx_atom(c.args[0], env)
                    if val[1] != "nat": raise self.err(f".{meth} of a {val[1]}")
                    return [f"{ind}let s := {{ s with {f[1]} := s.{f[1]} ++ [{val[0]}] }}"]
            # super().<same method>() : the inherited (surface) part
            if isinstance(recv, ast.Call) and isinstance(recv.func, ast.Name) and recv.func.id == "super" and meth == self.fn.name and not c.args:
                self.u.outside.append(f"{self.fn.name}: super().{meth}() (inherited surface/polyline part)")
                return ["NOOP"]
        if isinstance(st, ast.For):
            return self.cfor(st, env, ind)
        if isinstance(st, ast.If):
            return self.cif(st, env, ind, loop_env)
        raise self.err(f"unsupported statement {ast.unparse(st)[:80]}")

    def _is_container_init(self, v):
        if isinstance(v, ast.List) and not v.elts: return True
        if isinstance(v, ast.Dict) and not v.keys: return True
        return isinstance(v, ast.Call) and isinstance(v.func, ast.Name) and v.func.id in ("dict", "set", "list") and not v.args and not v.keywords \
            or (isinstance(v, ast.Call) and isinstance(v.func, ast.Name) and v.func.id == "dict")

    def _declare(self, attr, lean, ty, elem, local=False):
        f = self.field(attr)
        if f is None:
            self.fields.append((attr, lean, ty, elem))
        elif (f[2], f[3]) != (ty, elem):
            raise self.err(f"self.{attr} is stored with values of different kinds ({f[2]}/{f[3]} then {ty}/{elem})")

    def _target_field(self, node):
        if isinstance(node, ast.Name): return self.field(node.id)
        if isinstance(node, ast.Attribute):
            r = resolve(self.ctx, node)
            if r and r[0] == "own": return self.field(r[1])
        return None

    def cfor(self, st, env, ind):
        if st.orelse: raise self.err("for/else")
        inner = dict(env)
        pre = []
        it, tg = st.iter, st.target
        enum = isinstance(it, ast.Call) and isinstance(it.func, ast.Name) and it.func.id == "enumerate" and len(it.args) == 1
        if enum:
            if not (isinstance(tg, ast.Tuple) and len(tg.elts) == 2 and all(isinstance(e, ast.Name) for e in tg.elts)):
                raise self.err("enumerate loop target")
            src = it.args[0]
            r = resolve(self.ctx, src) if isinstance(src, ast.Attribute) else None
            if r and r[0] == "mesh" and r[1] in MESH_LISTS:
                n = {"cells": "nC", "faces": "nF", "edges": "nE"}[r[1]]
                xi = self.fresh(); inner[tg.elts[0].id] = (xi, "nat")
                xv = self.fresh(); inner[tg.elts[1].id] = (xv, "list")
                if r[1] == "cells": self.cellvars.add(tg.elts[1].id)
                iter_txt, var = f"(List.range m.{n})", xi
                pre.append(f"let {xv} := m.{MESH_LISTS[r[1]]} {xi}")
            else:
                e, t = self.cx_atom(src, env)
                if t != "list": raise self.err(f"enumerate of a {t}")
                iter_txt, var = f"({e}.zipIdx)", "p"
                xi = self.fresh(); inner[tg.elts[0].id] = (xi, "nat")
                xv = self.fresh(); inner[tg.elts[1].id] = (xv, "nat")
                pre += [f"let {xi} := p.2", f"let {xv} := p.1"]
        else:
            if not isinstance(tg, ast.Name): raise self.err("loop target")
            f = self._target_field(it)
            if f is not None:
                if f[2] != "list": raise self.err(f"loop over a stored {f[2]}")
                e, t = f"s.{f[1]}", "list"
            else:
                e, t = self.cx_atom(it, env)
            if t != "list": raise self.err(f"loop over a {t}")
            if e.startswith("(") or "." not in e and " " not in e: iter_txt = e
            else: iter_txt = f"({e})"
            var = self.fresh(); inner[tg.id] = (var, "nat")
        for x in self._assigned(st.body):
            if x in env: raise self.err(f"local {x} bound outside the loop is reassigned inside it (loop-carried local)")
        body = self.block(st.body, inner, ind + "  ", env)
        body = [b for b in body if b != "NOOP"]
        if not body and not [b for b in self.block_raw(st.body)]:
            pass
        if not body:
            return ["NOOP"]                      # a loop of recognised no-ops (`X[k] = list(X[k])` on list values)
        out = [f"{ind}let s := {iter_txt}.foldl (fun s {var} =>"]
        out += [f"{ind}  {p}" for p in pre]
        out += body
        out.append(f"{ind}  s) s")
        return out

    def block_raw(self, stmts):
        return _strip(stmts)

    @staticmethod
    def _assigned(stmts):
        out = []
        for st in stmts:
            for x in ast.walk(st):
                if isinstance(x, ast.Name) and isinstance(x.ctx, ast.Store) and x.id not in out: out.append(x.id)
        return out

    def _cell_len_test(self, test):
        """`len(<cell variable>) == K` -> K"""
        if isinstance(test, ast.Compare) and len(test.ops) == 1 and isinstance(test.ops[0], ast.Eq):
            a, b = test.left, test.comparators[0]
            if isinstance(a, ast.Constant): a, b = b, a
            if isinstance(a, ast.Call) and isinstance(a.func, ast.Name) and a.func.id == "len" and len(a.args) == 1 \
                    and isinstance(a.args[0], ast.Name) and a.args[0].id in self.cellvars \
                    and isinstance(b, ast.Constant) and isinstance(b.value, int) and not isinstance(b.value, bool):
                return b.value
        return None

    def cif(self, st, env, ind, loop_env, tail=0):
        k = self._cell_len_test(st.test)
        c, tc = self.cx(st.test, env)
        tc = tc.rstrip("*")
        if tc != "bool": raise self.err(f"condition of type {tc}")
        if not c.startswith("("): c = f"({c})"
        outside = [f"{ind}    let s := {{ s with outside := true }}"]
        e1, e2 = dict(env), dict(env)
        if k == 4:
            if not st.orelse: raise self.err("`if len(C)==4` without the branch for the other cells")
            a = self.block(st.body, e1, ind + "    ", loop_env)
            b = outside
            self.u.outside.append(f"{self.fn.name}: else-branch of `{ast.unparse(st.test)}` ({len(st.orelse) - tail} statement(s), non-tetrahedral cells)")
        elif k is not None:
            a = outside
            b = self.block(st.orelse, e2, ind + "    ", loop_env)
            self.u.outside.append(f"{self.fn.name}: then-branch of `{ast.unparse(st.test)}` ({len(st.body) - tail} statement(s), non-tetrahedral cells)")
            if not st.orelse: raise self.err("cell-length test without else")
        else:
            a = self.block(st.body, e1, ind + "    ", loop_env)
            b = self.block(st.orelse, e2, ind + "    ", loop_env)
        a = [x for x in a if x != "NOOP"]; b = [x for x in b if x != "NOOP"]
        out = [f"{ind}let s := if {c} then"] + a + [f"{ind}    s", f"{ind}  else"] + b + [f"{ind}    s"]
        return out

    # -- whole state-building method ------------------------------------------------------------------------------------
    def compile_state(self, body=None, struct=None):
        body = _body(self.fn) if body is None else body
        env = {}
        lines = [x for x in self.block(body, env, "  ", None) if x != "NOOP"]
        struct = struct or "".join(w.capitalize() for w in self.lean.split("_")) + "St"
        flds = "".join(f"  {f[1]} : {LEAN_TY[f[2]]}\n" for f in self.fields)
        init = ", ".join(f"{f[1]} := []" for f in self.fields)
        txt = (f"/-- state written by `{self.fn.name}` (fields in order of first store) -/\nstructure {struct} where\n{flds}  outside : Bool\n\n"
               f"/-- `{self.fn.name}`, statement by statement -/\n"
               f"def {self.lean} (m : Mesh) : {struct} :=\n"
               f"  let s : {struct} := {{ {init}{', ' if init else ''}outside := false }}\n" + "\n".join(lines) + "\n  s\n")
        self.u.text.append(txt)
        for f in self.fields:
            if f[0].startswith("_"):
                self.u.fields[f[0]] = (self.lean, f[1], f[2], f[3], self.fn.name)
        return {"fields": [f"{f[1]}:{f[2]}" + (f"/{f[3]}" if f[3] else "") for f in self.fields], "statements": len(lines)}


# ------------------------------------------------------------------------------------------------------------------
# round 5: boundary extraction (`_BoundaryConnectivity._extract_surface_boundary`, `.__init__`, `extract_boundary_of_volume`)
# ------------------------------------------------------------------------------------------------------------------
LEAN_TY.update({"set": "List Nat", "ptlist": "List Nat", "facelist": "List (List Nat)"})


class BFn(Fn):
    """adds: a local `RawMeshData()` object (its `.vertices` / `.faces` become the fields `<obj>_vertices` (volume ids of the
    appended points) and `<obj>_faces`), local sets (`set()` -> insertion log, iterated through `eraseDups`), `int -> int` dicts read as
    values, points (`<mesh>.vertices[v]`, `p - q`, `det_3x3(..) > 0`), generator unpacking `a,b,c = (E(x) for x in L)`,
    `[x for x in L1 if x not in L2][0]`, `tuple(E(v) for v in L)`, `L[::-1]`, `faces[i] = F`; ctx `func`: the mesh is the parameter."""

    def __init__(self, unit, ctx, fn, lean_name, mesh_param=None, eid=False):
        super().__init__(unit, ctx, fn, lean_name)
        self.objs = set()
        self.mesh_param = mesh_param
        self.int_entries = set()
        self.eid = eid

    def _cname(self, pyname):
        self.ncont = getattr(self, "ncont", 0)
        self.ncont += 1
        return f"c{self.ncont - 1}"

    def res(self, node):
        ch = _chain(node)
        if not ch: return None
        if ch[0] in self.objs and len(ch) == 2: return ("obj", f"{ch[0]}_{ch[1]}")
        if self.ctx == "func" and ch[0] == self.mesh_param:
            if len(ch) == 3 and ch[1] == "connectivity": return ("conn", ch[2])
            if len(ch) == 2: return ("mesh", ch[1])
            return None
        return resolve(self.ctx, node)

    def _target_field(self, node):
        if isinstance(node, ast.Attribute):
            r = self.res(node)
            if r and r[0] == "obj": return self.field(r[1])
            if r and r[0] == "own": return self.field(r[1])
            return None
        return super()._target_field(node)

    # -- expressions
    def cx(self, n, env):
        if isinstance(n, ast.Name) and n.id not in env:
            f = self.field(n.id)
            if f is not None and f[2] in ("list", "set"):
                return (f"s.{f[1]}" if f[2] == "list" else f"s.{f[1]}.eraseDups"), "list*"
        if isinstance(n, ast.Subscript):
            v, sl = n.value, n.slice
            r = self.res(v) if isinstance(v, ast.Attribute) else None
            if r and r[0] == "mesh" and r[1] == "vertices":
                i, ti = self.cx_atom(sl, env)
                if ti != "nat": raise self.err("vertex index type")
                return f"m.pt {i}", "pt*"
            if r and r[0] == "mesh" and r[1] in MESH_LISTS and not isinstance(sl, ast.Slice):
                i, ti = self.cx_atom(sl, env)
                if ti != "nat": raise self.err("container index is not an int")
                return f"(m.{MESH_LISTS[r[1]]} {i})", "list"
            f = self._target_field(v)
            if f is not None and f[2] == "amap" and not isinstance(sl, ast.Slice):
                i, ti = self.cx_atom(sl, env)
                if ti != "nat": raise self.err("map key type")
                return f"aGetD s.{f[1]} {i}", "nat*"
            # L[::-1]
            if isinstance(sl, ast.Slice) and sl.lower is None and sl.upper is None and isinstance(sl.step, ast.UnaryOp) \
                    and isinstance(sl.step.op, ast.USub) and isinstance(sl.step.operand, ast.Constant) and sl.step.operand.value == 1:
                e, t = self.cx_atom(v, env)
                if t != "list": raise self.err("reversal of a non-list")
                return f"{e}.reverse", "list*"
            # [x for x in L1 if x not in L2][0]
            if isinstance(v, ast.ListComp) and isinstance(sl, ast.Constant) and sl.value == 0 and len(v.generators) == 1:
                g = v.generators[0]
                if isinstance(g.target, ast.Name) and isinstance(v.elt, ast.Name) and v.elt.id == g.target.id and len(g.ifs) == 1 \
                        and isinstance(g.ifs[0], ast.Compare) and len(g.ifs[0].ops) == 1 and isinstance(g.ifs[0].ops[0], ast.NotIn) \
                        and isinstance(g.ifs[0].left, ast.Name) and g.ifs[0].left.id == g.target.id:
                    a, ta = self.cx_atom(g.iter, env); b, tb = self.cx_atom(g.ifs[0].comparators[0], env)
                    if ta != "list" or tb != "list": raise self.err("filter comprehension types")
                    return f"firstNotInD {a} {b}", "nat*"
        if isinstance(n, ast.BinOp) and isinstance(n.op, ast.Sub):
            a, ta = self.cx_atom(n.left, env); b, tb = self.cx_atom(n.right, env)
            if ta == tb == "pt": return f"{a}.sub {b}", "pt*"
            raise self.err(f"subtraction of {ta},{tb}")
        if isinstance(n, ast.Call) and isinstance(n.func, ast.Name) and n.func.id == "det_3x3" and len(n.args) == 3 and not n.keywords:
            args = [self.cx_atom(a, env) for a in n.args]
            if any(t != "pt" for _, t in args): raise self.err("det_3x3 of non-points")
            return "det3 " + " ".join(e for e, _ in args), "rat*"
        if isinstance(n, ast.Compare) and len(n.ops) == 1 and isinstance(n.ops[0], (ast.Lt, ast.Gt)):
            l, r = n.left, n.comparators[0]
            if isinstance(n.ops[0], ast.Gt): l, r = r, l
            if isinstance(l, ast.Constant) and l.value == 0 and not isinstance(l.value, bool):
                e, t = self.cx_atom(r, env)
                if t == "rat": return f"decide (0 < {e})", "bool"
        # tuple(E(v) for v in L) / [E(v) for v in L]
        g = None
        if isinstance(n, ast.Call) and isinstance(n.func, ast.Name) and n.func.id in ("tuple", "list") and len(n.args) == 1 \
                and isinstance(n.args[0], (ast.GeneratorExp, ast.ListComp)): g = n.args[0]
        if g is not None and len(g.generators) == 1 and not g.generators[0].ifs and isinstance(g.generators[0].target, ast.Name):
            L, tL = self.cx_atom(g.generators[0].iter, env)
            if tL != "list": raise self.err("comprehension over a non-list")
            x = self.fresh()
            e2 = dict(env); e2[g.generators[0].target.id] = (x, "nat")
            body, tb = self.cx_atom(g.elt, e2)
            if tb != "nat": raise self.err("comprehension element type")
            return f"{L}.map (fun {x} => {body})", "list*"
        if isinstance(n, ast.Attribute):
            r = self.res(n)
            if r and r[0] == "mesh" and r[1] in MESH_RANGES: return f"(List.range m.{MESH_RANGES[r[1]]})", "list"
            if r and r[0] == "mesh" and ("mesh", r[1]) in self.u.funcs and self.u.funcs[("mesh", r[1])]["params"] == 0:
                return f"({self.u.funcs[('mesh', r[1])]['lean']} m)", self.u.funcs[("mesh", r[1])]["ret"]
        return super().cx(n, env)

    def ccall(self, n, env):
        f = n.func
        r = self.res(f) if isinstance(f, ast.Attribute) else None
        if r and r[0] == "conn" and not n.keywords:
            g = self.u.funcs.get(("conn", r[1]))
            if g is not None:
                args = [self.cx_atom(a, env) for a in n.args]
                if len(args) != g["params"] or any(t != "nat" for _, t in args): raise self.err(f"call of {r[1]}")
                return f"{g['lean']} m" + "".join(" " + e for e, _ in args), g["ret"] + "*"
        if self.eid and r and r[0] == "own" and r[1] == "edge_id" and len(n.args) == 2 and not n.keywords:
            args = [self.cx_atom(a, env) for a in n.args]
            if any(t != "nat" for _, t in args): raise self.err("edge_id arguments")
            return f"eid {args[0][0]} {args[1][0]}", "nat*"
        return super().ccall(n, env)

    # -- statements
    def stmt(self, st, env, ind, loop_env):
        # mesh = self._extract_surface_boundary(): the maps it rebinds on self become readable / writable here
        if isinstance(st, ast.Assign) and len(st.targets) == 1 and isinstance(st.targets[0], ast.Name) and isinstance(st.value, ast.Call) \
                and isinstance(st.value.func, ast.Attribute) and not st.value.args:
            r = self.res(st.value.func)
            callee = self.u.bstates.get(r[1]) if (r and r[0] == "own") else None
            if callee is not None:
                out = []
                for (attr, lean, ty, elem) in callee["fields"]:
                    if ty == "amap" and attr not in callee["locals"]:
                        self._declare(attr, lean, ty, elem)
                        out.append(f"{ind}let s := {{ s with {lean} := ({callee['lean']} m).{lean} }}")
                self.boundary_mesh_var = st.targets[0].id
                return out
        if isinstance(st, ast.Expr) and isinstance(st.value, ast.Call) and isinstance(st.value.func, ast.Attribute):
            c = st.value
            recv = c.func.value
            if isinstance(recv, ast.Call) and isinstance(recv.func, ast.Name) and recv.func.id == "super" and c.func.attr == self.fn.name \
                    and len(c.args) == 1 and isinstance(c.args[0], ast.Name) and c.args[0].id == getattr(self, "boundary_mesh_var", None):
                self.u.outside.append(f"{self.fn.name}: super().{c.func.attr}({c.args[0].id}) (surface connectivity of the boundary mesh: C01)")
                return ["NOOP"]
        if isinstance(st, ast.Assign) and len(st.targets) == 1:
            t, v = st.targets[0], st.value
            # obj = RawMeshData()
            if isinstance(t, ast.Name) and isinstance(v, ast.Call) and isinstance(v.func, ast.Name) and v.func.id == "RawMeshData" and not v.args:
                self.objs.add(t.id)
                o = f"obj{len(self.objs) - 1}"          # local names are canonical: renaming a local does not change the generated text
                self._declare(f"{t.id}_vertices", f"{o}_vertices", "ptlist", None)
                self._declare(f"{t.id}_faces", f"{o}_faces", "facelist", None)
                return [f"{ind}let s := {{ s with {o}_vertices := [] }}", f"{ind}let s := {{ s with {o}_faces := [] }}"]
            # x = set()
            if isinstance(t, ast.Name) and isinstance(v, ast.Call) and isinstance(v.func, ast.Name) and v.func.id == "set" and not v.args:
                c = self._cname(t.id)
                self._declare(t.id, c, "set", None)
                return [f"{ind}let s := {{ s with {c} := [] }}"]
            # a, b, c = (E(x) for x in L)
            if isinstance(t, ast.Tuple) and all(isinstance(e, ast.Name) for e in t.elts) and isinstance(v, ast.GeneratorExp) \
                    and len(v.generators) == 1 and not v.generators[0].ifs and isinstance(v.generators[0].target, ast.Name):
                L, tL = self.cx_atom(v.generators[0].iter, env)
                if tL != "list": raise self.err("generator over a non-list")
                out = []
                for i, name in enumerate(t.elts):
                    e2 = dict(env); e2[v.generators[0].target.id] = (f"(unpack {L} {i})", "nat")
                    e, ty = self.cx(v.elt, e2)
                    ty = ty.rstrip("*")
                    if ty not in ("nat", "pt"): raise self.err(f"generator element of type {ty}")
                    x = self.bind(name.id, env, loop_env, ty)
                    out.append(f"{ind}let {x} := {e}")
                return out
            # local of point type / map value
            if isinstance(t, ast.Name) and not self._is_container_init(v):
                e, ty = self.cx(v, env)
                ty = ty.rstrip("*")
                if ty == "pt":
                    x = self.bind(t.id, env, loop_env, ty)
                    return [f"{ind}let {x} := {e}"]
            # faces[i] = F
            if isinstance(t, ast.Subscript):
                f = self._target_field(t.value)
                if f is not None and f[2] == "facelist":
                    i, ti = self.cx_atom(t.slice, env); e, te = self.cx_atom(v, env)
                    if ti != "nat" or te != "list": raise self.err("face store types")
                    return [f"{ind}let s := {{ s with {f[1]} := listSet s.{f[1]} {i} {e} }}"]
            # self.x = None (declaration of an instance attribute, rebound later)
            if isinstance(t, ast.Attribute) and isinstance(v, ast.Constant) and v.value is None:
                r = self.res(t)
                if r and r[0] == "own": return ["NOOP"]
            if isinstance(t, ast.Attribute):
                r = self.res(t)
                if r and r[0] == "own" and r[1] == "complete_mesh" and isinstance(v, ast.Name): return ["NOOP"]
        if isinstance(st, ast.Expr) and isinstance(st.value, ast.Call) and isinstance(st.value.func, ast.Attribute):
            c = st.value
            meth, recv = c.func.attr, c.func.value
            f = self._target_field(recv)
            if f is not None and meth in ("append", "add") and len(c.args) == 1 and not c.keywords:
                a = c.args[0]
                if f[2] == "set" and meth == "add":
                    e, t = self.cx_atom(a, env)
                    if t != "nat": raise self.err("set element type")
                    return [f"{ind}let s := {{ s with {f[1]} := s.{f[1]} ++ [{e}] }}"]
                if f[2] == "ptlist" and meth == "append":
                    r = self.res(a.value) if isinstance(a, ast.Subscript) and isinstance(a.value, ast.Attribute) else None
                    if not (r and r[0] == "mesh" and r[1] == "vertices"): raise self.err("appended point is not a vertex of the volume")
                    e, t = self.cx_atom(a.slice, env)
                    return [f"{ind}let s := {{ s with {f[1]} := s.{f[1]} ++ [{e}] }}"]
                if f[2] == "facelist" and meth == "append":
                    e, t = self.cx_atom(a, env)
                    if t == "nat":
                        self.int_entries.add(f[0])
                        return [f"{ind}let s := {{ s with {f[1]} := s.{f[1]} ++ [[{e}]] }}"]
                    if t != "list": raise self.err("appended face type")
                    return [f"{ind}let s := {{ s with {f[1]} := s.{f[1]} ++ [{e}] }}"]
            if meth == "prepare" and isinstance(recv, ast.Name) and recv.id in self.objs and not c.args:
                self.u.outside.append(f"{self.fn.name}: {recv.id}.prepare() (RawMeshData preparation: C02)")
                return ["NOOP"]
        if isinstance(st, ast.Return):
            self.returned = ast.unparse(st.value) if st.value is not None else None
            return ["NOOP"]
        return super().stmt(st, env, ind, loop_env)

    def cfor(self, st, env, ind):
        it = st.iter
        enum = isinstance(it, ast.Call) and isinstance(it.func, ast.Name) and it.func.id == "enumerate" and len(it.args) == 1
        if enum:
            f = self._target_field(it.args[0])
            if f is not None and f[2] == "facelist" and f[0] in self.int_entries:
                # enumerate over the faces container whose entries are (still) face ids: the entry is read as an int
                tg = st.target
                if not (isinstance(tg, ast.Tuple) and len(tg.elts) == 2 and all(isinstance(e, ast.Name) for e in tg.elts)): raise self.err("enumerate loop target")
                inner = dict(env)
                xi = self.fresh(); inner[tg.elts[0].id] = (xi, "nat")
                xv = self.fresh(); inner[tg.elts[1].id] = (xv, "nat")
                for x in self._assigned(st.body):
                    if x in env: raise self.err(f"local {x} bound outside the loop is reassigned inside it (loop-carried local)")
                body = [b for b in self.block(st.body, inner, ind + "  ", env) if b != "NOOP"]
                return [f"{ind}let s := (s.{f[1]}.zipIdx).foldl (fun s p =>", f"{ind}  let {xi} := p.2", f"{ind}  let {xv} := unpack p.1 0"] + body + [f"{ind}  s) s"]
        return super().cfor(st, env, ind)

    def compile_state(self, body=None, struct=None, params="", args=""):
        """every top-level `for` loop becomes its own definition `<name>_loop<k> m s` (the bridges speak about the loops one by one)"""
        body = _strip(_body(self.fn) if body is None else body)
        struct = struct or "".join(w.capitalize() for w in self.lean.split("_")) + "St"
        main, loops, env, k = [], [], {}, 0
        for st in body:
            lines = [x for x in self.stmt(st, env, "  ", None) if x != "NOOP"]
            if isinstance(st, ast.For) and lines:
                k += 1
                loops.append((f"{self.lean}_loop{k}", ast.unparse(st).split("\n")[0], lines))
                main.append(f"  let s := {self.lean}_loop{k} m{args} s")
            else:
                main += lines
        flds = "".join(f"  {f[1]} : {LEAN_TY[f[2]]}\n" for f in self.fields)
        init = ", ".join(f"{f[1]} := []" for f in self.fields)
        txt = f"/-- state written by `{self.fn.name}` (fields in order of first store) -/\nstructure {struct} where\n{flds}  outside : Bool\n\n"
        for name, head, lines in loops:
            txt += f"/-- `{self.fn.name}`: the loop `{head}` -/\ndef {name} (m : Mesh){params} (s : {struct}) : {struct} :=\n" + "\n".join(lines) + "\n  s\n\n"
        txt += (f"/-- `{self.fn.name}`, statement by statement -/\n"
                f"def {self.lean} (m : Mesh){params} : {struct} :=\n"
                f"  let s : {struct} := {{ {init}{', ' if init else ''}outside := false }}\n" + "\n".join(main) + "\n  s\n")
        self.u.text.append(txt)
        return {"fields": [f"{f[1]}:{f[2]}" for f in self.fields], "statements": len(main) + sum(len(l[2]) for l in loops), "loops": len(loops),
                "returns": getattr(self, "returned", None)}


# ------------------------------------------------------------------------------------------------------------------
# accessors: `if self._X is None: self._compute(); return <expr>`
# ------------------------------------------------------------------------------------------------------------------
def _guard(st, ctx):
    """`if self._X is None: self._compute()` -> (X, compute)"""
    if isinstance(st, ast.If) and not st.orelse and len(st.body) == 1 and isinstance(st.test, ast.Compare) and len(st.test.ops) == 1 \
            and isinstance(st.test.ops[0], ast.Is) and isinstance(st.test.comparators[0], ast.Constant) and st.test.comparators[0].value is None:
        r = resolve(ctx, st.test.left) if isinstance(st.test.left, ast.Attribute) else None
        b = st.body[0]
        if r and r[0] == "own" and isinstance(b, ast.Expr) and isinstance(b.value, ast.Call) and not b.value.args:
            rc = resolve(ctx, b.value.func) if isinstance(b.value.func, ast.Attribute) else None
            if rc and rc[0] == "own": return r[1], rc[1]
    return None


def accessor(unit, ctx, fn, lean, level):
    """guarded read of one cache: `return self._X[arg]` / `return self._X` / the `cell_to_cell` comprehension"""
    body = _body(fn)
    params = [a.arg for a in fn.args.args][1:]
    if fn.args.vararg or fn.args.kwarg: raise TranslateError(f"{fn.name}: signature")
    if len(body) != 2: raise TranslateError(f"{fn.name}: expected a guard and a return, found {len(body)} statement(s)")
    g = _guard(body[0], ctx)
    if g is None or not isinstance(body[1], ast.Return) or body[1].value is None: raise TranslateError(f"{fn.name}: guard / return not recognised")
    attr, compute = g
    fld = unit.fields.get(attr)
    if fld is None: raise TranslateError(f"{fn.name}: guards self.{attr}, which no translated method stores")
    if fld[4] != compute: raise TranslateError(f"{fn.name}: the guard on self.{attr} calls {compute}, but {fld[4]} is the method that stores it")
    ret = body[1].value
    names = {p: f"x{i}" for i, p in enumerate(params)}
    ps = "".join(f" ({names[p]} : Nat)" for p in params)
    src = f"({fld[0]} m).{fld[1]}"

    def is_attr(n):
        r = resolve(ctx, n) if isinstance(n, ast.Attribute) else None
        return bool(r and r[0] == "own" and r[1] == attr)
    if is_attr(ret) and not params and fld[2] == "list":
        unit.text.append(f"/-- `{fn.name}` (property): guarded read of `{attr}` -/\ndef {lean} (m : Mesh) : List Nat := {src}\n")
        unit.funcs[(level, fn.name)] = {"lean": lean, "ret": "list", "params": 0}
        return {"reads": attr, "compute": compute}
    if isinstance(ret, ast.Subscript) and is_attr(ret.value) and isinstance(ret.slice, ast.Name) and ret.slice.id in names and len(params) == 1 and fld[2] == "dict":
        unit.text.append(f"/-- `{fn.name}`: guarded read of `{attr}[..]` -/\ndef {lean} (m : Mesh){ps} : List Nat :=\n  dGet {src} {names[ret.slice.id]}\n")
        unit.funcs[(level, fn.name)] = {"lean": lean, "ret": "list", "params": 1}
        return {"reads": attr, "compute": compute}
    if isinstance(ret, ast.Subscript) and is_attr(ret.value) and isinstance(ret.slice, ast.Name) and ret.slice.id in names and len(params) == 1 and fld[2] == "flags":
        unit.text.append(f"/-- `{fn.name}`: guarded read of the flag `{attr}[..]` -/\ndef {lean} (m : Mesh){ps} : Bool :=\n  flagGet {src} {names[ret.slice.id]}\n")
        unit.funcs[(level, fn.name)] = {"lean": lean, "ret": "bool", "params": 1}
        return {"reads": attr, "compute": compute}
    # [A[(c,i)] for i in range(len(cells[c])) if A[(c,i)] != config.NOT_AN_ID]
    if isinstance(ret, ast.ListComp) and len(ret.generators) == 1 and fld[2] == "amap2" and len(params) == 1:
        gen = ret.generators[0]
        ok = isinstance(gen.target, ast.Name) and len(gen.ifs) == 1 and isinstance(ret.elt, ast.Subscript) and is_attr(ret.elt.value)
        if ok:
            i = gen.target.id
            key = ret.elt.slice
            ok = isinstance(key, ast.Tuple) and [getattr(e, "id", None) for e in key.elts] == [params[0], i]
            t = gen.ifs[0]
            ok = ok and isinstance(t, ast.Compare) and len(t.ops) == 1 and isinstance(t.ops[0], ast.NotEq)
            if ok:
                sides = {ast.unparse(t.left), ast.unparse(t.comparators[0])}
                ok = sides == {ast.unparse(ret.elt), "config.NOT_AN_ID"}
            it = gen.iter
            ok = ok and isinstance(it, ast.Call) and isinstance(it.func, ast.Name) and it.func.id == "range" and len(it.args) == 1
            if ok:
                a = it.args[0]
                ok = isinstance(a, ast.Call) and isinstance(a.func, ast.Name) and a.func.id == "len" and len(a.args) == 1 \
                    and isinstance(a.args[0], ast.Subscript) and resolve(ctx, a.args[0].value) == ("mesh", "cells") \
                    and getattr(a.args[0].slice, "id", None) == params[0]
        if ok:
            unit.text.append(f"/-- `{fn.name}`: the stored entries of `{attr}[({params[0]}, i)]`, `i` over the local indices of the cell -/\n"
                             f"def {lean} (m : Mesh) (x0 : Nat) : List Nat :=\n"
                             f"  (List.range (m.cell x0).length).filterMap (fun x1 => aGet {src} (x0, x1))\n")
            unit.funcs[(level, fn.name)] = {"lean": lean, "ret": "list", "params": 1}
            return {"reads": attr, "compute": compute}
    raise TranslateError(f"{fn.name}: returned expression not recognised: {ast.unparse(ret)[:80]}")


def star_test(unit, fn):
    """`is_face_on_border(self, *args)`: `if len(args)==1: n = E1 else: n = E2 ; return n < 2`"""
    if not fn.args.vararg or [a.arg for a in fn.args.args] != ["self"]: raise TranslateError("is_face_on_border: signature")
    av = fn.args.vararg.arg
    body = _body(fn)
    if len(body) != 2 or not isinstance(body[0], ast.If) or not isinstance(body[1], ast.Return): raise TranslateError("is_face_on_border: shape")
    iff = body[0]
    t = iff.test
    if not (isinstance(t, ast.Compare) and len(t.ops) == 1 and isinstance(t.ops[0], ast.Eq)
            and {ast.unparse(t.left), ast.unparse(t.comparators[0])} == {f"len({av})", "1"}):
        raise TranslateError("is_face_on_border: test is not `len(args)==1`")
    if len(iff.body) != 1 or len(iff.orelse) != 1: raise TranslateError("is_face_on_border: branches")
    outs = []
    for br, one in ((iff.body[0], True), (iff.orelse[0], False)):
        if not (isinstance(br, ast.Assign) and len(br.targets) == 1 and isinstance(br.targets[0], ast.Name)): raise TranslateError("is_face_on_border: branch")
        nvar = br.targets[0].id
        f = Fn(unit, "mesh", fn, "is_face_on_border")
        f.n = 1
        v = copy.deepcopy(br.value)
        env = {}
        if one:
            class R(ast.NodeTransformer):
                def visit_Subscript(self, n):
                    if isinstance(n.value, ast.Name) and n.value.id == av and isinstance(n.slice, ast.Constant) and n.slice.value == 0:
                        return ast.copy_location(ast.Name("__arg0", ast.Load()), n)
                    return self.generic_visit(n)
            v = R().visit(v); env["__arg0"] = ("x0", "nat")
        else:
            class R2(ast.NodeTransformer):
                def visit_Starred(self, n):
                    return n
            env[av] = ("x0", "list")
        e, ty = f.cx(v, env)
        if ty.rstrip("*") != "nat": raise TranslateError("is_face_on_border: n is not an int")
        r = body[1].value
        f2 = Fn(unit, "mesh", fn, "is_face_on_border"); f2.n = 2
        c, tc = f2.cx(r, {nvar: ("x1", "nat")})
        if tc != "bool": raise TranslateError("is_face_on_border: return type")
        outs.append((e, c))
    (e1, c1), (e2, c2) = outs
    unit.text.append(f"/-- `is_face_on_border(F)` (one argument: a face id) -/\ndef is_face_on_border (m : Mesh) (x0 : Nat) : Bool :=\n  let x1 := {e1}\n  {c1}\n")
    unit.text.append(f"/-- `is_face_on_border(*vs)` (several arguments: the vertices of the face) -/\ndef is_face_on_border_star (m : Mesh) (x0 : List Nat) : Bool :=\n  let x1 := {e2}\n  {c2}\n")
    unit.funcs[("mesh", "is_face_on_border")] = {"lean": "is_face_on_border", "ret": "bool", "params": 1}
    return {"one": e1, "star": e2, "test": c1}


# ------------------------------------------------------------------------------------------------------------------
def _get(tree, qual):
    return T.find_def(tree, qual)


def _adjacent_cell_body(fn):
    """`if <cell_faces>.has_attribute("adjacent_cell"): self._adjC2C = <cell_faces>.get_attribute(..) else: <body>` -> body"""
    b = _body(fn)
    if len(b) == 1 and isinstance(b[0], ast.If) and isinstance(b[0].test, ast.Call) and isinstance(b[0].test.func, ast.Attribute) \
            and b[0].test.func.attr == "has_attribute" and len(b[0].body) == 1 and isinstance(b[0].body[0], ast.Assign) \
            and "get_attribute" in ast.unparse(b[0].body[0].value) and b[0].orelse:
        return b[0].orelse, True
    return b, False


def _edge_id_body(fn, unit):
    """drops the recognised tail `if config.sort_neighborhoods: self._sort_edge_neighborhoods()`"""
    b = _body(fn)
    if b and isinstance(b[-1], ast.If) and ast.unparse(b[-1].test) == "config.sort_neighborhoods" and not b[-1].orelse \
            and len(b[-1].body) == 1 and ast.unparse(b[-1].body[0]) == "self._sort_edge_neighborhoods()":
        unit.outside.append("_compute_edge_id: tail `if config.sort_neighborhoods: self._sort_edge_neighborhoods()` (own site)")
        return b[:-1]
    raise TranslateError("_compute_edge_id: the tail `if config.sort_neighborhoods: self._sort_edge_neighborhoods()` was not found")


HEADER = "import Mouette.Model.VolSource\n"


def site_volume_bodies():
    tree, _ = T.load(VOL)
    u = Unit()
    C = "VolumeMesh._Connectivity."
    d = {}
    d["_compute_cell_adj"] = Fn(u, "conn", _get(tree, C + "_compute_cell_adj"), "compute_cell_adj").compile_state()
    d["face_to_cells"] = accessor(u, "conn", _get(tree, C + "face_to_cells"), "face_to_cells", "conn")
    d["cell_to_face"] = accessor(u, "conn", _get(tree, C + "cell_to_face"), "cell_to_face", "conn")
    d["_compute_connectivity"] = Fn(u, "conn", _get(tree, C + "_compute_connectivity"), "compute_connectivity").compile_state()
    d["vertex_to_cell"] = accessor(u, "conn", _get(tree, C + "vertex_to_cell"), "vertex_to_cell", "conn")
    fe = _get(tree, C + "_compute_edge_id")
    d["_compute_edge_id"] = Fn(u, "conn", fe, "compute_edge_id").compile_state(body=_edge_id_body(fe, u))
    fa = _get(tree, C + "_compute_adjacent_cell")
    body, reuse = _adjacent_cell_body(fa)
    if reuse: u.outside.append("_compute_adjacent_cell: reuse of a stored `adjacent_cell` attribute (`has_attribute` branch)")
    d["_compute_adjacent_cell"] = Fn(u, "conn", fa, "compute_adjacent_cell").compile_state(body=body)
    d["cell_to_cell"] = accessor(u, "conn", _get(tree, C + "cell_to_cell"), "cell_to_cell", "conn")
    d["is_face_on_border"] = star_test(u, _get(tree, "VolumeMesh.is_face_on_border"))
    d["_compute_interior_boundary_faces"] = Fn(u, "mesh", _get(tree, "VolumeMesh._compute_interior_boundary_faces"),
                                               "compute_interior_boundary_faces").compile_state()
    for p in ("boundary_faces", "interior_faces"):
        fn = _get(tree, "VolumeMesh." + p)
        if [ast.unparse(x) for x in fn.decorator_list] != ["property"]: raise TranslateError(f"{p} is not a property")
        d[p] = accessor(u, "mesh", fn, p, "mesh")
    d["_compute_interior_boundary_vertices"] = Fn(u, "mesh", _get(tree, "VolumeMesh._compute_interior_boundary_vertices"),
                                                  "compute_interior_boundary_vertices").compile_state()
    d["_compute_interior_boundary_edges"] = Fn(u, "mesh", _get(tree, "VolumeMesh._compute_interior_boundary_edges"),
                                               "compute_interior_boundary_edges").compile_state()
    for p in ("boundary_vertices", "interior_vertices", "boundary_edges", "interior_edges"):
        fn = _get(tree, "VolumeMesh." + p)
        if [ast.unparse(x) for x in fn.decorator_list] != ["property"]: raise TranslateError(f"{p} is not a property")
        d[p] = accessor(u, "mesh", fn, p, "mesh")
    d["is_vertex_on_border"] = accessor(u, "mesh", _get(tree, "VolumeMesh.is_vertex_on_border"), "is_vertex_on_border", "mesh")
    out = "namespace Mouette.Generated.C03S\nopen Mouette.Vol Mouette.VolS\n\n" + "\n".join(u.text) + "\nend Mouette.Generated.C03S\n"
    _, sha = T.write_generated("C03S", out, header=HEADER)
    return {"sha": sha, "functions": d, "outside_the_fragment": u.outside}


BND_HEADER = "import Mouette.Generated.C03S\n"
BOR = "mouette/processing/border.py"


def site_boundary_bodies():
    """round 5: `_BoundaryConnectivity._extract_surface_boundary`, `.__init__`, `processing.border.extract_boundary_of_volume`"""
    tree, _ = T.load(VOL)
    u = Unit()
    # the accessors these bodies call (compiled by the first site; same names)
    u.funcs[("conn", "face_to_cells")] = {"lean": "C03S.face_to_cells", "ret": "list", "params": 1}
    u.funcs[("mesh", "boundary_faces")] = {"lean": "C03S.boundary_faces", "ret": "list", "params": 0}
    u.funcs[("mesh", "boundary_edges")] = {"lean": "C03S.boundary_edges", "ret": "list", "params": 0}
    d = {}
    B = "VolumeMesh._BoundaryConnectivity."
    f1 = BFn(u, "bc", _get(tree, B + "_extract_surface_boundary"), "extract_surface_boundary")
    d["_extract_surface_boundary"] = f1.compile_state()
    if d["_extract_surface_boundary"]["returns"] not in ("SurfaceMesh(boundary)",) and not (d["_extract_surface_boundary"]["returns"] or "").startswith("SurfaceMesh("):
        raise TranslateError(f"_extract_surface_boundary returns {d['_extract_surface_boundary']['returns']}")
    u.bstates["_extract_surface_boundary"] = {"lean": "extract_surface_boundary", "fields": list(f1.fields),
                                               "locals": {f[0] for f in f1.fields if not f[0].startswith(("m2b_", "b2m_"))}}
    f2 = BFn(u, "bc", _get(tree, B + "__init__"), "bc_init", eid=True)
    d["__init__"] = f2.compile_state(params=" (eid : Nat → Nat → Nat)", args=" eid")
    tree2, _ = T.load(BOR)
    fn3 = _get(tree2, "extract_boundary_of_volume")
    ps = [a.arg for a in fn3.args.args]
    if len(ps) != 1: raise TranslateError("extract_boundary_of_volume: signature")
    f3 = BFn(u, "func", fn3, "extract_boundary_of_volume", mesh_param=ps[0])
    d["extract_boundary_of_volume"] = f3.compile_state()
    ret = d["extract_boundary_of_volume"]["returns"] or ""
    obj = sorted(f3.objs)
    maps = [f[0] for f in f3.fields if f[2] == "amap"]
    if len(obj) != 1 or len(maps) != 2 or ret.replace(" ", "") != f"(SurfaceMesh({obj[0]}),{maps[0]},{maps[1]})":
        raise TranslateError(f"extract_boundary_of_volume returns {ret}")
    out = "namespace Mouette.Generated.C03B\nopen Mouette.Vol Mouette.VolS Mouette.Generated\n\n" + "\n".join(u.text) + "\nend Mouette.Generated.C03B\n"
    _, sha = T.write_generated("C03B", out, header=BND_HEADER)
    return {"sha": sha, "functions": d, "outside_the_fragment": u.outside}


TRANSLATED = [
    "VolumeMesh._Connectivity._compute_cell_adj", "VolumeMesh._Connectivity.face_to_cells", "VolumeMesh._Connectivity.cell_to_face",
    "VolumeMesh._Connectivity._compute_connectivity", "VolumeMesh._Connectivity.vertex_to_cell",
    "VolumeMesh._Connectivity._compute_edge_id", "VolumeMesh._Connectivity._compute_adjacent_cell", "VolumeMesh._Connectivity.cell_to_cell",
    "VolumeMesh.is_face_on_border", "VolumeMesh._compute_interior_boundary_faces", "VolumeMesh.boundary_faces", "VolumeMesh.interior_faces",
    "VolumeMesh._compute_interior_boundary_vertices", "VolumeMesh._compute_interior_boundary_edges",
    "VolumeMesh.boundary_vertices", "VolumeMesh.interior_vertices", "VolumeMesh.boundary_edges", "VolumeMesh.interior_edges",
    "VolumeMesh.is_vertex_on_border",
]

FALLBACK = None


# ------------------------------------------------------------------------------------------------------------------
# round 6: `other_face_side` (a chain of `if ..: return ..`) and `_sort_edge_neighborhoods` (two `while True` walks)
# ------------------------------------------------------------------------------------------------------------------
W_HEADER = "import Mouette.Generated.C03S\n"


def return_chain(unit, ctx, fn, lean):
    """`if c: return X` ... `a, b = L` ... `return Y`  ->  nested if-then-else returning `Option Nat` (`None` -> `none`)"""
    params = [a.arg for a in fn.args.args][1:]
    if fn.args.vararg or fn.args.kwarg or fn.args.defaults: raise TranslateError(f"{fn.name}: signature")
    f = Fn(unit, ctx, fn, lean)
    env = {}
    for pname in params:
        env[pname] = (f.fresh(), "nat")

    def ret(v):
        if v is None or (isinstance(v, ast.Constant) and v.value is None): return "none"
        e, t = f.cx_atom(v, env)
        if t != "nat": raise TranslateError(f"{fn.name}: returns a {t}")
        return f"some {e}"

    def go(stmts, ind):
        if not stmts: return [f"{ind}none"]
        st, rest = stmts[0], stmts[1:]
        if isinstance(st, ast.Return): return [f"{ind}{ret(st.value)}"]
        if isinstance(st, ast.If) and not st.orelse and len(st.body) == 1 and isinstance(st.body[0], ast.Return):
            c, tc = f.cx(st.test, env)
            if tc.rstrip("*") != "bool": raise TranslateError(f"{fn.name}: condition type")
            if not c.startswith("("): c = f"({c})"
            return [f"{ind}if {c} then {ret(st.body[0].value)} else"] + go(rest, ind)
        if isinstance(st, ast.Assign):
            lines = [x for x in f.stmt(st, env, ind, {}) if x != "NOOP"]
            if any("let s :=" in x for x in lines): raise TranslateError(f"{fn.name}: stores state")
            return lines + go(rest, ind)
        raise TranslateError(f"{fn.name}: unsupported statement {ast.unparse(st)[:60]}")
    lines = go(_body(fn), "  ")
    ps = " ".join(env[p][0] for p in params)
    unit.text.append(f"/-- `{fn.name}`: its chain of `if ..: return ..` (`None` is `none`) -/\n"
                     f"def {lean} (m : Mesh) ({ps} : Nat) : Option Nat :=\n" + "\n".join(lines) + "\n")
    return {"params": len(params), "lines": len(lines)}


class WFn:
    """`_sort_edge_neighborhoods`: guard, loop over the edges; per edge: straight-line segments and `while True` loops with `break`.
    Every local assigned in the body of the edge loop outside the `while`s is a field of the state (it is carried through the
    loops); locals first assigned inside a `while` are `let`s of one iteration."""

    def __init__(self, fn):
        self.fn = fn
        self.fields = []       # (python name, lean type)
        self.n = 0

    def err(self, msg): return TranslateError(f"{self.fn.name}: {msg}")

    def fresh(self):
        self.n += 1
        return f"x{self.n - 1}"

    def ftype(self, name):
        for f, t in self.fields:
            if f == name: return t
        return None

    # ---- expressions: -> (text, type) with types nat int list optnat bool
    def cx(self, n, env):
        if isinstance(n, ast.Constant) and isinstance(n.value, int) and not isinstance(n.value, bool) and n.value >= 0:
            return str(n.value), "num"
        if isinstance(n, ast.Name):
            if n.id in env: return env[n.id]
            t = self.ftype(n.id)
            if t: return f"s.{n.id}", {"Nat": "nat", "Int": "int", "IMap": "imap"}[t]
            raise self.err(f"unbound name {n.id}")
        if isinstance(n, (ast.Tuple, ast.List)):
            parts = [self.cx(e, env) for e in n.elts]
            if all(t == "nat" for _, t in parts): return "[" + ", ".join(e for e, _ in parts) + "]", "list"
            raise self.err("tuple of non-ints")
        if isinstance(n, ast.Subscript):
            v, sl = n.value, n.slice
            # self._adjE2C[e][0]
            if isinstance(v, ast.Subscript) and isinstance(v.value, ast.Attribute) and resolve("conn", v.value) in (("own", "_adjE2C"), ("own", "_adjE2F")) \
                    and isinstance(sl, ast.Constant) and sl.value == 0:
                k, tk = self.cx(v.slice, env)
                if tk != "nat": raise self.err("edge key type")
                return f"(dGet s.{resolve('conn', v.value)[1].lstrip('_')} {k}).getD 0 0", "nat"
            if isinstance(v, ast.Attribute) and resolve("conn", v) == ("mesh", "cells"):
                i, ti = self.cx(sl, env)
                if ti != "nat": raise self.err("cell index type")
                return f"(m.cell {i})", "list"
            # [x for x in L if x not in T][0]
            if isinstance(v, ast.ListComp) and isinstance(sl, ast.Constant) and sl.value == 0:
                L, T_ = self._filter_parts(v, env)
                return f"firstNotInD {L} {T_}", "nat"
        if isinstance(n, ast.GeneratorExp):
            L, T_ = self._filter_parts(n, env)
            return f"{L}.filter (fun x => !({T_}.contains x))", "list"
        if isinstance(n, ast.Call) and isinstance(n.func, ast.Attribute) and not n.keywords:
            r = resolve("conn", n.func)
            args = [self.cx(a, env) for a in n.args]
            if r == ("conn", "face_id") and len(args) == 3 and all(t == "nat" for _, t in args):
                return "m.faceIdD [" + ", ".join(e for e, _ in args) + "]", "nat"
            if r == ("conn", "other_face_side") and len(args) == 2 and all(t == "nat" for _, t in args):
                return f"other_face_side m {args[0][0]} {args[1][0]}", "optnat"
        if isinstance(n, ast.Compare) and len(n.ops) == 1:
            a, b, op = n.left, n.comparators[0], n.ops[0]
            if isinstance(op, ast.Is) and isinstance(b, ast.Constant) and b.value is None:
                e, t = self.cx(a, env)
                if t != "optnat": raise self.err("`is None` on a non-optional")
                return f"{e}.isNone", "bool"
            if isinstance(op, ast.In):
                e, t = self.cx(a, env); d, td = self.cx(b, env)
                if td != "imap" or t not in ("optnat", "nat"): raise self.err("membership types")
                return f"iHas {d} ({e}.getD 0)" if t == "optnat" else f"iHas {d} {e}", "bool"
        if isinstance(n, ast.BoolOp) and isinstance(n.op, ast.Or):
            parts = [self.cx(v, env) for v in n.values]
            if any(t != "bool" for _, t in parts): raise self.err("or of non-booleans")
            return "(" + " || ".join(e for e, _ in parts) + ")", "bool"
        raise self.err(f"unsupported expression {ast.unparse(n)[:70]}")

    def _filter_parts(self, comp, env):
        if len(comp.generators) != 1: raise self.err("comprehension shape")
        g = comp.generators[0]
        ok = isinstance(g.target, ast.Name) and isinstance(comp.elt, ast.Name) and comp.elt.id == g.target.id and len(g.ifs) == 1 \
            and isinstance(g.ifs[0], ast.Compare) and len(g.ifs[0].ops) == 1 and isinstance(g.ifs[0].ops[0], ast.NotIn) \
            and isinstance(g.ifs[0].left, ast.Name) and g.ifs[0].left.id == g.target.id
        if not ok: raise self.err(f"comprehension is not `x for x in L if x not in T`: {ast.unparse(comp)[:60]}")
        L, tL = self.cx(g.iter, env); T_, tT = self.cx(g.ifs[0].comparators[0], env)
        if tL != "list" or tT != "list": raise self.err("comprehension types")
        return L, T_

    # ---- statements of one block (segment or while body): -> lines, given the names that are fields
    def stmts(self, body, env, ind, in_while):
        out = []
        body = list(body)
        while body:
            st = body.pop(0)
            if st == "RESET":
                out.append(f"{ind}let s := {{ s with brk := false }}"); continue
            if isinstance(st, ast.Assign) and len(st.targets) == 1 and isinstance(st.value, ast.BinOp) and isinstance(st.targets[0], ast.Name) \
                    and isinstance(st.value.op, (ast.Add, ast.Sub)) and ast.unparse(st.value.left) == st.targets[0].id:
                st = ast.AugAssign(st.targets[0], st.value.op, st.value.right)          # k = k + 1  ->  k += 1
            if isinstance(st, ast.AugAssign) and isinstance(st.target, ast.Name) and isinstance(st.op, (ast.Add, ast.Sub)) \
                    and isinstance(st.value, ast.Constant) and isinstance(st.value.value, int) and self.ftype(st.target.id) == "Int":
                op = "+" if isinstance(st.op, ast.Add) else "-"
                out.append(f"{ind}let s := {{ s with {st.target.id} := s.{st.target.id} {op} {st.value.value} }}")
                continue
            if isinstance(st, ast.Assign) and len(st.targets) == 1:
                t, v = st.targets[0], st.value
                if isinstance(t, ast.Name):
                    if isinstance(v, ast.Call) and isinstance(v.func, ast.Name) and v.func.id == "dict" and not v.args and not v.keywords \
                            or (isinstance(v, ast.Dict) and not v.keys):
                        self._field(t.id, "IMap", in_while)
                        out.append(f"{ind}let s := {{ s with {t.id} := [] }}"); continue
                    e, ty = self.cx(v, env)
                    if self.ftype(t.id) is None and in_while:
                        x = self.fresh(); env[t.id] = (x, ty)
                        out.append(f"{ind}let {x} := {e}"); continue
                    want = "Int" if ty == "num" else "Nat" if ty == "nat" else None
                    if ty == "optnat" and self.ftype(t.id) == "Nat" and in_while:
                        raise self.err(f"{t.id}: an optional value stored in an int local")
                    if want is None: raise self.err(f"local {t.id} of type {ty}")
                    if self.ftype(t.id) == "Nat" and ty == "num": want = "Nat"
                    self._field(t.id, want, in_while)
                    out.append(f"{ind}let s := {{ s with {t.id} := {e} }}"); continue
                if isinstance(t, ast.Subscript) and isinstance(t.value, ast.Name) and self.ftype(t.value.id) == "IMap":
                    k, tk = self.cx(t.slice, env); val, tv = self.cx(v, env)
                    if tk != "nat" or tv != "int": raise self.err(f"key store types {tk},{tv}")
                    out.append(f"{ind}let s := {{ s with {t.value.id} := iSet s.{t.value.id} {k} {val} }}"); continue
                if isinstance(t, ast.Tuple) and all(isinstance(e, ast.Name) for e in t.elts) and isinstance(v, ast.GeneratorExp):
                    e, ty = self.cx(v, env)
                    x = self.fresh()
                    out.append(f"{ind}let {x} := {e}")
                    for i, name in enumerate(t.elts):
                        self._field(name.id, "Nat", in_while)
                        out.append(f"{ind}let s := {{ s with {name.id} := unpack {x} {i} }}")
                    continue
            if isinstance(st, ast.If) and not st.orelse and len(st.body) == 1 and isinstance(st.body[0], ast.Break) and in_while:
                c, tc = self.cx(st.test, env)
                if tc != "bool": raise self.err("break condition type")
                out.append(f"{ind}if {c} then {{ s with brk := true }} else")
                # past the `is None` test an optional local is read as an int
                for name, (e, ty) in list(env.items()):
                    if ty == "optnat" and f"{e}.isNone" in c:
                        x = self.fresh(); env[name] = (x, "nat")
                        out.append(f"{ind}let {x} := {e}.getD 0")
                continue
            # self._adjE2C[e].sort(key = lambda c: keys_cell.get(c, float("inf")))
            if isinstance(st, ast.Expr) and isinstance(st.value, ast.Call) and isinstance(st.value.func, ast.Attribute) and st.value.func.attr == "sort" \
                    and not in_while:
                c = st.value
                recv = c.func.value
                ok = isinstance(recv, ast.Subscript) and isinstance(recv.value, ast.Attribute) and resolve("conn", recv.value) in (("own", "_adjE2C"), ("own", "_adjE2F")) \
                    and not c.args and len(c.keywords) == 1 and c.keywords[0].arg == "key" and isinstance(c.keywords[0].value, ast.Lambda)
                if ok:
                    lam = c.keywords[0].value
                    a = lam.args.args
                    b = lam.body
                    ok = len(a) == 1 and isinstance(b, ast.Call) and isinstance(b.func, ast.Attribute) and b.func.attr == "get" and isinstance(b.func.value, ast.Name) \
                        and self.ftype(b.func.value.id) == "IMap" and len(b.args) == 2 and isinstance(b.args[0], ast.Name) and b.args[0].id == a[0].arg \
                        and ast.unparse(b.args[1]) in ("float('inf')", 'float("inf")', "math.inf", "np.inf")
                if not ok: raise self.err(f"sort call not recognised: {ast.unparse(st)[:80]}")
                fld = resolve("conn", recv.value)[1].lstrip("_")
                k, tk = self.cx(recv.slice, env)
                out.append(f"{ind}let s := {{ s with {fld} := dSortBy s.{fld} {k} s.{b.func.value.id} }}"); continue
            raise self.err(f"unsupported statement {ast.unparse(st)[:80]}")
        return out

    def _field(self, name, ty, in_while):
        t = self.ftype(name)
        if t is None:
            if in_while: raise self.err(f"{name} is first assigned inside a loop but used as loop state")
            self.fields.append((name, ty))
        elif t != ty:
            raise self.err(f"{name} holds a {t} and then a {ty}")


def site_walks():
    tree, _ = T.load(VOL)
    u = Unit()
    u.funcs[("conn", "face_to_cells")] = {"lean": "C03S.face_to_cells", "ret": "list", "params": 1}
    C = "VolumeMesh._Connectivity."
    d = {"other_face_side": return_chain(u, "conn", _get(tree, C + "other_face_side"), "other_face_side")}
    fn = _get(tree, C + "_sort_edge_neighborhoods")
    body = _body(fn)
    if len(body) != 2: raise TranslateError(f"_sort_edge_neighborhoods: {len(body)} top-level statements, 2 expected (guard, loop over the edges)")
    g, loop = body
    if not (isinstance(g, ast.If) and not g.orelse and len(g.body) == 1 and isinstance(g.body[0], ast.Return) and g.body[0].value is None
            and ast.unparse(g.test) == "not self.mesh.is_tetrahedral()"):
        raise TranslateError("_sort_edge_neighborhoods: guard `if not self.mesh.is_tetrahedral(): return` not found")
    ok = isinstance(loop, ast.For) and not loop.orelse and ast.unparse(loop.iter) == "enumerate(self.mesh.edges)" and isinstance(loop.target, ast.Tuple) \
        and len(loop.target.elts) == 2 and isinstance(loop.target.elts[0], ast.Name) and isinstance(loop.target.elts[1], ast.Tuple) \
        and len(loop.target.elts[1].elts) == 2 and all(isinstance(e, ast.Name) for e in loop.target.elts[1].elts)
    if not ok: raise TranslateError("_sort_edge_neighborhoods: loop `for e, (A, B) in enumerate(self.mesh.edges)` not found")
    w = WFn(fn)
    names = [loop.target.elts[0].id] + [e.id for e in loop.target.elts[1].elts]
    base_env = {nm: (w.fresh(), "nat") for nm in names}
    S = "SortEdgeNeighborhoodsSt"
    sig = f"(m : Mesh) (x0 x1 x2 : Nat) (s : {S}) : {S}"
    defs, edge_lines, seg, nseg, nwhile = [], [], [], 0, 0

    def flush():
        nonlocal seg, nseg
        if not seg: return
        nseg += 1
        lines = w.stmts(seg, dict(base_env), "  ", False)
        defs.append((f"sort_edge_neighborhoods_seg{nseg}", lines, None))
        edge_lines.append(f"  let s := sort_edge_neighborhoods_seg{nseg} m x0 x1 x2 s")
        seg = []
    stmts_ = _strip(loop.body)
    for i, st in enumerate(stmts_):
        if isinstance(st, ast.While):
            if not (isinstance(st.test, ast.Constant) and st.test.value is True) or st.orelse: raise TranslateError("_sort_edge_neighborhoods: loop is not `while True`")
            seg.append("RESET")
            flush()
            nwhile += 1
            lines = w.stmts(_strip(st.body), dict(base_env), "  ", True)
            defs.append((f"sort_edge_neighborhoods_while{nwhile}", lines, "while"))
            edge_lines.append(f"  let s := whileTrue (·.brk) (sort_edge_neighborhoods_while{nwhile} m x0 x1 x2) (m.nC + 1) s")
        else:
            seg.append(st)
    flush()
    if nwhile != 2: raise TranslateError(f"_sort_edge_neighborhoods: {nwhile} `while True` walks found, 2 expected")
    flds = "".join(f"  {n} : {t}\n" for n, t in w.fields)
    zero = {"IMap": "[]", "Int": "0", "Nat": "0"}
    txt = (f"/-- state of `_sort_edge_neighborhoods`: the two dictionaries it re-orders, the locals carried through the walks, the `break` flag -/\n"
           f"structure {S} where\n  adjE2C : Dict\n  adjE2F : Dict\n{flds}  brk : Bool\n  outside : Bool\n\n")
    for name, lines, kind in defs:
        doc = "one iteration of a `while True` walk (`break` raises `brk`)" if kind else "straight-line statements of the edge loop"
        txt += f"/-- `_sort_edge_neighborhoods`: {doc} -/\ndef {name} {sig} :=\n" + "\n".join(lines) + "\n  s\n\n"
    txt += (f"/-- `_sort_edge_neighborhoods`: the body of `for e, (A, B) in enumerate(self.mesh.edges)` -/\n"
            f"def sort_edge_neighborhoods_edge {sig} :=\n" + "\n".join(edge_lines) + "\n  s\n\n")
    init = ", ".join(f"{n} := {zero[t]}" for n, t in w.fields)
    txt += (f"/-- `_sort_edge_neighborhoods`, on the dictionaries left by `_compute_edge_id` -/\n"
            f"def sort_edge_neighborhoods (m : Mesh) : {S} :=\n"
            f"  let s : {S} := {{ adjE2C := (C03S.compute_edge_id m).adjE2C, adjE2F := (C03S.compute_edge_id m).adjE2F, {init}, brk := false, outside := false }}\n"
            f"  if (!m.isTetrahedral) then s else\n"
            f"  let s := (List.range m.nE).foldl (fun s x0 =>\n    let x1 := unpack (m.edge x0) 0\n    let x2 := unpack (m.edge x0) 1\n"
            f"    sort_edge_neighborhoods_edge m x0 x1 x2 s) s\n  s\n")
    u.text.append(txt)
    # edge_to_face / edge_to_cell: guarded reads of what `_compute_edge_id` leaves, i.e. after its tail
    # `if config.sort_neighborhoods: self._sort_edge_neighborhoods()` (the tail is checked to be exactly that)
    _edge_id_body(_get(tree, C + "_compute_edge_id"), Unit())
    for acc, attr in (("edge_to_face", "_adjE2F"), ("edge_to_cell", "_adjE2C")):
        afn = _get(tree, C + acc)
        ab = _body(afn)
        ps = [a.arg for a in afn.args.args][1:]
        g = _guard(ab[0], "conn") if len(ab) == 2 else None
        r = ab[1] if len(ab) == 2 else None
        ok = g == (attr, "_compute_edge_id") and len(ps) == 1 and isinstance(r, ast.Return) and isinstance(r.value, ast.Subscript) \
            and resolve("conn", r.value.value) == ("own", attr) and isinstance(r.value.slice, ast.Name) and r.value.slice.id == ps[0]
        if not ok: raise TranslateError(f"{acc}: not `if self.{attr} is None: self._compute_edge_id()` + `return self.{attr}[e]`")
        fld = attr.lstrip("_")
        u.text.append(f"/-- `{acc}(e)`: guarded read of `{attr}[e]` as `_compute_edge_id` leaves it — its tail runs `_sort_edge_neighborhoods` when "
                      f"`config.sort_neighborhoods` is set -/\n"
                      f"def {acc} (m : Mesh) (sort_neighborhoods : Bool) (x0 : Nat) : List Nat :=\n"
                      f"  if sort_neighborhoods then dGet (sort_edge_neighborhoods m).{fld} x0 else dGet (C03S.compute_edge_id m).{fld} x0\n")
        d[acc] = {"reads": attr, "compute": "_compute_edge_id + tail"}
    out = "namespace Mouette.Generated.C03W\nopen Mouette.Vol Mouette.VolS Mouette.Generated\n\n" + "\n".join(u.text) + "\nend Mouette.Generated.C03W\n"
    _, sha = T.write_generated("C03W", out, header=W_HEADER)
    d["_sort_edge_neighborhoods"] = {"fields": [f"{n}:{t}" for n, t in w.fields], "segments": nseg, "walks": nwhile}
    return {"sha": sha, "functions": d}


# ------------------------------------------------------------------------------------------------------------------
# round 7: bodies that are a single `return <expr>`
# ------------------------------------------------------------------------------------------------------------------
P_HEADER = "import Mouette.Generated.C03S\n"
MESH_LEN = {"vertices": "nV", "edges": "nE", "faces": "nF", "cells": "nC"}


def pure_return(unit, ctx, fn, lean, want, prop=False):
    """`def f(self, a..): return <expr>` -> `def f (m : Mesh) (x0 .. : Nat) : T := <expr>`"""
    params = [a.arg for a in fn.args.args][1:]
    if fn.args.vararg or fn.args.kwarg or fn.args.defaults: raise TranslateError(f"{fn.name}: signature")
    if prop != ([ast.unparse(x) for x in fn.decorator_list] == ["property"]): raise TranslateError(f"{fn.name}: property decorator")
    body = _body(fn)
    if len(body) != 1 or not isinstance(body[0], ast.Return) or body[0].value is None:
        raise TranslateError(f"{fn.name}: body is not a single `return <expr>`")
    v = body[0].value
    f = Fn(unit, ctx, fn, lean)
    env = {pn: (f.fresh(), "nat") for pn in params}
    # range(len(self.<container>))
    if isinstance(v, ast.Call) and isinstance(v.func, ast.Name) and v.func.id == "range" and len(v.args) == 1 and isinstance(v.args[0], ast.Call) \
            and isinstance(v.args[0].func, ast.Name) and v.args[0].func.id == "len" and len(v.args[0].args) == 1 \
            and isinstance(v.args[0].args[0], ast.Attribute):
        r = resolve(ctx, v.args[0].args[0])
        if r and r[0] == "mesh" and r[1] in MESH_LEN: e, t = f"List.range m.{MESH_LEN[r[1]]}", "list"
        else: raise TranslateError(f"{fn.name}: range(len(..)) of {ast.unparse(v.args[0].args[0])}")
    # np.all([self.g(i) for i in self.id_X])
    elif isinstance(v, ast.Call) and ast.unparse(v.func) in ("np.all", "all") and len(v.args) == 1 and isinstance(v.args[0], (ast.ListComp, ast.GeneratorExp)) \
            and len(v.args[0].generators) == 1 and not v.args[0].generators[0].ifs and isinstance(v.args[0].generators[0].target, ast.Name):
        g = v.args[0].generators[0]
        L, tL = f.cx_atom(g.iter, env)
        x = f.fresh()
        b, tb = f.cx_atom(v.args[0].elt, dict(env, **{g.target.id: (x, "nat")}))
        if tL != "list" or tb != "bool": raise TranslateError(f"{fn.name}: all(..) types {tL},{tb}")
        e, t = f"{L}.all (fun {x} => {b})", "bool"
    else:
        e, t = f.cx(v, env)
        t = t.rstrip("*")
    if t != want: raise TranslateError(f"{fn.name}: returns a {t}, expected {want}")
    ps = ("(" + " ".join(env[pn][0] for pn in params) + " : Nat) ") if params else ""
    ty = {"list": "List Nat", "nat": "Nat", "bool": "Bool"}[t]
    unit.text.append(f"/-- `{fn.name}`: `return {ast.unparse(v)}` -/\ndef {lean} (m : Mesh) {ps}: {ty} :=\n  {e}\n")
    level = "conn" if ctx == "conn" else "mesh"
    unit.funcs[(level, fn.name)] = {"lean": lean, "ret": t, "params": len(params)}
    return {"returns": ast.unparse(v)}


class PFn(Fn):
    """adds sets as values: `set(x)`, `set(a).intersection(b)`, `s1 == s2`, `len(<intersection>)`"""

    def cx(self, n, env):
        if isinstance(n, ast.Call) and isinstance(n.func, ast.Name) and n.func.id == "set" and len(n.args) == 1 and not n.keywords:
            e, t = self.cx_atom(n.args[0], env)
            if t != "list": raise self.err(f"set() of {t}")
            return e, "set"
        if isinstance(n, ast.Call) and isinstance(n.func, ast.Attribute) and n.func.attr == "intersection" and len(n.args) == 1 and not n.keywords:
            a, ta = self.cx_atom(n.func.value, env); b, tb = self.cx_atom(n.args[0], env)
            if ta != "set" or tb not in ("list", "set"): raise self.err(f"intersection of {ta},{tb}")
            return f"setInter {a} {b}", "setd*"
        if isinstance(n, ast.Call) and isinstance(n.func, ast.Name) and n.func.id == "len" and len(n.args) == 1:
            e, t = self.cx_atom(n.args[0], env)
            if t == "setd": return f"{e}.length", "nat*"
            if t == "set": raise self.err("len of a set that may hold repeated insertions")
        if isinstance(n, ast.Compare) and len(n.ops) == 1 and isinstance(n.ops[0], ast.Eq):
            a, ta = self.cx_atom(n.left, env); b, tb = self.cx_atom(n.comparators[0], env)
            if ta == "set" and tb == "set": return f"setEq {a} {b}", "bool*"
        if isinstance(n, ast.Name) and n.id in env and env[n.id][1] in ("set", "setd"): return env[n.id]
        return super().cx(n, env)

    def cx_atom(self, n, env):
        e, t = self.cx(n, env)
        if t.endswith("*"): return f"({e})", t[:-1]
        return e, t

    def let(self, st, env, ind):
        """`name = expr` -> one `let` line"""
        if not (isinstance(st, ast.Assign) and len(st.targets) == 1 and isinstance(st.targets[0], ast.Name)): raise self.err(f"unsupported statement {ast.unparse(st)[:60]}")
        e, t = self.cx(st.value, env)
        t = t.rstrip("*")
        x = self.fresh(); env[st.targets[0].id] = (x, t)
        return f"{ind}let {x} := {e}"


def _opt_return(f, v, env):
    """value of a `return`: `None` -> none, an int -> some, `self.face_id(*s)` -> the optional id itself"""
    if v is None or (isinstance(v, ast.Constant) and v.value is None): return "none"
    if isinstance(v, ast.Call) and isinstance(v.func, ast.Attribute) and resolve(f.ctx, v.func) == ("conn", "face_id") and len(v.args) == 1 \
            and isinstance(v.args[0], ast.Starred):
        e, t = f.cx_atom(v.args[0].value, env)
        if t not in ("list", "setd"): raise f.err(f"face_id(*x) of a {t}")
        return f"m.faceId {e}"
    e, t = f.cx_atom(v, env)
    if t != "nat": raise f.err(f"returns a {t}")
    return f"some {e}"


def opt_function(unit, ctx, fn, lean):
    """leading `name = expr` lets, then either a chain of `if c: return X` ending in `return Y`, or ONE loop
    `for i, v in enumerate(L): [lets]; if c: return i` followed by `return None` (-> `find?` over the indices)"""
    params = [a.arg for a in fn.args.args][1:]
    if fn.args.vararg or fn.args.kwarg or fn.args.defaults: raise TranslateError(f"{fn.name}: signature")
    f = PFn(unit, ctx, fn, lean)
    env = {pn: (f.fresh(), "nat") for pn in params}
    lines = []
    body = _body(fn)
    while body:
        st = body.pop(0)
        if isinstance(st, ast.Assign):
            lines.append(f.let(st, env, "  ")); continue
        if isinstance(st, ast.If) and not st.orelse and len(st.body) == 1 and isinstance(st.body[0], ast.Return):
            c, tc = f.cx(st.test, env)
            if tc.rstrip("*") != "bool": raise f.err("condition type")
            if not c.startswith("("): c = f"({c})"
            lines.append(f"  if {c} then {_opt_return(f, st.body[0].value, env)} else"); continue
        if isinstance(st, ast.Return):
            if body: raise f.err("statements after return")
            lines.append(f"  {_opt_return(f, st.value, env)}"); break
        if isinstance(st, ast.For):
            ok = not st.orelse and isinstance(st.iter, ast.Call) and isinstance(st.iter.func, ast.Name) and st.iter.func.id == "enumerate" \
                and len(st.iter.args) == 1 and isinstance(st.target, ast.Tuple) and len(st.target.elts) == 2 \
                and all(isinstance(e, ast.Name) for e in st.target.elts) and len(body) == 1 and isinstance(body[0], ast.Return) \
                and (body[0].value is None or (isinstance(body[0].value, ast.Constant) and body[0].value.value is None))
            if not ok: raise f.err("loop is not `for i, v in enumerate(L): .. if c: return i` followed by `return None`")
            L, tL = f.cx_atom(st.iter.args[0], env)
            if tL != "list": raise f.err("enumerate of a non-list")
            iname, vname = st.target.elts[0].id, st.target.elts[1].id
            xi = f.fresh()
            inner = dict(env); inner[iname] = (xi, "nat")
            ilines = []
            uses_v = any(isinstance(x, ast.Name) and x.id == vname for b in st.body for x in ast.walk(b))
            if uses_v:
                xv = f.fresh(); inner[vname] = (xv, "nat")
                ilines.append(f"    let {xv} := {L}.getD {xi} 0")
            sb = _strip(st.body)
            for b in sb[:-1]: ilines.append(f.let(b, inner, "    "))
            last = sb[-1]
            if not (isinstance(last, ast.If) and not last.orelse and len(last.body) == 1 and isinstance(last.body[0], ast.Return)
                    and isinstance(last.body[0].value, ast.Name) and last.body[0].value.id == iname):
                raise f.err("the loop does not end with `if c: return <index>`")
            c, tc = f.cx(last.test, inner)
            if tc.rstrip("*") != "bool": raise f.err("loop condition type")
            lines.append(f"  (List.range {L}.length).find? (fun {xi} =>")
            lines += ilines
            lines.append(f"    {c})")
            body = []
            break
        raise f.err(f"unsupported statement {ast.unparse(st)[:60]}")
    ps = " ".join(env[pn][0] for pn in params)
    unit.text.append(f"/-- `{fn.name}` (`None` is `none`) -/\ndef {lean} (m : Mesh) ({ps} : Nat) : Option Nat :=\n" + "\n".join(lines) + "\n")
    return {"lines": len(lines)}


def guarded_star_flag(unit, fn, lean, attr, compute_lean, field):
    """`is_edge_on_border(self, *args)`: guard on the flags, `if len(args)==1: return F[args[0]]`, `return F[edge_id(args[0], args[1])]`"""
    if not fn.args.vararg or [a.arg for a in fn.args.args] != ["self"]: raise TranslateError(f"{fn.name}: signature")
    av = fn.args.vararg.arg
    body = _body(fn)
    if len(body) != 3: raise TranslateError(f"{fn.name}: {len(body)} statements, 3 expected")
    g = _guard(body[0], "mesh")
    if g is None or g[0] != attr: raise TranslateError(f"{fn.name}: guard on self.{attr} not found")
    fld = unit.fields_ext.get(attr)
    if fld is None or fld != g[1]: raise TranslateError(f"{fn.name}: the guard calls {g[1]}, which is not the method that stores self.{attr}")
    one, two = body[1], body[2]
    t = one.test if isinstance(one, ast.If) else None
    ok = isinstance(one, ast.If) and not one.orelse and len(one.body) == 1 and isinstance(one.body[0], ast.Return) and isinstance(t, ast.Compare) \
        and len(t.ops) == 1 and isinstance(t.ops[0], ast.Eq) and {ast.unparse(t.left), ast.unparse(t.comparators[0])} == {f"len({av})", "1"} \
        and ast.unparse(one.body[0].value) == f"self.{attr}[{av}[0]]"
    ok = ok and isinstance(two, ast.Return) and ast.unparse(two.value) in (f"self.{attr}[self.connectivity.edge_id({av}[0], {av}[1])]",)
    if not ok: raise TranslateError(f"{fn.name}: body not recognised")
    src = f"({compute_lean} m).{field}"
    unit.text.append(f"/-- `{fn.name}(e)` (one argument: an edge id): guarded read of the flag -/\ndef {lean} (m : Mesh) (x0 : Nat) : Bool :=\n  flagGet {src} x0\n")
    unit.text.append(f"/-- `{fn.name}(u, v)` (two arguments: the end points): guarded read of the flag of `edge_id(u, v)` -/\n"
                     f"def {lean}_pair (m : Mesh) (x0 x1 : Nat) : Bool :=\n  flagGet {src} (m.edgeIdD x0 x1)\n")
    return {"reads": attr}


def cell_to_edge_fn(unit, fn, lean):
    """`cell_to_edge`: `if self._adjC2E is None: self._adjC2E = dict()`; `if self._adjC2E.get(c, None) is None:` build the entry
    `self._adjC2E[c]` (a list) with nested loops; `return self._adjC2E[c]`.  The entry is computed once per cell from the cell list:
    the generated definition is that computation (the per-cell cache is the guard table's subject)."""
    params = [a.arg for a in fn.args.args][1:]
    if len(params) != 1 or fn.args.vararg: raise TranslateError(f"{fn.name}: signature")
    c = params[0]
    body = _body(fn)
    if len(body) != 3: raise TranslateError(f"{fn.name}: {len(body)} statements, 3 expected")
    s0, s1, s2 = body
    A = "self._adjC2E"
    ok = isinstance(s0, ast.If) and not s0.orelse and ast.unparse(s0.test) == f"{A} is None" and len(s0.body) == 1 \
        and ast.unparse(s0.body[0]) in (f"{A} = dict()", f"{A} = {{}}")
    ok = ok and isinstance(s1, ast.If) and not s1.orelse and ast.unparse(s1.test) in (f"{A}.get({c}, None) is None", f"{A}.get({c}) is None")
    ok = ok and isinstance(s2, ast.Return) and ast.unparse(s2.value) == f"{A}[{c}]"
    if not ok: raise TranslateError(f"{fn.name}: guards / return not recognised")
    blk = _strip(s1.body)
    if not blk or ast.unparse(blk[0]) != f"{A}[{c}] = []": raise TranslateError(f"{fn.name}: the entry is not initialised with []")
    f = PFn(unit, "conn", fn, lean)
    env = {c: (f.fresh(), "nat")}
    lines = []

    def go(stmts, env, ind):
        out = []
        for st in _strip(stmts):
            if isinstance(st, ast.For):
                if st.orelse or not isinstance(st.target, ast.Name): raise f.err("loop shape")
                L, tL = f.cx_atom(st.iter, env)
                if tL != "list": raise f.err("loop over a non-list")
                x = f.fresh()
                inner = dict(env); inner[st.target.id] = (x, "nat")
                out.append(f"{ind}let acc := {L}.foldl (fun acc {x} =>")
                out += go(st.body, inner, ind + "  ")
                out.append(f"{ind}  acc) acc")
                continue
            if isinstance(st, ast.Assign) and len(st.targets) == 1 and isinstance(st.targets[0], ast.Tuple) and isinstance(st.value, ast.Tuple) \
                    and len(st.targets[0].elts) == len(st.value.elts) and all(isinstance(e, ast.Name) for e in st.targets[0].elts):
                vals = [f.cx(e, env) for e in st.value.elts]
                for nm, (e, t) in zip(st.targets[0].elts, vals):
                    if t.rstrip("*") != "nat": raise f.err("unpacked value type")
                    x = f.fresh(); env[nm.id] = (x, "nat")
                    out.append(f"{ind}let {x} := {e}")
                continue
            if isinstance(st, ast.Assign) and len(st.targets) == 1 and isinstance(st.targets[0], ast.Name):
                v = st.value
                if isinstance(v, ast.Call) and isinstance(v.func, ast.Attribute) and resolve("conn", v.func) == ("conn", "edge_id") and len(v.args) == 2 and not v.keywords:
                    a = [f.cx_atom(x_, env) for x_ in v.args]
                    if any(t != "nat" for _, t in a): raise f.err("edge_id arguments")
                    x = f.fresh(); env[st.targets[0].id] = (x, "optnat")
                    out.append(f"{ind}let {x} := m.edgeId {a[0][0]} {a[1][0]}")
                else:
                    out.append(f.let(st, env, ind))
                continue
            if isinstance(st, ast.If) and not st.orelse and len(st.body) == 1 and isinstance(st.test, ast.Compare) and len(st.test.ops) == 1 \
                    and isinstance(st.test.ops[0], ast.IsNot) and isinstance(st.test.comparators[0], ast.Constant) and st.test.comparators[0].value is None \
                    and isinstance(st.test.left, ast.Name) and env.get(st.test.left.id, (None, None))[1] == "optnat":
                e = env[st.test.left.id][0]
                b = st.body[0]
                if ast.unparse(b) != f"{A}[{c}].append({st.test.left.id})": raise f.err(f"guarded statement is not an append to the entry: {ast.unparse(b)[:50]}")
                out.append(f"{ind}let acc := if {e}.isSome then acc ++ [{e}.getD 0] else acc")
                continue
            raise f.err(f"unsupported statement {ast.unparse(st)[:60]}")
        return out
    lines = go(blk[1:], env, "  ")
    unit.text.append(f"/-- `{fn.name}`: the entry `_adjC2E[c]` as it is built on the first request for cell `c` -/\n"
                     f"def {lean} (m : Mesh) ({env[c][0]} : Nat) : List Nat :=\n  let acc : List Nat := []\n" + "\n".join(lines) + "\n  acc\n")
    return {"lines": len(lines)}


def try_attr_property(unit, fn, lean):
    """`@property def boundary_mesh(self): try: return self.X.Y  except Exception: return None`"""
    if [ast.unparse(x) for x in fn.decorator_list] != ["property"] or [a.arg for a in fn.args.args] != ["self"]: raise TranslateError(f"{fn.name}: not a property")
    body = _body(fn)
    ok = len(body) == 1 and isinstance(body[0], ast.Try) and not body[0].orelse and not body[0].finalbody and len(body[0].handlers) == 1
    if ok:
        t = body[0]
        h = t.handlers[0]
        ok = (h.type is None or ast.unparse(h.type) in ("Exception", "AttributeError")) and len(h.body) == 1 and isinstance(h.body[0], ast.Return) \
            and (h.body[0].value is None or (isinstance(h.body[0].value, ast.Constant) and h.body[0].value.value is None)) \
            and len(t.body) == 1 and isinstance(t.body[0], ast.Return)
    if not ok: raise TranslateError(f"{fn.name}: not `try: return .. except Exception: return None`")
    ch = _chain(body[0].body[0].value)
    if not ch or len(ch) != 3 or ch[0] != "self": raise TranslateError(f"{fn.name}: returns {ast.unparse(body[0].body[0].value)}")
    obj, attr = ch[1], ch[2]
    unit.text.append(f"/-- `{fn.name}`: `try: return self.{obj}.{attr}` / `except Exception: return None` (`self.{obj}` is `None` until it is enabled) -/\n"
                     f"def {lean} {{β μ : Type}} ({obj} : Option β) ({attr} : β → μ) : Option μ :=\n  tryAttr {obj} {attr}\n")
    unit.text.append(f"/-- which attribute of which object `{fn.name}` returns -/\ndef {lean}_reads : String × String := (\"{obj}\", \"{attr}\")\n")
    return {"object": obj, "attribute": attr}


def site_small():
    tree, _ = T.load(VOL)
    u = Unit()
    u.funcs[("conn", "face_to_cells")] = {"lean": "C03S.face_to_cells", "ret": "list", "params": 1}
    C = "VolumeMesh._Connectivity."
    d = {}
    d["cell_to_vertex"] = pure_return(u, "conn", _get(tree, C + "cell_to_vertex"), "cell_to_vertex", "list")
    d["n_F2C"] = pure_return(u, "conn", _get(tree, C + "n_F2C"), "n_F2C", "nat")
    for p_, cont in (("id_vertices", "nV"), ("id_edges", "nE"), ("id_faces", "nF"), ("id_cells", "nC")):
        d[p_] = pure_return(u, "mesh", _get(tree, "VolumeMesh." + p_), p_, "list", prop=True)
    d["is_cell_tet"] = pure_return(u, "mesh", _get(tree, "VolumeMesh.is_cell_tet"), "is_cell_tet", "bool")
    d["is_tetrahedral"] = pure_return(u, "mesh", _get(tree, "VolumeMesh.is_tetrahedral"), "is_tetrahedral", "bool")
    # round 8
    for q in ("common_face", "in_cell_index", "in_cell_face_index"):
        d[q] = opt_function(u, "conn", _get(tree, C + q), q)
    # `_is_edge_on_border` is stored by `_compute_interior_boundary_edges` (checked on the source)
    ce = _get(tree, "VolumeMesh._compute_interior_boundary_edges")
    if not any(isinstance(x, ast.Attribute) and isinstance(x.ctx, ast.Store) and resolve("mesh", x) == ("own", "_is_edge_on_border") for x in ast.walk(ce)):
        raise TranslateError("_compute_interior_boundary_edges does not store self._is_edge_on_border")
    d["cell_to_edge"] = cell_to_edge_fn(u, _get(tree, C + "cell_to_edge"), "cell_to_edge")
    d["boundary_mesh"] = try_attr_property(u, _get(tree, "VolumeMesh.boundary_mesh"), "boundary_mesh")
    u.fields_ext = {"_is_edge_on_border": "_compute_interior_boundary_edges"}
    d["is_edge_on_border"] = guarded_star_flag(u, _get(tree, "VolumeMesh.is_edge_on_border"), "is_edge_on_border", "_is_edge_on_border",
                                               "C03S.compute_interior_boundary_edges", "is_edge_on_border")
    out = "namespace Mouette.Generated.C03P\nopen Mouette.Vol Mouette.VolS Mouette.Generated\n\n" + "\n".join(u.text) + "\nend Mouette.Generated.C03P\n"
    _, sha = T.write_generated("C03P", out, header=P_HEADER)
    return {"sha": sha, "functions": d}


TRANSLATED_R7 = ["VolumeMesh._Connectivity.cell_to_vertex", "VolumeMesh._Connectivity.n_F2C", "VolumeMesh.id_vertices", "VolumeMesh.id_edges",
                 "VolumeMesh.id_faces", "VolumeMesh.id_cells", "VolumeMesh.is_cell_tet", "VolumeMesh.is_tetrahedral",
                 "VolumeMesh._Connectivity.common_face", "VolumeMesh._Connectivity.in_cell_index", "VolumeMesh._Connectivity.in_cell_face_index",
                 "VolumeMesh.is_edge_on_border", "VolumeMesh._Connectivity.cell_to_edge", "VolumeMesh.boundary_mesh"]


def _stub(name, ns, header, why):
    """a site that raises must not leave the definitions of an EARLIER tree on disk: the stub makes the bridges fail to build"""
    T.write_generated(name, f"namespace {ns}\n-- SITE NOT RECOGNISED in the current tree: {why[:300]!r}\nend {ns}\n", header=header)


TRANSLATED_R5 = ["VolumeMesh._BoundaryConnectivity._extract_surface_boundary", "VolumeMesh._BoundaryConnectivity.__init__"]
TRANSLATED_R5_BORDER = ["extract_boundary_of_volume"]
TRANSLATED_R6 = ["VolumeMesh._Connectivity.other_face_side", "VolumeMesh._Connectivity._sort_edge_neighborhoods",
                 "VolumeMesh._Connectivity.edge_to_face", "VolumeMesh._Connectivity.edge_to_cell"]


def run():
    s = T.site("volume.py: bodies of _compute_cell_adj/_compute_connectivity/_compute_edge_id/_compute_adjacent_cell, the accessors "
               "face_to_cells/cell_to_face/vertex_to_cell/cell_to_cell, is_face_on_border, _compute_interior_boundary_faces/vertices/edges, "
               "boundary_faces/interior_faces (statement-by-statement definitions)", site_volume_bodies)
    if not s["ok"]: _stub("C03S", "Mouette.Generated.C03S", HEADER, str(s["detail"]))
    b = T.site("volume.py + border.py: whole bodies of _BoundaryConnectivity._extract_surface_boundary / __init__ and "
               "processing.border.extract_boundary_of_volume (one definition per loop)", site_boundary_bodies)
    if not b["ok"]: _stub("C03B", "Mouette.Generated.C03B", BND_HEADER, str(b["detail"]))
    w = T.site("volume.py: whole bodies of other_face_side and _sort_edge_neighborhoods (guard, loop over the edges, the two `while True` "
               "walks with their break, the resets between them, the two sort(key=..) calls)", site_walks)
    if not w["ok"]: _stub("C03W", "Mouette.Generated.C03W", W_HEADER, str(w["detail"]))
    q = T.site("volume.py: single-return bodies cell_to_vertex, n_F2C, id_vertices/id_edges/id_faces/id_cells, is_cell_tet, is_tetrahedral", site_small)
    if not q["ok"]: _stub("C03P", "Mouette.Generated.C03P", P_HEADER, str(q["detail"]))
    return [s, b, w, q]
