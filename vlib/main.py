import argparse, os, sys, signal
from . import core


def main():
    ap = argparse.ArgumentParser()
    ap.add_argument("pid")
    ap.add_argument("--tier", default=os.environ.get("VERIF_TIER", "quick"), choices=["quick", "thorough"])
    ap.add_argument("--seed", type=int, default=int(os.environ.get("VERIF_SEED", "0") or 0))
    ap.add_argument("--replay", default=None)
    a = ap.parse_args()
    sys.setrecursionlimit(20000)
    rc = core.main_check(a.pid.upper(), a.tier, a.seed, a.replay)
    sys.stdout.flush()
    sys.exit(rc)


if __name__ == "__main__":
    main()
