"""Translator for the VERTEX-emitting code of the procedural generators (C14, round 3).

A small symbolic executor for the float/vector subset of Python used in mouette/procedural/*.py: scalar float arithmetic
(+ - * /, unary minus, `cos`, `sin`, `pi`, integer loop variables and parameters cast to the field), `Vec(x, y, z)` vectors with
component access, vector + vector, scalar * vector, `np.linspace(a, b, n)` sequences, `for` over `range` / `enumerate(linspace)` /
a tuple of vectors, a leading `if c: break`, `if <bool param>:`, `X.vertices.append(v)`, `X.vertices += [v, …]`, one level of
loop-carried vector state, calls of helper functions translated the same way (`rotate_2d`, `rotate_around_axis`), and OPAQUE things
that become parameters of the generated definition (a vector computed by code outside the subset; a float comparison guard).

The result is an expression TREE with two printers:
  * `lean(...)`  : a Lean 4 term over an arbitrary field `K` with uninterpreted `cos sin : K → K` and `pi : K` — the theorems of
                   Props/C14Verts.lean are about these terms (every emitted vertex is a named point function `<gen>Pt<k>` applied to
                   the loop indices, so "vertex k is the point (i, j)" is source-level);
  * `evaluate(...)`: the same tree evaluated with Python floats — compared by the harness with the vertices the implementation
                   returns (this validates the executor on every run; the Lean printer itself is trusted).
Anything outside the subset that touches the vertex container raises TranslateError (a broken obligation).
"""
import ast, math
from fractions import Fraction

from .translate import TranslateError
from . import pyloops as PL

# ---------------------------------------------------------------------------------------------------------------------
# expression trees
#   scalars : ('num', Fraction) ('cast', itree) ('var', name) ('pi',) ('add'|'sub'|'mul'|'div', a, b) ('neg', a)
#             ('cos'|'sin', a) ('comp', vtree, k) ('ite', ctree, a, b)
#   ints    : ('ic', n) ('iv', name) ('iop', op, a, b)           (op in + - * // %)
#   vectors : ('vec', sx, sy, sz) ('vvar', name) ('vcall', fname, args) ('vite', c, a, b)
#   conds   : ('bvar', name) ('guard', name, args)
# ---------------------------------------------------------------------------------------------------------------------
_IOP = {ast.Add: "+", ast.Sub: "-", ast.Mult: "*", ast.FloorDiv: "/", ast.Mod: "%"}


def comp(v, k):
    if v[0] == "vec": return v[1 + k]
    return ("comp", v, k)


def vadd(a, b, op="add"): return ("vec",) + tuple((op, comp(a, k), comp(b, k)) for k in range(3))
def vscale(s, v): return ("vec",) + tuple(("mul", s, comp(v, k)) for k in range(3))
def vdiv(v, s): return ("vec",) + tuple(("div", comp(v, k), s) for k in range(3))


class Fn:
    """a translated helper function: params [(name, kind)], result tree, opaque guards/functions it needs"""
    def __init__(self, name, params, result, extra):
        self.name, self.params, self.result, self.extra = name, params, result, extra


class Exec:
    def __init__(self, container=None, ints=(), bools=(), scalars=(), vectors=(), helpers=None, opaque_vectors=(), owner=""):
        self.container = container
        self.owner = owner
        self.env = {}
        for n in ints: self.env[n] = ("int", ("iv", n))
        for n in bools: self.env[n] = ("bool", ("bvar", n))
        for n in scalars: self.env[n] = ("sc", ("var", n))
        for n in vectors: self.env[n] = ("vc", ("vvar", n))
        self.reserved = set(self.env)      # parameter names: never shadowed by a let
        self.helpers = helpers or {}
        self.opaque_vectors = set(opaque_vectors)   # locals computed outside the subset: become vector parameters
        self.extra = []          # [(name, lean type)] opaque parameters discovered on the way
        self.lets = []           # [(name, scalar tree)] in program order (scope = whole function; names are made unique)
        self.points = []         # [(ptname, loopvars [(name, kind)], lets snapshot, vec tree)]
        self.states = []         # [(statename, stepname, loopvar, vecname, init tree, step tree, lets snapshot)]
        self.top = []            # vector trees appended at top level so far (for X.vertices[k] reads)
        self.overwritten = {}    # index -> opaque parameter name (X.vertices[k] = <outside the subset>)
        self.uses_normalize = False
        self.uses_minmax = False
        self.group = {}          # vector name -> id of the array object it is bound to (aliasing)
        self._gid = 0
        self.opaque_scalar_fns = {}   # name -> arity (uninterpreted scalar functions of vectors, e.g. angle_3pts)

    # ---- expressions ----------------------------------------------------------------------------------------------
    def ival(self, node):
        if isinstance(node, ast.Constant) and isinstance(node.value, int) and not isinstance(node.value, bool):
            return ("ic", node.value)
        if isinstance(node, ast.Name) and self.env.get(node.id, (None,))[0] == "int":
            return self.env[node.id][1]
        if isinstance(node, ast.BinOp) and type(node.op) in _IOP:
            return ("iop", _IOP[type(node.op)], self.ival(node.left), self.ival(node.right))
        raise TranslateError(f"not an integer expression: {ast.dump(node)[:80]}")

    def is_int(self, node):
        try:
            self.ival(node); return True
        except TranslateError:
            return False

    def val(self, node):
        """-> ('sc', tree) | ('vc', tree)"""
        if isinstance(node, ast.Constant) and isinstance(node.value, (int, float)) and not isinstance(node.value, bool):
            return ("sc", ("num", Fraction(repr(node.value)) if isinstance(node.value, float) else Fraction(node.value)))
        if isinstance(node, ast.Name):
            if node.id == "pi": return ("sc", ("pi",))
            k = self.env.get(node.id)
            if k is None: raise TranslateError(f"unknown name {node.id}")
            if k[0] == "int": return ("sc", ("cast", k[1]))
            if k[0] in ("sc", "vc"): return k
            raise TranslateError(f"name {node.id} is not a number or a vector")
        if isinstance(node, ast.Attribute):
            if isinstance(node.value, ast.Name) and node.value.id in ("np", "math") and node.attr == "pi": return ("sc", ("pi",))
            if node.attr in ("x", "y", "z"):
                k, v = self.val(node.value)
                if k != "vc": raise TranslateError("component of a non-vector")
                return ("sc", comp(v, "xyz".index(node.attr)))
        if isinstance(node, ast.Subscript) and isinstance(node.slice, ast.Constant) and isinstance(node.slice.value, int):
            # X.vertices[k] : a vertex appended earlier at top level ; v[k] : component
            if self._is_container(node.value):
                k = node.slice.value
                if k >= len(self.top): raise TranslateError("read of a vertex that is not a top-level append")
                return ("vc", self.top[k])
            k, v = self.val(node.value)
            if k == "vc" and 0 <= node.slice.value < 3: return ("sc", comp(v, node.slice.value))
        if isinstance(node, ast.UnaryOp) and isinstance(node.op, ast.USub):
            k, v = self.val(node.operand)
            if k == "sc": return ("sc", ("neg", v))
            return ("vc", ("vec",) + tuple(("neg", comp(v, i)) for i in range(3)))
        if isinstance(node, ast.BinOp):
            if self.is_int(node) and not isinstance(node.op, ast.Div): return ("sc", ("cast", self.ival(node)))
            (ka, a), (kb, b) = self.val(node.left), self.val(node.right)
            op = {ast.Add: "add", ast.Sub: "sub", ast.Mult: "mul", ast.Div: "div"}.get(type(node.op))
            if op is None: raise TranslateError("unsupported float operator")
            if ka == "sc" and kb == "sc": return ("sc", (op, a, b))
            if ka == "vc" and kb == "vc" and op in ("add", "sub"): return ("vc", vadd(a, b, op))
            if ka == "sc" and kb == "vc" and op == "mul": return ("vc", vscale(a, b))
            if ka == "vc" and kb == "sc" and op == "mul": return ("vc", vscale(b, a))
            if ka == "vc" and kb == "sc" and op == "div": return ("vc", vdiv(a, b))
            raise TranslateError("unsupported vector arithmetic")
        if isinstance(node, ast.Call):
            f = node.func
            fname = f.id if isinstance(f, ast.Name) else (f.attr if isinstance(f, ast.Attribute) else None)
            if fname in ("cos", "sin") and len(node.args) == 1:
                k, a = self.val(node.args[0])
                if k != "sc": raise TranslateError("trig of a vector")
                return ("sc", (fname, a))
            if fname in ("min", "max") and len(node.args) == 2 and isinstance(f, ast.Name):
                (ka, a), (kb, b) = self.val(node.args[0]), self.val(node.args[1])
                if ka != "sc" or kb != "sc": raise TranslateError("min/max of vectors")
                self.uses_minmax = True
                return ("sc", ("fn2", "f" + fname, a, b))
            if fname == "Vec":
                if len(node.args) == 1: return self.val(node.args[0])          # Vec(v): a copy
                if len(node.args) in (2, 3):
                    cs = []
                    for a in node.args:
                        k, v = self.val(a)
                        if k != "sc": raise TranslateError("Vec of non-scalars")
                        cs.append(v)
                    if len(cs) == 2: cs.append(("num", Fraction(0)))
                    return ("vc", ("vec",) + tuple(cs))
            if fname == "copy" and isinstance(f, ast.Attribute) and not node.args: return self.val(f.value)
            if fname == "normalized" and len(node.args) == 1:
                k, v = self.val(node.args[0])
                if k != "vc": raise TranslateError("normalized of a scalar")
                self.uses_normalize = True
                return ("vc", ("vcall", "normalize", [("vc", v)]))
            if fname in self.opaque_scalar_fns and len(node.args) == self.opaque_scalar_fns[fname]:
                args = [self.val(a) for a in node.args]
                return ("sc", ("scall", fname, args))
            if fname in self.helpers:
                h = self.helpers[fname]
                args = [self.val(a) for a in node.args]
                if [k for k, _ in args] != [k for _, k in h.params]: raise TranslateError(f"argument kinds of {fname}")
                for e in h.extra:
                    if e not in self.extra: self.extra.append(e)
                if h.uses_normalize: self.uses_normalize = True
                return ("vc", self._let(fname + "_res", ("vcall", fname, args), "vc"))
        raise TranslateError(f"unsupported expression {ast.dump(node)[:100]}")

    def _is_container(self, node):
        return (self.container is not None and isinstance(node, ast.Attribute) and node.attr == "vertices"
                and isinstance(node.value, ast.Name) and node.value.id == self.container)

    def _touches(self, node):
        """does `node` append to / overwrite the vertex container?"""
        for n in ast.walk(node):
            if isinstance(n, ast.Call) and isinstance(n.func, ast.Attribute) and self._is_container(n.func.value) \
                    and n.func.attr in ("append", "extend", "insert", "pop", "clear", "remove"): return True
            if isinstance(n, ast.AugAssign) and self._is_container(n.target): return True
            if isinstance(n, (ast.Assign, ast.Delete)):
                for t in n.targets:
                    if self._is_container(t) or (isinstance(t, ast.Subscript) and self._is_container(t.value)): return True
        return False

    # ---- statements ---------------------------------------------------------------------------------------------
    def _let(self, name, tree, kind="sc"):
        base, k = name, 1
        used = {l[0] for l in self.lets} | self.reserved
        while name in used:
            k += 1; name = f"{base}_{k}"
        self.lets.append((name, kind, tree))
        return ("var", name) if kind == "sc" else ("vvar", name)

    def assign(self, target, value_node, loopvars):
        if isinstance(target, ast.Tuple) and isinstance(value_node, ast.Tuple) and len(target.elts) == len(value_node.elts):
            vals = [self._rhs(t, v) for t, v in zip(target.elts, value_node.elts)]
            for t, v, vn in zip(target.elts, vals, value_node.elts): self._bind(t, v, vn)
            return
        if isinstance(target, ast.Tuple) and all(isinstance(e, ast.Name) for e in target.elts) and len(target.elts) == 3:
            k, v = self.val(value_node)                                       # u, v, w = axis
            if k == "vc":
                for i, e in enumerate(target.elts): self._bind(e, ("sc", comp(v, i)))
                return
        self._bind(target, self._rhs(target, value_node), value_node)

    def _rhs(self, target, value_node):
        if isinstance(target, ast.Name) and target.id in self.opaque_vectors:
            return ("vc", ("vvar", target.id))
        if isinstance(value_node, ast.Call) and getattr(value_node.func, "attr", None) == "linspace" and len(value_node.args) == 3:
            a, b = self.val(value_node.args[0]), self.val(value_node.args[1])
            return ("seq", (a[1], b[1], self.ival(value_node.args[2])))
        if self.is_int(value_node): return ("int", self.ival(value_node))
        try:
            return self.val(value_node)
        except TranslateError:
            return None

    def _fresh(self, name):
        self._gid += 1; self.group[name] = self._gid

    def _set_aliases(self, name, value):
        """in-place change of the array `name` is bound to: every name bound to the same object sees it"""
        g = self.group.get(name)
        for n in [n for n, k in self.group.items() if g is not None and k == g] or [name]:
            self.env[n] = value

    def _bind(self, target, v, src=None):
        if isinstance(target, ast.Name):
            if v is not None and v[0] == "vc":
                if isinstance(src, ast.Name) and src.id in self.group: self.group[target.id] = self.group[src.id]   # alias
                else: self._fresh(target.id)
            else: self.group.pop(target.id, None)
            if isinstance(src, ast.Name) and v is not None and v[0] == "vc":
                self.env[target.id] = v                     # `a = b`: same object, same value, no new let
                return
            if v is None: self.env.pop(target.id, None)
            elif v[0] == "sc":
                self.env[target.id] = ("sc", self._let(target.id, v[1]))
            elif v[0] == "vc" and v[1][0] != "vvar":
                self.env[target.id] = ("vc", self._let(target.id, v[1], "vc"))
            else: self.env[target.id] = v
            return
        if isinstance(target, ast.Attribute) and target.attr in ("x", "y", "z") and isinstance(target.value, ast.Name):
            cur = self.env.get(target.value.id)
            if cur and cur[0] == "vc" and v and v[0] == "sc":
                cs = [comp(cur[1], k) for k in range(3)]
                cs["xyz".index(target.attr)] = v[1]
                self._set_aliases(target.value.id, ("vc", ("vec",) + tuple(cs)))
                return
        raise TranslateError(f"unsupported assignment target {ast.dump(target)[:60]}")

    def cond(self, node):
        if isinstance(node, ast.Name) and self.env.get(node.id, (None,))[0] == "bool": return ("bvar", node.id)
        raise TranslateError("not a boolean parameter")

    def guard(self, node):
        """a float comparison outside the subset: an opaque Boolean function of the names it mentions"""
        names = []
        for n in ast.walk(node):
            if isinstance(n, ast.Name) and n.id in self.env and self.env[n.id][0] in ("sc", "vc") and n.id not in names:
                names.append(n.id)
        gname = f"{self.owner}_guard{len([e for e in self.extra if e[0].startswith(self.owner + '_guard')])}"
        args = [self.env[n] for n in names]
        ty = " → ".join([("K" if k == "sc" else "K × K × K") for k, _ in args] + ["Bool"])
        self.extra.append((gname, ty))
        return ("guard", gname, args)

    def emit_point(self, vtree, loopvars):
        name = f"Pt{len(self.points)}"
        self.points.append((name, list(loopvars), list(self.lets), vtree))
        return ("pt", name, list(loopvars))

    def run(self, stmts, loopvars=(), top=True):
        """-> list-structure tree: ('nil',) ('app', a, b) ('one', pt) ('for', var, start, count, guardcond|None, body)
        ('forvecs', var, [vtrees], body) ('if', cond, a, b) ('forstate', var, count, state, body)"""
        if not stmts: return ("nil",)
        s, rest = stmts[0], stmts[1:]
        app = lambda a, b: a if b == ("nil",) else (b if a == ("nil",) else ("app", a, b))
        if isinstance(s, ast.Return): return ("nil",)
        if isinstance(s, ast.Assign) and len(s.targets) == 1:
            t = s.targets[0]
            if isinstance(t, ast.Subscript) and self._is_container(t.value):
                if not (top and isinstance(t.slice, ast.Constant)): raise TranslateError("vertex written by index inside a loop")
                try:
                    k, v = self.val(s.value)
                    raise TranslateError("vertex overwritten by a translatable value: not supported")
                except TranslateError as e:
                    if "not supported" in str(e): raise
                pname = f"vertex{t.slice.value}"
                self.overwritten[t.slice.value] = pname
                self.extra.append((pname, "K × K × K"))
                return self.run(rest, loopvars, top)
            self.assign(t, s.value, loopvars)
            return self.run(rest, loopvars, top)
        if isinstance(s, ast.AugAssign) and self._is_container(s.target):
            if not isinstance(s.value, ast.List): raise TranslateError("vertices += <not a list literal>")
            out = ("nil",)
            for e in s.value.elts:
                k, v = self.val(e)
                if k != "vc": raise TranslateError("appended vertex is not a vector")
                if top: self.top.append(v)
                out = app(out, ("one", self.emit_point(v, loopvars)))
            return app(out, self.run(rest, loopvars, top))
        if isinstance(s, ast.AugAssign) and isinstance(s.target, ast.Name) and self.env.get(s.target.id, (None,))[0] == "int":
            self.env.pop(s.target.id)            # integer counters mutated in loops are not tracked here
            return self.run(rest, loopvars, top)
        if isinstance(s, ast.Expr) and isinstance(s.value, ast.Call) and isinstance(s.value.func, ast.Attribute) \
                and s.value.func.attr == "append" and self._is_container(s.value.func.value):
            k, v = self.val(s.value.args[0])
            if k != "vc": raise TranslateError("appended vertex is not a vector")
            if top: self.top.append(v)
            return app(("one", self.emit_point(v, loopvars)), self.run(rest, loopvars, top))
        if isinstance(s, ast.If):
            if not self._touches(s) and not self._assigns_tracked(s):
                return self.run(rest, loopvars, top)
            if not self._touches(s):
                # a guarded re-assignment of tracked vectors (e.g. the alternative tangent of `cylinder`)
                if s.orelse: raise TranslateError("if/else re-assignment")
                g = self.guard(s.test)
                before = dict(self.env)
                for b in s.body:
                    if not (isinstance(b, ast.Assign) and len(b.targets) == 1 and isinstance(b.targets[0], ast.Name)):
                        raise TranslateError("guarded block is not a plain assignment")
                    self.assign(b.targets[0], b.value, loopvars)
                for n, v in list(self.env.items()):
                    old = before.get(n)
                    if old is not None and old != v:
                        if old[0] != "vc" or v[0] != "vc": raise TranslateError("guarded scalar re-assignment")
                        self.env[n] = ("vc", ("vite", g, v[1], old[1]))
                return self.run(rest, loopvars, top)
            c = self.cond(s.test)
            saved, nl = dict(self.env), len(self.lets)
            a = self.run(list(s.body), loopvars, False)
            self.env = dict(saved); del self.lets[nl:]
            b = self.run(list(s.orelse), loopvars, False)
            self.env = saved; del self.lets[nl:]
            return app(("if", c, a, b), self.run(rest, loopvars, top))
        if isinstance(s, ast.For):
            if not self._touches(s): return self.run(rest, loopvars, top)
            saved, nl = dict(self.env), len(self.lets)
            body = list(s.body)
            it, tgt = s.iter, s.target
            node = None
            if isinstance(it, ast.Call) and getattr(it.func, "id", None) == "range":
                if len(it.args) == 1: start, count = ("ic", 0), self.ival(it.args[0])
                elif len(it.args) == 2:
                    start = self.ival(it.args[0]); count = ("iop", "-", self.ival(it.args[1]), start)
                else: raise TranslateError("range with step")
                var = tgt.id
                self.env[var] = ("int", ("iv", var))
                guardc, body = self._leading_break(body)
                carried = self._carried(body, saved)
                if carried:
                    node = self._stateful(var, start, count, carried, body, loopvars, saved, nl)
                else:
                    node = ("for", var, start, count, guardc, self.run(body, tuple(loopvars) + ((var, "int"),), False))
            elif isinstance(it, ast.Call) and getattr(it.func, "id", None) == "enumerate" and isinstance(it.args[0], ast.Name) \
                    and self.env.get(it.args[0].id, (None,))[0] == "seq":
                a, b, n = self.env[it.args[0].id][1]
                var, elem = tgt.elts[0].id, tgt.elts[1].id
                self.env[var] = ("int", ("iv", var))
                # linspace(a, b, n)[i] = a + (b - a) * i / (n - 1)
                self.env[elem] = ("sc", ("add", a, ("div", ("mul", ("sub", b, a), ("cast", ("iv", var))),
                                                    ("sub", ("cast", n), ("num", Fraction(1))))))
                guardc, body = self._leading_break(body)
                node = ("for", var, ("ic", 0), n, guardc, self.run(body, tuple(loopvars) + ((var, "int"),), False))
            elif isinstance(it, ast.Tuple) and isinstance(tgt, ast.Name):
                vs = []
                for e in it.elts:
                    k, v = self.val(e)
                    if k != "vc": raise TranslateError("loop over a tuple of non-vectors")
                    vs.append(v)
                self.env[tgt.id] = ("vc", ("vvar", tgt.id))
                node = ("forvecs", tgt.id, vs, self.run(body, tuple(loopvars) + ((tgt.id, "vc"),), False))
            else:
                raise TranslateError(f"unsupported loop {ast.dump(it)[:80]}")
            self.env = saved; del self.lets[nl:]
            return app(node, self.run(rest, loopvars, top))
        if isinstance(s, (ast.While, ast.With, ast.Try)) or self._touches(s):
            if self._touches(s): raise TranslateError(f"unsupported statement touching the vertices: {ast.dump(s)[:80]}")
            # code outside the subset that does not touch the container: whatever it assigns becomes unknown
            for n in ast.walk(s):
                if isinstance(n, ast.Name) and isinstance(n.ctx, ast.Store): self.env.pop(n.id, None)
            return self.run(rest, loopvars, top)
        return self.run(rest, loopvars, top)

    def _assigns_tracked(self, s):
        return any(isinstance(n, ast.Name) and isinstance(n.ctx, ast.Store) and self.env.get(n.id, (None,))[0] == "vc"
                   for n in ast.walk(s))

    def _leading_break(self, body):
        if body and isinstance(body[0], ast.If) and len(body[0].body) == 1 and isinstance(body[0].body[0], ast.Break) \
                and not body[0].orelse:
            cx = PL.Ctx(None, None, [n for n, v in self.env.items() if v[0] == "int"], [])
            return PL.cond(body[0].test, cx), body[1:]
        return None, body

    def _carried(self, body, saved):
        out = []
        for st in body:
            if isinstance(st, ast.Assign) and len(st.targets) == 1 and isinstance(st.targets[0], ast.Name):
                n = st.targets[0].id
                if saved.get(n, (None,))[0] == "vc" and n not in out: out.append(n)
        return out

    def _stateful(self, var, start, count, carried, body, loopvars, saved, nl):
        if len(carried) != 1 or start != ("ic", 0): raise TranslateError("unsupported loop-carried state")
        name = carried[0]
        cur = name + "_cur"
        init = saved[name][1]
        self.env[name] = ("vc", ("vvar", cur))
        inner = self.run(body, tuple(loopvars) + ((var, "int"), (cur, "vc")), False)
        step = self.env[name][1]
        sname = f"State{len(self.states)}"
        self.states.append((sname, var, cur, init, step, list(self.lets), list(loopvars), list(self.lets[:nl])))
        return ("forstate", var, count, sname, cur, inner)


    # ---- straight-line blocks with branches (no emission): assignments, in-place updates, if / elif / else --------------
    def fcond(self, node):
        if isinstance(node, ast.Compare) and len(node.ops) == 1 and type(node.ops[0]) in (ast.Gt, ast.Lt, ast.GtE, ast.LtE):
            (ka, a), (kb, b) = self.val(node.left), self.val(node.comparators[0])
            if ka == "sc" and kb == "sc":
                return ("cmp", {ast.Gt: ">", ast.Lt: "<", ast.GtE: "≥", ast.LtE: "≤"}[type(node.ops[0])], a, b)
        raise TranslateError(f"unsupported float condition {ast.dump(node)[:80]}")

    def block(self, stmts):
        for st in stmts:
            if isinstance(st, ast.Assign) and len(st.targets) == 1:
                self.assign(st.targets[0], st.value, ())
            elif isinstance(st, ast.AugAssign) and isinstance(st.target, ast.Name):
                cur = self.env.get(st.target.id)
                op = {ast.Add: "add", ast.Sub: "sub", ast.Mult: "mul", ast.Div: "div"}.get(type(st.op))
                if cur is None or op is None: raise TranslateError("unsupported augmented assignment")
                k, r = self.val(st.value)
                if cur[0] == "sc" and k == "sc":            # floats are immutable: a rebinding
                    self.env[st.target.id] = ("sc", self._let(st.target.id, (op, cur[1], r)))
                elif cur[0] == "vc":                         # arrays are updated IN PLACE: every alias changes
                    if k == "sc" and op == "mul": new = vscale(r, cur[1])
                    elif k == "sc" and op == "div": new = vdiv(cur[1], r)
                    elif k == "vc" and op in ("add", "sub"): new = vadd(cur[1], r, op)
                    else: raise TranslateError("unsupported in-place vector update")
                    self._set_aliases(st.target.id, ("vc", self._let(st.target.id, new, "vc")))
                else: raise TranslateError("unsupported augmented assignment")
            elif isinstance(st, ast.If):
                c = self.fcond(st.test)
                before, gb, nl = dict(self.env), dict(self.group), len(self.lets)
                self.block(list(st.body)); env_a, lets_a = dict(self.env), self.lets[nl:]
                self.env, self.group = dict(before), dict(gb); del self.lets[nl:]
                self.block(list(st.orelse)); env_b, lets_b = dict(self.env), self.lets[nl:]
                del self.lets[nl:]
                if lets_a or lets_b:
                    # branch-local lets are inlined into the merged values
                    env_a = {n: (k, _inline(t, lets_a)) for n, (k, t) in env_a.items() if k in ("sc", "vc")}
                    env_b = {n: (k, _inline(t, lets_b)) for n, (k, t) in env_b.items() if k in ("sc", "vc")}
                self.env, self.group = dict(before), dict(gb)
                for n in sorted(set(env_a) | set(env_b)):
                    va, vb = env_a.get(n, before.get(n)), env_b.get(n, before.get(n))
                    if va is None or vb is None or va[0] not in ("sc", "vc"): continue
                    if va != vb:
                        if va[0] != vb[0]: raise TranslateError("branches disagree on the kind of a variable")
                        merged = ("vite", c, va[1], vb[1]) if va[0] == "vc" else ("ite", c, va[1], vb[1])
                        self.env[n] = (va[0], self._let(n, merged, va[0]))
                        if va[0] == "vc": self._fresh(n)
            elif isinstance(st, ast.Expr) and isinstance(st.value, ast.Constant):
                continue
            else:
                raise TranslateError(f"unsupported statement in a straight-line block: {ast.dump(st)[:80]}")


def _inline(t, lets):
    """substitute branch-local let names by their definitions"""
    d = {n: tr for n, k, tr in lets}

    def go(x):
        if isinstance(x, tuple):
            if x and x[0] in ("var", "vvar") and len(x) == 2 and x[1] in d: return go(d[x[1]])
            return tuple(go(y) for y in x)
        if isinstance(x, list): return [go(y) for y in x]
        return x
    return go(t)


def translate_while_step(fn, name, carried, ints, scalars, vectors, opaque_scalar_fns, skip_targets=()):
    """the body of the single `while` loop of `fn` as a function of its loop-carried vectors `carried` -> their new values.
    Statements assigning a name in `skip_targets` (e.g. the stop flag) are left out. -> (lean text, evaluator)"""
    loops = [st for st in fn.body if isinstance(st, ast.While)]
    if len(loops) != 1: raise TranslateError("one while loop expected")
    ex = Exec(None, ints, [], scalars, list(vectors) + list(carried), {}, owner=name)
    ex.opaque_scalar_fns = dict(opaque_scalar_fns)
    for c in carried: ex._fresh(c)
    body = [st for st in loops[0].body
            if not (isinstance(st, ast.Assign) and isinstance(st.targets[0], ast.Name) and st.targets[0].id in skip_targets)]
    ex.block(body)
    outs = [ex.env[c][1] for c in carried]
    sig = "(pi : K)"
    for f, ar in opaque_scalar_fns.items(): sig += f" ({f} : " + " → ".join(["K × K × K"] * ar + ["K"]) + ")"
    if ints: sig += " (" + " ".join(ints) + " : Nat)"
    if scalars: sig += " (" + " ".join(scalars) + " : K)"
    allv = list(vectors) + list(carried)
    sig += " (" + " ".join(allv) + " : K × K × K)"
    ret = " × ".join(["(K × K × K)"] * len(carried))
    txt = (f"/-- one pass through the `while` loop of `{fn.name}`: new values of ({', '.join(carried)}) -/\n"
           f"def {name} {sig} : {ret} :=\n  {_lets(ex.lets, '(' + ', '.join(L_vec(o) for o in outs) + ')')}\n\n")

    def evaluate(values):
        w = dict(values)
        E_lets(ex.lets, w, {})
        return [E_vec(o, w, {}) for o in outs]
    return txt, evaluate


# ---------------------------------------------------------------------------------------------------------------------
# Lean printer
# ---------------------------------------------------------------------------------------------------------------------
def L_int(t):
    if t[0] == "ic": return str(t[1])
    if t[0] == "iv": return PL_rename(t[1])
    return f"({L_int(t[2])} {t[1]} {L_int(t[3])})"


_RENAME = {"open": "isOpen"}


def PL_rename(n): return _RENAME.get(n, n)


def L_sc(t):
    k = t[0]
    if k == "num":
        f = t[1]
        return f"({f.numerator} : K)" if f.denominator == 1 else f"(({f.numerator} : K) / {f.denominator})"
    if k == "cast": return f"(({L_int(t[1])} : Nat) : K)"
    if k == "var": return PL_rename(t[1])
    if k == "pi": return "pi"
    if k in ("add", "sub", "mul", "div"):
        return f"({L_sc(t[1])} {dict(add='+', sub='-', mul='*', div='/')[k]} {L_sc(t[2])})"
    if k == "neg": return f"(-{L_sc(t[1])})"
    if k in ("cos", "sin"): return f"({k} {L_sc(t[1])})"
    if k == "comp": return f"({L_vec(t[1])}){['.1', '.2.1', '.2.2'][t[2]]}"
    if k == "fn2": return f"({t[1]} {L_sc(t[2])} {L_sc(t[3])})"
    if k == "ite": return f"(if {L_cond(t[1])} then {L_sc(t[2])} else {L_sc(t[3])})"
    if k == "scall": return f"({t[1]} " + " ".join((L_sc(a) if kk == "sc" else L_vec(a)) for kk, a in t[2]) + ")"
    raise TranslateError(f"cannot print {k}")


def L_vec(t):
    k = t[0]
    if k == "vec": return f"({L_sc(t[1])}, {L_sc(t[2])}, {L_sc(t[3])})"
    if k == "vvar": return PL_rename(t[1])
    if k == "vcall":
        if t[1] == "normalize": return f"(normalize {L_vec(t[2][0][1])})"
        return f"({t[1]} __CTX__ " + " ".join((L_sc(a) if kk == 'sc' else L_vec(a)) for kk, a in t[2]) + ")"
    if k == "vite": return f"(if {L_cond(t[1])} then {L_vec(t[2])} else {L_vec(t[3])})"
    raise TranslateError(f"cannot print {k}")


def L_cond(c):
    if c[0] == "cmp": return f"({L_sc(c[2])} {c[1]} {L_sc(c[3])})"
    if c[0] == "bvar": return f"{PL_rename(c[1])} = true"
    if c[0] == "guard": return f"{c[1]} " + " ".join((L_sc(a) if k == "sc" else L_vec(a)) for k, a in c[2]) + " = true"
    raise TranslateError("cannot print condition")


def _lets(lets, body):
    for n, k, t in reversed(lets):
        body = (f"let {PL_rename(n)} := {L_sc(t)}\n  {body}" if k == "sc" else f"let {PL_rename(n)} : K × K × K := {L_vec(t)}\n  {body}")
    return body


def E_lets(lets, w, helpers):
    for n, k, t in lets:
        try: w[n] = E_sc(t, w, helpers) if k == "sc" else E_vec(t, w, helpers)
        except (KeyError, ZeroDivisionError): pass


class Site:
    """everything generated for one function"""
    def __init__(self, lean, evaluate, nparams):
        self.lean, self.evaluate, self.nparams = lean, evaluate, nparams


def signature(ints, bools, scalars, vectors, extra, uses_normalize, uses_minmax=False):
    s = "(cos sin : K → K) (pi : K)"
    if uses_minmax: s += " (fmin fmax : K → K → K)"
    if uses_normalize: s += " (normalize : K × K × K → K × K × K)"
    for n, ty in extra: s += f" ({n} : {ty})"
    if ints: s += " (" + " ".join(PL_rename(i) for i in ints) + " : Nat)"
    if bools: s += " (" + " ".join(PL_rename(b) for b in bools) + " : Bool)"
    if scalars: s += " (" + " ".join(scalars) + " : K)"
    if vectors: s += " (" + " ".join(vectors) + " : K × K × K)"
    return s


def argstring(ints, bools, scalars, vectors, extra, uses_normalize, uses_minmax=False):
    a = ["cos", "sin", "pi"] + (["fmin", "fmax"] if uses_minmax else []) + (["normalize"] if uses_normalize else []) + [n for n, _ in extra]
    return " ".join(a + [PL_rename(x) for x in list(ints) + list(bools)] + list(scalars) + list(vectors))


def _ctx_of(h):
    """argument prefix a helper call passes on: the helper's own ambient parameters"""
    return " ".join(["cos", "sin", "pi"] + (["normalize"] if h.uses_normalize else []) + [n for n, _ in h.extra])


def _fix_ctx(txt, helpers):
    for name, h in helpers.items():
        txt = txt.replace(f"({name} __CTX__ ", f"({name} {_ctx_of(h)} ")
    return txt


def lean_structure(t, gen, args):
    k = t[0]
    if k == "nil": return "[]"
    if k == "app": return f"({lean_structure(t[1], gen, args)} ++ {lean_structure(t[2], gen, args)})"
    if k == "one":
        _, name, lv = t[1]
        return "[" + " ".join([f"{gen}{name}", args] + [PL_rename(n) for n, _ in lv]) + "]"
    if k == "if": return f"(if {L_cond(t[1])} then {lean_structure(t[2], gen, args)} else {lean_structure(t[3], gen, args)})"
    if k == "for":
        _, var, start, count, guardc, body = t
        dom = f"(List.range {L_int(count)})" if start == ("ic", 0) else f"(List.range' {L_int(start)} {L_int(count)})"
        if guardc: dom = f"({dom}.takeWhile (fun {var} => decide (¬({guardc}))))"
        return f"({dom}.flatMap (fun {var} => {lean_structure(body, gen, args)}))"
    if k == "forvecs":
        _, var, vs, body = t
        return f"([{', '.join(L_vec(v) for v in vs)}].flatMap (fun {var} => {lean_structure(body, gen, args)}))"
    if k == "forstate":
        _, var, count, sname, vname, body = t
        return (f"((List.range {L_int(count)}).flatMap (fun {var} => (fun {vname} => {lean_structure(body, gen, args)}) "
                f"({gen}{sname} {args} {var})))")
    raise TranslateError(f"cannot print structure {k}")


def translate_generator(fn, gen, container, ints, bools, scalars, vectors, helpers=None, opaque_vectors=()):
    """-> (lean text, evaluator) for the vertex list of one generator"""
    helpers = helpers or {}
    ex = Exec(container, ints, bools, scalars, list(vectors) + list(opaque_vectors), helpers, opaque_vectors, owner=gen)
    tree = ex.run(list(fn.body))
    allvec = list(vectors) + list(opaque_vectors)
    sig = signature(ints, bools, scalars, allvec, ex.extra, ex.uses_normalize, ex.uses_minmax)
    args = argstring(ints, bools, scalars, allvec, ex.extra, ex.uses_normalize, ex.uses_minmax)
    out = ""
    for (sname, var, vname, init, step, lets, lv, pre) in ex.states:
        lvs = "".join(f" ({PL_rename(n)} : {'Nat' if k == 'int' else 'K × K × K'})" for n, k in lv)
        out += (f"/-- loop-carried vector `{vname}` of `{gen}`: its value at the START of iteration `{var}` -/\n"
                f"def {gen}{sname} {sig}{lvs} : Nat → K × K × K\n  | 0 => {_lets(pre, L_vec(init))}\n"
                f"  | {var} + 1 => (fun {vname} => {_lets(lets, L_vec(step))}) ({gen}{sname} {args}{''.join(' ' + PL_rename(n) for n, _ in lv)} {var})\n\n")
    for (name, lv, lets, vtree) in ex.points:
        lvs = "".join(f" ({PL_rename(n)} : {'Nat' if k == 'int' else 'K × K × K'})" for n, k in lv)
        out += (f"/-- position expression of the vertex appended at emission site {name[2:]} of `{gen}` -/\n"
                f"def {gen}{name} {sig}{lvs} : K × K × K :=\n  {_lets(lets, L_vec(vtree))}\n\n")
    body = lean_structure(tree, gen, args)
    for idx, pname in sorted(ex.overwritten.items()):
        body = f"({body}).set {idx} {pname}"
    out += (f"/-- vertices appended by `{gen}`, in order (positions as expressions over a field with abstract cos/sin/pi) -/\n"
            f"def {gen}Verts {sig} : List (K × K × K) :=\n  {body}\n\n")
    out = _fix_ctx(out, helpers)

    def evaluate(values):
        return eval_structure(tree, ex, dict(values), helpers)
    return out, evaluate, ex


def translate_helper(fn, params, helpers=None):
    """a pure helper `def f(args): …; return <vector>` -> Fn + lean text. params: [(name, 'sc'|'vc')]"""
    ex = Exec(None, [], [], [n for n, k in params if k == "sc"], [n for n, k in params if k == "vc"], helpers or {}, owner=fn.name)
    ret = None
    stmts = list(fn.body)
    if stmts and isinstance(stmts[0], ast.Expr) and isinstance(stmts[0].value, ast.Constant): stmts = stmts[1:]   # docstring
    early = None
    for s in stmts:
        if isinstance(s, ast.Return):
            ret = ex.val(s.value); break
        if isinstance(s, ast.If) and len(s.body) == 1 and isinstance(s.body[0], ast.Return) and not s.orelse:
            if early is not None: raise TranslateError("two early returns")
            early = (ex.guard(s.test), ex.val(s.body[0].value))
            continue
        if isinstance(s, ast.Assign) and len(s.targets) == 1:
            ex.assign(s.targets[0], s.value, ()); continue
        raise TranslateError(f"unsupported helper statement {ast.dump(s)[:80]}")
    if ret is None or ret[0] != "vc": raise TranslateError("helper does not return a vector")
    res = ret[1]
    if early: res = ("vite", early[0], early[1][1], res)
    h = Fn(fn.name, params, res, ex.extra)
    h.uses_normalize = ex.uses_normalize
    h.lets = list(ex.lets)
    sig = "(cos sin : K → K) (pi : K)" + (" (normalize : K × K × K → K × K × K)" if ex.uses_normalize else "")
    for n, ty in ex.extra: sig += f" ({n} : {ty})"
    for n, k in params: sig += f" ({n} : {'K' if k == 'sc' else 'K × K × K'})"
    txt = (f"/-- `{fn.name}` (mouette/geometry/rotations.py) as an expression over a field with abstract cos/sin -/\n"
           f"def {fn.name} {sig} : K × K × K :=\n  {_lets(ex.lets, L_vec(res))}\n\n")
    return h, txt


# ---------------------------------------------------------------------------------------------------------------------
# float evaluator (same trees)
# ---------------------------------------------------------------------------------------------------------------------
def E_int(t, v):
    if t[0] == "ic": return t[1]
    if t[0] == "iv": return int(v[t[1]])
    a, b = E_int(t[2], v), E_int(t[3], v)
    return {"+": a + b, "-": max(a - b, 0), "*": a * b, "/": a // b if b else 0, "%": a % b if b else a}[t[1]]


def E_sc(t, v, helpers):
    k = t[0]
    if k == "num": return float(t[1])
    if k == "cast": return float(E_int(t[1], v))
    if k == "var": return v[t[1]]
    if k == "pi": return math.pi
    if k in ("add", "sub", "mul", "div"):
        a, b = E_sc(t[1], v, helpers), E_sc(t[2], v, helpers)
        return a + b if k == "add" else a - b if k == "sub" else a * b if k == "mul" else a / b
    if k == "neg": return -E_sc(t[1], v, helpers)
    if k == "cos": return math.cos(E_sc(t[1], v, helpers))
    if k == "sin": return math.sin(E_sc(t[1], v, helpers))
    if k == "comp": return E_vec(t[1], v, helpers)[t[2]]
    if k == "fn2": return (min if t[1] == "fmin" else max)(E_sc(t[2], v, helpers), E_sc(t[3], v, helpers))
    if k == "ite": return E_sc(t[2], v, helpers) if E_cond(t[1], v, helpers) else E_sc(t[3], v, helpers)
    if k == "scall": return v[t[1]](*[(E_sc(a, v, helpers) if kk == "sc" else E_vec(a, v, helpers)) for kk, a in t[2]])
    raise TranslateError(k)


def E_cond(c, v, helpers):
    if c[0] == "cmp":
        a, b = E_sc(c[2], v, helpers), E_sc(c[3], v, helpers)
        return a > b if c[1] == ">" else a < b if c[1] == "<" else a >= b if c[1] == "≥" else a <= b
    if c[0] == "bvar": return bool(v[c[1]])
    if c[0] == "guard": return bool(v[c[1]](*[(E_sc(a, v, helpers) if k == "sc" else E_vec(a, v, helpers)) for k, a in c[2]]))
    raise TranslateError(c[0])


def E_vec(t, v, helpers):
    k = t[0]
    if k == "vec": return tuple(E_sc(t[i], v, helpers) for i in (1, 2, 3))
    if k == "vvar": return tuple(v[t[1]])
    if k == "vite": return E_vec(t[2], v, helpers) if E_cond(t[1], v, helpers) else E_vec(t[3], v, helpers)
    if k == "vcall":
        args = [(E_sc(a, v, helpers) if kk == "sc" else E_vec(a, v, helpers)) for kk, a in t[2]]
        if t[1] == "normalize":
            n = math.sqrt(sum(c * c for c in args[0]))
            return tuple(c / n for c in args[0])
        h = helpers[t[1]]
        w = dict(v)
        for (n, _), a in zip(h.params, args): w[n] = a
        E_lets(h.lets, w, helpers)
        return E_vec(h.result, w, helpers)
    raise TranslateError(k)


def eval_structure(t, ex, v, helpers):
    k = t[0]
    if k == "nil": return []
    if k == "app": return eval_structure(t[1], ex, v, helpers) + eval_structure(t[2], ex, v, helpers)
    if k == "one":
        _, name, lv = t[1]
        for (pn, plv, lets, vtree) in ex.points:
            if pn == name:
                w = dict(v)
                E_lets(lets, w, helpers)
                return [E_vec(vtree, w, helpers)]
    if k == "if": return eval_structure(t[2] if E_cond(t[1], v, helpers) else t[3], ex, v, helpers)
    if k == "for":
        _, var, start, count, guardc, body = t
        out = []
        s0 = E_int(start, v)
        for i in range(s0, s0 + E_int(count, v)):
            w = dict(v); w[var] = i
            if guardc and not _py_guard(guardc, w): break
            out += eval_structure(body, ex, w, helpers)
        return out
    if k == "forvecs":
        out = []
        for vt in t[2]:
            w = dict(v); w[t[1]] = E_vec(vt, v, helpers)
            out += eval_structure(t[3], ex, w, helpers)
        return out
    if k == "forstate":
        _, var, count, sname, vname, body = t
        st = [s for s in ex.states if s[0] == sname][0]
        w0 = dict(v); E_lets(st[7], w0, helpers)
        cur = E_vec(st[3], w0, helpers)
        out = []
        for i in range(E_int(count, v)):
            w = dict(v); w[var] = i; w[vname] = cur
            out += eval_structure(body, ex, w, helpers)
            E_lets(st[5], w, helpers)
            cur = E_vec(st[4], w, helpers)
        return out
    raise TranslateError(k)


def _py_guard(guardc, w):
    """the Lean condition string of a leading `if c: break` (integers only), evaluated in Python: loop continues while ¬c"""
    s = guardc.replace("∨", " or ").replace("∧", " and ").replace("¬", " not ").replace("≤", "<=").replace("≥", ">=").replace("≠", "!=")
    s = s.replace(" = ", " == ")
    return not eval(s, {}, {k: x for k, x in w.items() if isinstance(x, int)})
