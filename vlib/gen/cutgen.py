"""Generators for C16 (cutting) and C17 (Tutte): connected oriented triangulated surfaces with controlled genus /
number of border loops, singularity sets, feature sets; triangulated disks with controlled border length and chords.
Everything derives from the rng handed in. Own file of agent ag_c16 (uses vlib/gen/mesh.py, does not modify it)."""
import math

from . import mesh as G


def _tri(F):
    out = []
    for f in F:
        for i in range(1, len(f) - 1):
            out.append([f[0], f[i], f[i + 1]])
    return out


def tetra():
    V = [[1.0, 1.0, 1.0], [1.0, -1.0, -1.0], [-1.0, 1.0, -1.0], [-1.0, -1.0, 1.0]]
    F = [[0, 1, 2], [0, 3, 1], [0, 2, 3], [1, 3, 2]]
    return V, F


def regular_torus(nu, nv):
    """flat-ish torus with many equal edge lengths (ties in shortest paths)"""
    V = []
    for i in range(nu):
        for j in range(nv):
            u, v = 2 * math.pi * i / nu, 2 * math.pi * j / nv
            V.append([G.dy((3 + math.cos(v)) * math.cos(u)), G.dy((3 + math.cos(v)) * math.sin(u)), G.dy(math.sin(v))])
    F = []
    for i in range(nu):
        for j in range(nv):
            a, b = i * nv + j, ((i + 1) % nu) * nv + j
            c, d = ((i + 1) % nu) * nv + (j + 1) % nv, i * nv + (j + 1) % nv
            F += [[a, b, c], [a, c, d]]
    return V, F


def connected_tri_surface(rng, max_faces=60, want=None):
    """Returns {"V","F","tag","stats"}: connected, oriented, manifold, triangles only.
    want: None or one of 'sphere','torus','genus2','disk','annulus' (base family before holes are punched)."""
    fams = ["sphere", "sphere", "torus", "torus", "genus2", "disk", "disk", "disk-regular", "delaunay", "annulus", "tetra", "torus-regular"]
    fam = want or rng.choice(fams)
    s = max(2, int(math.sqrt(max_faces / 2)))
    if fam == "sphere":
        V, F = G.sphere_like(rng, rng.randint(0, 1 if max_faces < 200 else 2), tri=True)
    elif fam == "tetra":
        V, F = tetra()
    elif fam == "torus":
        V, F = G.torus(rng, rng.randint(3, max(3, s)), rng.randint(3, max(3, s)), True)
    elif fam == "torus-regular":
        V, F = regular_torus(rng.randint(3, max(3, s)), rng.randint(3, max(3, s)))
    elif fam == "genus2":
        V, F = G.genus2(rng, rng.randint(3, 4 if max_faces < 200 else 6), True)
    elif fam == "disk":
        V, F = G.grid(rng, rng.randint(2, s + 2), rng.randint(2, s + 2), True)
    elif fam == "disk-regular":
        V, F = G.grid(rng, rng.randint(3, s + 2), rng.randint(3, s + 2), True, jitter=False, flat=True)
    elif fam == "delaunay":
        V, F = G.delaunay_disk(rng, rng.randint(4, max(5, max_faces // 2)))
    else:
        V, F = G.annulus(rng, rng.randint(3, max(3, s)), rng.randint(2, max(2, s)), True)
    tag = [fam]
    F = _tri(F)
    if rng.random() < 0.45 and len(F) > 8:
        k = rng.randint(1, 3)
        V, F = G.remove_faces(rng, V, F, k); tag.append(f"holes{k}")
    F = G.rotate_faces(rng, F)
    F = G.shuffle_faces(rng, F)
    if rng.random() < 0.7:
        V, F, _ = G.renumber(rng, V, F)
    V = [[float(c) for c in v] for v in V]
    st = G.surface_stats(len(V), F)
    if not (st["manifold"] and st["unused"] == 0 and st["components"] == 1):
        return connected_tri_surface(rng, max_faces, want="disk")
    return {"V": V, "F": F, "tag": "+".join(tag), "stats": st}


def border_vertices(F):
    sides = {(f[i], f[(i + 1) % len(f)]) for f in F for i in range(len(f))}
    return sorted({a for (a, b) in sides if (b, a) not in sides} | {b for (a, b) in sides if (b, a) not in sides})


def interior_edges(F):
    sides = {(f[i], f[(i + 1) % len(f)]) for f in F for i in range(len(f))}
    return sorted({(min(a, b), max(a, b)) for (a, b) in sides if (b, a) in sides})


def singularity_sets(rng, nV, F):
    """a list of (kind, sorted list) : empty, one, few, many, border-only, mixed"""
    bv = border_vertices(F)
    iv = [v for v in range(nV) if v not in set(bv)]
    allv = list(range(nV))
    out = [("empty", [])]
    out.append(("one", [rng.choice(iv or allv)]))
    k = min(len(allv), rng.randint(2, 5))
    out.append(("few", rng.sample(allv, k)))
    k = min(len(allv), max(2, nV // 3))
    out.append(("many", rng.sample(allv, k)))
    if bv:
        out.append(("border", rng.sample(bv, min(len(bv), rng.randint(1, 3)))))
        if iv:
            out.append(("mixed", rng.sample(bv, min(len(bv), 2)) + rng.sample(iv, min(len(iv), 2))))
    else:
        out.append(("two", rng.sample(allv, min(2, len(allv)))))
    return out


def regular_grid_tri(nu, nv, diag):
    """flat unit grid, diag 0/1: all diagonals one way, 2: alternating (many equal path lengths)"""
    V = [[float(i), float(j), 0.0] for i in range(nu) for j in range(nv)]
    F = []
    for i in range(nu - 1):
        for j in range(nv - 1):
            a, b, c, d = i * nv + j, (i + 1) * nv + j, (i + 1) * nv + j + 1, i * nv + j + 1
            dd = diag if diag < 2 else (i + j) % 2
            F += [[a, b, c], [a, c, d]] if dd == 0 else [[a, b, d], [b, c, d]]
    return V, F


def pairs_at_hole(rng, budget):
    """regular grids with ONE interior triangle removed; singular pairs (s1 next to the hole, s2 next to s1), with and
    without one interior feature edge: shortest paths of equal length that share a vertex and end on different vertices of
    the same border loop (the configuration of the defect found by thorough seed 5). Yields at most `budget` cases,
    sampled uniformly from the full enumeration."""
    allc = []
    for (nu, nv, diag) in [(6, 6, 0), (6, 6, 1), (6, 7, 2)]:
        V, F0 = regular_grid_tri(nu, nv, diag)
        ob = set(border_vertices(F0))
        for hole in range(len(F0)):
            if any(v in ob for v in F0[hole]): continue
            F = F0[:hole] + F0[hole + 1:]
            nb = {}
            for f in F:
                for i in range(3): nb.setdefault(f[i], set()).update(f)
            b = set(border_vertices(F)); hv = set(F0[hole])
            ie = [e for e in interior_edges(F) if e[0] not in b and e[1] not in b]
            for s1 in [v for v in range(len(V)) if v not in b and nb[v] & hv]:
                for s2 in sorted(v for v in nb[s1] if v != s1 and v not in b):
                    for feat in (None, {"mode": "edges", "edges": [list(ie[0])]}):
                        allc.append({"V": V, "F": F, "sing": [s1, s2], "feat": feat, "tag": "grid-regular+hole", "sk": "pair-at-hole"})
                    # history: a first cutter for s1 alone has worked on the mesh, then a cutter for s2 alone (the forced paths
                    # of the two runs cross: anything left over from the first run closes a cycle with the second)
                    allc.append({"V": V, "F": F, "sing": [s2], "feat": {"mode": "edges", "edges": [list(ie[0])]}, "hist": "second",
                                 "hist_sing": [s1], "tag": "grid-regular+hole", "sk": "pair-at-hole"})
    hist = [c for c in allc if c.get("hist")]
    plain = [c for c in allc if not c.get("hist")]
    if budget < len(plain):
        plain = rng.sample(plain, budget)
    return plain + hist      # the two-cutter histories are always run in full (a leftover of the first run shows on 2 of 1256)


# ------------------------------------------------------------------------------------------------
# disks for C17
# ------------------------------------------------------------------------------------------------
def fan_disk(rng, n, inner=1):
    """polygon with n border vertices triangulated around `inner` concentric rings + centre (no chord)"""
    V, F = [], []
    for i in range(n):
        a = 2 * math.pi * i / n
        r = 2.0 + rng.uniform(-0.2, 0.2)
        V.append([G.dy(r * math.cos(a)), G.dy(r * math.sin(a)), G.dy(rng.uniform(-0.3, 0.3))])
    prev = list(range(n))
    for k in range(inner):
        ring = []
        r = 2.0 * (inner - k) / (inner + 1)
        for i in range(n):
            a = 2 * math.pi * (i + 0.5 * (k + 1)) / n
            V.append([G.dy(r * math.cos(a)), G.dy(r * math.sin(a)), G.dy(rng.uniform(-0.3, 0.3))])
            ring.append(len(V) - 1)
        for i in range(n):
            a, b = prev[i], prev[(i + 1) % n]
            c, d = ring[i], ring[(i + 1) % n]
            F += [[a, b, c], [b, d, c]]
        prev = ring
    V.append([0.0, 0.0, G.dy(rng.uniform(-0.3, 0.3))])
    c = len(V) - 1
    for i in range(n):
        F.append([prev[i], prev[(i + 1) % n], c])
    return V, F


def polygon_chords(rng, n):
    """convex polygon with n vertices triangulated by random non-crossing chords only (no interior vertex)"""
    V = []
    for i in range(n):
        a = 2 * math.pi * i / n
        V.append([G.dy(2 * math.cos(a)), G.dy(2 * math.sin(a)), G.dy(rng.uniform(-0.3, 0.3))])
    F = []

    def rec(poly):
        if len(poly) == 3:
            F.append(list(poly)); return
        m = len(poly)
        i = rng.randrange(m)
        j = (i + rng.randint(2, m - 2)) % m
        i, j = min(i, j), max(i, j)
        rec(poly[i:j + 1]); rec(poly[j:] + poly[:i + 1])
    rec(list(range(n)))
    return V, F


def split_faces(rng, V, F, k):
    """insert k interior vertices by 1-3 splitting random faces (keeps border, creates interior vertices next to chords)"""
    V = [list(v) for v in V]; F = [list(f) for f in F]
    for _ in range(k):
        i = rng.randrange(len(F))
        a, b, c = F[i]
        w = [rng.uniform(0.2, 0.5), rng.uniform(0.2, 0.5)]
        w.append(1 - w[0] - w[1])
        p = [G.dy(w[0] * V[a][t] + w[1] * V[b][t] + w[2] * V[c][t], 256) for t in range(3)]
        if p in V: continue
        V.append(p); d = len(V) - 1
        F[i] = [a, b, d]; F += [[b, c, d], [c, a, d]]
    return V, F


def flip_edges(rng, V, F, k):
    """random edge flips that keep the surface a manifold disk (checked)"""
    F = [list(f) for f in F]
    for _ in range(k * 3):
        if k == 0: break
        sides = {}
        for fi, f in enumerate(F):
            for i in range(3): sides[(f[i], f[(i + 1) % 3])] = (fi, i)
        cand = [s for s in sides if (s[1], s[0]) in sides and s[0] < s[1]]
        if not cand: break
        a, b = rng.choice(cand)
        f1, i1 = sides[(a, b)]; f2, i2 = sides[(b, a)]
        c = F[f1][(i1 + 2) % 3]; d = F[f2][(i2 + 2) % 3]
        if (c, d) in sides or (d, c) in sides or c == d: continue
        G2 = [f for j, f in enumerate(F) if j not in (f1, f2)] + [[a, d, c], [d, b, c]]
        st = G.surface_stats(len(V), G2)
        if st["manifold"] and st["chi"] == 1 and st["unused"] == 0 and st["loops"] == 1:
            F = G2; k -= 1
    return V, F


def min_angle_deg(V, F):
    """smallest corner angle (degrees) over all triangles, in 3D"""
    best = 180.0
    for f in F:
        for i in range(3):
            a, b, c = V[f[i]], V[f[(i + 1) % 3]], V[f[(i + 2) % 3]]
            u = [b[t] - a[t] for t in range(3)]; v = [c[t] - a[t] for t in range(3)]
            nu, nv = math.sqrt(sum(x * x for x in u)), math.sqrt(sum(x * x for x in v))
            if nu == 0 or nv == 0: return 0.0
            cs = max(-1.0, min(1.0, sum(x * y for x, y in zip(u, v)) / (nu * nv)))
            best = min(best, math.degrees(math.acos(cs)))
    return best


def tri_disk(rng, max_faces=60, border_len=None):
    """Returns {"V","F","tag"}: triangulated topological disk."""
    fam = rng.choice(["grid", "grid-regular", "delaunay", "fan", "fan", "chords", "chords+split", "grid+flip", "strip"])
    s = max(2, int(math.sqrt(max_faces / 2)))
    n = border_len or rng.randint(3, max(4, min(24, max_faces // 2)))
    if fam == "grid": V, F = G.grid(rng, rng.randint(2, s + 2), rng.randint(2, s + 2), True)
    elif fam == "grid-regular": V, F = G.grid(rng, rng.randint(2, s + 2), rng.randint(2, s + 2), True, jitter=False)
    elif fam == "strip": V, F = G.grid(rng, 2, rng.randint(2, max(3, min(12, max_faces // 2))), True)
    elif fam == "delaunay": V, F = G.delaunay_disk(rng, rng.randint(4, max(5, max_faces // 2)))
    elif fam == "fan": V, F = fan_disk(rng, n, rng.randint(0, 2))
    elif fam == "chords": V, F = polygon_chords(rng, n)
    elif fam == "chords+split":
        V, F = polygon_chords(rng, n); V, F = split_faces(rng, V, F, rng.randint(1, 6))
    else:
        V, F = G.grid(rng, rng.randint(3, s + 2), rng.randint(3, s + 2), True); V, F = flip_edges(rng, V, F, rng.randint(1, 6))
    F = _tri(F)
    F = G.rotate_faces(rng, F)
    F = G.shuffle_faces(rng, F)
    if rng.random() < 0.7:
        V, F, _ = G.renumber(rng, V, F)
    V = [[float(c) for c in v] for v in V]
    st = G.surface_stats(len(V), F)
    if not (st["manifold"] and st["unused"] == 0 and st["components"] == 1 and st["chi"] == 1 and st["loops"] == 1) \
            or min_angle_deg(V, F) < 4.0:
        return tri_disk(rng, max_faces, border_len)
    return {"V": V, "F": F, "tag": fam, "stats": st}
