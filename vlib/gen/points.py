"""Point-set generators for C11/C12: uniform, lattice, clustered, collinear, duplicated, axis-degenerate sets of
dimension 1..6.  Coordinates are dyadic rationals k/den (den | 64) of small magnitude, returned as strings of
`fractions.Fraction` ("p/q" or "p"), so that float(x) is exact, squared distances are exact in binary64 and the
square roots of distinct squared distances are distinct floats (ties in the code are exactly the ties in Q).
All randomness comes from the `random.Random` handed in."""
from fractions import Fraction
from math import isqrt

KINDS = ["uniform", "lattice", "clustered", "collinear", "duplicated", "degenerate-axis", "identical", "two-values"]


def fs(x):
    x = Fraction(x)
    return str(x.numerator) if x.denominator == 1 else f"{x.numerator}/{x.denominator}"


def F(s):
    return Fraction(s)


def _coord(rng, span, den):
    return Fraction(rng.randint(-span * den, span * den), den)


def point_set(rng, kind, n, dim, span=8):
    den = rng.choice([1, 1, 2, 4, 8])
    if kind == "uniform":
        pts = [[_coord(rng, span, den) for _ in range(dim)] for _ in range(n)]
    elif kind == "lattice":   # small integer lattice: many equal distances, many repeated coordinates
        w = rng.randint(1, 4)
        pts = [[Fraction(rng.randint(0, w)) for _ in range(dim)] for _ in range(n)]
    elif kind == "clustered":
        nc = rng.randint(1, 4)
        cs = [[_coord(rng, span, den) for _ in range(dim)] for _ in range(nc)]
        pts = []
        for _ in range(n):
            c = rng.choice(cs)
            pts.append([c[a] + Fraction(rng.randint(-3, 3), 8 * den) for a in range(dim)])
    elif kind == "collinear":
        o = [_coord(rng, span, den) for _ in range(dim)]
        d = [Fraction(rng.randint(-2, 2)) for _ in range(dim)]
        pts = [[o[a] + Fraction(t, den) * d[a] for a in range(dim)] for t in (rng.randint(-10, 10) for _ in range(n))]
    elif kind == "duplicated":
        m = max(1, n // rng.randint(2, 6))
        base = [[_coord(rng, span, den) for _ in range(dim)] for _ in range(m)]
        pts = [list(rng.choice(base)) for _ in range(n)]
    elif kind == "degenerate-axis":   # one or more axes constant
        pts = [[_coord(rng, span, den) for _ in range(dim)] for _ in range(n)]
        for a in rng.sample(range(dim), rng.randint(1, dim)):
            v = _coord(rng, span, den)
            for p in pts: p[a] = v
    elif kind == "identical":
        p = [_coord(rng, span, den) for _ in range(dim)]
        pts = [list(p) for _ in range(n)]
    elif kind == "two-values":   # every coordinate takes one of two values, the larger one in the majority
        lo = [_coord(rng, span, den) for _ in range(dim)]
        hi = [lo[a] + Fraction(rng.randint(1, 5), den) for a in range(dim)]
        pts = [[(hi[a] if rng.random() < 0.7 else lo[a]) for a in range(dim)] for _ in range(n)]
    else:
        raise ValueError(kind)
    return [[fs(c) for c in p] for p in pts]


def sq_dist(p, q):
    return sum((F(a) - F(b)) ** 2 for a, b in zip(p, q))


def rational_sqrt(x):
    """exact square root of a non-negative Fraction if it is rational, else None"""
    x = Fraction(x)
    n, d = x.numerator, x.denominator
    rn, rd = isqrt(n), isqrt(d)
    if rn * rn == n and rd * rd == d:
        return Fraction(rn, rd)
    return None


def query_point(rng, pts, dim, span=8):
    r = rng.random()
    if pts and r < 0.3:                      # on a data point
        return list(rng.choice(pts))
    if r < 0.5:                              # far outside
        return [fs(Fraction(rng.choice([-1, 1]) * rng.randint(span + 1, 3 * span))) for _ in range(dim)]
    if pts and r < 0.7:                      # near a data point, on the lattice of the data
        p = rng.choice(pts)
        return [fs(F(c) + Fraction(rng.randint(-4, 4), 4)) for c in p]
    return [fs(Fraction(rng.randint(-span * 8, span * 8), 8)) for _ in range(dim)]


def radius_for(rng, pts, q):
    """0, an exact (rational) query-point distance, or a random dyadic radius"""
    r = rng.random()
    if r < 0.15 or not pts:
        return "0"
    if r < 0.6:
        cands = [rational_sqrt(sq_dist(p, q)) for p in rng.sample(pts, min(len(pts), 12))]
        cands = [c for c in cands if c is not None]
        if cands:
            return fs(rng.choice(cands))
    return fs(Fraction(rng.randint(0, 160), 8))
