"""C15: the bodies of mouette/processing/border.py (and features.py) translated imperatively to Lean on every run
(compiler: vlib/gen/c01_pylean.py; output: lean/Mouette/Generated/C15Border.lean, C15Feat.lean; bridges: Props/C15Source.lean).

VOCABULARY (trusted): how the mesh API the functions call is rendered over the C01 model `S : Surf`
  mesh.boundary_vertices                 boundaryVertices S            mesh.is_vertex_on_border(v)     isVertexOnBorder S v
  mesh.connectivity.vertex_to_vertices   vertexToVertices S            mesh.connectivity.edge_id(a,b)  edgeId S a b
  len(mesh.vertices)                     S.nv                          mesh.edges[e]                   S.edges[e]?   (raises when absent)
  L[0] on a list                         L.head?  (raises IndexError -> none)
  dict([(i,False) for i in bv]) / Attribute(bool)    the list of keys set to True (`BoolMap`)
  dict() used as vertex map              association list, most recent binding first (`NatDict`), `m[k]` raises when absent
  PolyLine()                             two locals: its edge list and the list of SURFACE vertices whose coordinates it copies
  bound.vertices.create_attribute("component", int) and the writes to it     ignored (not part of the statement)
  for e,(A,B) in enumerate(L): L[e] = f(A,B)        in-place map (element e is read at iteration e before it is overwritten)
"""
import ast

from .. import translate as T
from ..translate import TranslateError
from . import c01_pylean as PL

BORDER_FILE = "mouette/processing/border.py"
FEAT_FILE = "mouette/processing/features.py"

MESH_EXPRS = [
    ("mesh.boundary_vertices[0]", "((boundaryVertices S).headD 0)", "Nat"),
    ("mesh.boundary_vertices", "(boundaryVertices S)", "List Nat"),
    ("mesh.is_vertex_on_border(M_a)", "(isVertexOnBorder S {a})", "Bool"),
    ("mesh.connectivity.vertex_to_vertices(M_a)[0]", "(vertexToVertices S {a}).head?", "Nat", True),
    ("mesh.connectivity.vertex_to_vertices(M_a)", "(vertexToVertices S {a})", "List Nat"),
    ("mesh.connectivity.edge_id(M_a, M_b)", "(edgeId S {a} {b})", "Option Nat"),
    ("len(mesh.vertices)", "S.nv", "Nat"),
    ("mesh.edges[M_e]", "(edgeAt S {e})", "(Nat × Nat)", True),
    ("mesh.vertices[M_v]", "{v}", "Nat"),
    ("dict([(M_i, False) for M_i in mesh.boundary_vertices])", "([] : BoolMap)", "BoolMap"),
    ("Attribute(bool)", "([] : BoolMap)", "BoolMap"),
    ("dict()", "([] : NatDict)", "NatDict"),
    ("extract_border_cycle(mesh, M_v)", "(extractBorderCycle S (some {v}))", "(List Nat × List (Option Nat))", True),
    ("keyify(M_a, M_b)", "(key2 {a} {b})", "(Nat × Nat)"),
]
SUBS = {
    "BoolMap": {"get": ("(boolGet {x} {k})", "Bool", False), "set": "boolSet {x} {k} {v}"},
    "NatDict": {"get": ("(lookupMap {x} {k})", "Nat", True), "set": "({k}, {v}) :: {x}"},
}


def _default_start(c, b, env, nxt, ind, exits):
    """`if starting_point is None: starting_point = <e>` on an Option-typed parameter"""
    x = b["M_x"]
    if not (isinstance(x, ast.Name) and PL.arg_of(env.get(x.id, ""), "Option")): return None
    pre = []
    e, te = c.E(b["M_e"], env, pre)
    if pre or te != PL.arg_of(env[x.id], "Option"): raise c.err("unsupported default for the starting point")
    env2 = dict(env); env2[x.id] = te
    return f"{ind}let {x.id} : {te} := match {x.id} with | some t => t | none => {e}\n" + nxt(env2)


def _polyline(c, b, env, nxt, ind, exits):
    x = b["M_b"]
    if not isinstance(x, ast.Name): return None
    env2 = dict(env)
    env2[x.id + ".edges"] = "List (Nat × Nat)"; env2[x.id + ".vertices"] = "List Nat"
    return (f"{ind}let {x.id}_edges : List (Nat × Nat) := []\n{ind}let {x.id}_vertices : List Nat := []\n") + nxt(env2)


def _ignored_attr(c, b, env, nxt, ind, exits):
    x = b["M_c"]
    if not isinstance(x, ast.Name): return None
    env2 = dict(env); env2[x.id] = "Ignored"
    return nxt(env2)


def _ignored_write(c, b, env, nxt, ind, exits):
    x = b["M_c"]
    if isinstance(x, ast.Name) and env.get(x.id) == "Ignored": return nxt(env)
    return None


def _inplace_map(c, b, env, nxt, ind, exits):
    o, e, a, bb = b["M_o"], b["M_e"], b["M_a"], b["M_b"]
    key = ast.unparse(o) + ".edges"
    if key not in env or not all(isinstance(z, ast.Name) for z in (e, a, bb)): return None
    if any(z.id in PL.Compiler.used([b["M_x"]]) for z in (e,)): raise c.err("the in-place map uses the index")
    env_b = dict(env); env_b[a.id] = "Nat"; env_b[bb.id] = "Nat"
    pre = []
    x, tx = c.E(b["M_x"], env_b, pre)
    if tx != "(Nat × Nat)": raise c.err(f"the in-place map writes a {tx}")
    nm = c.lname(key)
    if pre:
        if exits.get("raise") is None: raise c.err("raising in-place map in a total function")
        body = c.wrap_pre(pre, f"some {x}", "none")
        return (f"{ind}match {nm}.mapM (fun (({a.id}, {bb.id}) : Nat × Nat) => {body}) with\n{ind}| none => {exits['raise']}\n"
                f"{ind}| some {nm} =>\n") + nxt(env)
    return f"{ind}let {nm} : List (Nat × Nat) := {nm}.map (fun (({a.id}, {bb.id}) : Nat × Nat) => {x})\n" + nxt(env)


BORDER_STMTS = [
    ("if M_x is None:\n    M_x = M_e", _default_start),
    ("M_b = PolyLine()", _polyline),
    ("M_c = M_b.vertices.create_attribute('component', int)", _ignored_attr),
    ("M_c[M_k] = M_v", _ignored_write),
    ("for M_e, (M_a, M_b) in enumerate(M_o.edges):\n    M_o.edges[M_e] = M_x", _inplace_map),
]


def _ret_polyline(c, b, env):
    o, m = b["M_b"], b["M_m"]
    k = ast.unparse(o)
    if k + ".edges" not in env: raise c.err("unexpected return value")
    mm, tm = c.E(m, env, [])
    if tm != "NatDict": raise c.err("unexpected return value")
    return f"some ({k}_edges, {mm}, {k}_vertices)"


HEADER = ("import Mouette.Model.PySrc\nset_option linter.unusedVariables false\nnamespace Mouette.Generated.C15Src\nopen Mouette.Surface Mouette.Border Mouette.PySrc\n\n")


def border_defs():
    tree, _ = T.load(BORDER_FILE)
    out = []
    v1 = PL.Vocab(["mesh", "starting_point"], [None, "Option Nat"], ctx="(S : Surf)", ctxargs="S", exprs=MESH_EXPRS, stmts=BORDER_STMTS,
                  subs=SUBS, empties=["List (Option Nat)"], ret="(List Nat × List (Option Nat))", raising=True,
                  returns=[("[]", "none")], fuel="S.nv")
    out.append(PL.compile_function("extractBorderCycle", T.find_def(tree, "extract_border_cycle"), v1,
                                   "`extract_border_cycle(mesh, starting_point)`; `none` = raises (or returns `[]`: no border)"))
    v2 = PL.Vocab(["mesh"], [None], ctx="(S : Surf)", ctxargs="S", exprs=MESH_EXPRS, stmts=BORDER_STMTS, subs=SUBS,
                  empties=["List (List Nat)"], ret="List (List Nat)", raising=True)
    out.append(PL.compile_function("extractBorderCycleAll", T.find_def(tree, "extract_border_cycle_all"), v2,
                                   "`extract_border_cycle_all(mesh)`"))
    v3 = PL.Vocab(["mesh"], [None], ctx="(S : Surf)", ctxargs="S", exprs=MESH_EXPRS, stmts=BORDER_STMTS, subs=SUBS, empties=[],
                  ret="(List (Nat × Nat) × NatDict × List Nat)", raising=True)
    v3.returns = [("(M_b, M_m)", _ret_polyline)]
    out.append(PL.compile_function("extractBoundaryOfSurface", T.find_def(tree, "extract_boundary_of_surface"), v3,
                                   "`extract_boundary_of_surface(mesh)`: (polyline edges, map_v2v, surface vertex copied by each polyline vertex)"))
    return "\n".join(out)


BORDER_FALLBACK = """/- the translator refused the current source: stubs (the bridges of Props/C15Source do not hold for them) -/
def extractBorderCycle (S : Surf) (p1 : Option Nat) : Option (List Nat × List (Option Nat)) := none
def extractBorderCycleAll (S : Surf) : Option (List (List Nat)) := none
def extractBoundaryOfSurface (S : Surf) : Option (List (Nat × Nat) × NatDict × List Nat) := none
"""


FEAT_FALLBACK = """/- the translator refused the current source: stubs (the bridges of Props/C15Source do not hold for them) -/
def addHardEdgesToFeatures (env : FeatEnv) (onlyBorder : Bool) (p2 : BoolMap) : BoolMap := []
def addSharpAnglesToFeatures (env : FeatEnv) (onlyBorder : Bool) (p2 : BoolMap) : BoolMap := []
def addBorderToFeatures (env : FeatEnv) (onlyBorder : Bool) (p2 : BoolMap) : BoolMap := []
def flagCorners (cenv : CornerEnv) (twoPi : Rat) (order : Nat) (fv : List Nat) (corners0 : IntMap) : IntMap := []
"""


RUN_HEADER = ("import Mouette.Generated.C15Feat\nset_option linter.unusedVariables false\nnamespace Mouette.Generated.C15Src\n"
              "open Mouette.PySrc Mouette.Features Mouette.FeatSource Mouette.SurfSource\n\n")
RUN_FALLBACK = """/- the translator refused the current source: stubs (the theorems of Props/C15Source do not hold for them) -/
def clear : (List Nat × List Nat × DegMap × LocDict) := ([0], [0], [], [])
def run (env : FeatEnv) (v2e : Nat → List Nat) (onlyBorder : Bool) (featV0 featE0 : Option BoolMap) (flagC : Bool) (cenv : CornerEnv)
    (twoPi : Rat) (order : Nat) (p0_corners cornersMesh : IntMap) :
    (List Nat × List Nat × DegMap × LocDict × BoolMap × BoolMap × IntMap) := ([0], [0], [], [], [], [], [(0, 7)])
"""


def translate_sites():
    out = []
    st = {}

    def border():
        st["border"] = border_defs()
        return {"functions": ["extract_border_cycle", "extract_border_cycle_all", "extract_boundary_of_surface"],
                "lean_defs": st["border"].count("\ndef ") + st["border"].startswith("def ")}
    r = T.site("border.py: bodies of extract_border_cycle / extract_border_cycle_all / extract_boundary_of_surface translated "
               "statement by statement (guards, while loop + visit counter, for/break scan, visited bookkeeping, index map)", border)
    out.append(r)
    T.write_generated("C15Border", (st["border"] if r["ok"] else BORDER_FALLBACK) + "\nend Mouette.Generated.C15Src\n", HEADER)

    def feat():
        st["feat"] = feature_defs()
        return {"functions": ["_add_hard_edges_to_features", "_add_sharp_angles_to_features", "_add_border_to_features", "_flag_corners"],
                "lean_defs": st["feat"].count("\ndef ") + st["feat"].startswith("def ")}
    r = T.site("features.py: bodies of the three feature passes (guards, loops, continue, thresholds, `1 - DOT_THRESHOLD`, which "
               "attribute entry is written) and of _flag_corners (angle accumulation, |angle| < 2π/order rule, round)", feat)
    out.append(r)
    T.write_generated("C15Feat", (st["feat"] if r["ok"] else FEAT_FALLBACK) + "\nend Mouette.Generated.C15Src\n", FEAT_HEADER)

    def run():
        st["run"] = run_defs()
        return {"functions": ["run", "clear"], "lean_defs": st["run"].count("\ndef ") + st["run"].startswith("def ")}
    r = T.site("features.py: bodies of FeatureEdgeDetector.run and clear (which containers are re-created, how the two `feature` attributes are "
               "opened and cleared, the order of the three passes, the container loops: feature_edges / feature_vertices / local_feat_edges / "
               "feature_degrees, the final flagging of the vertex attribute)", run)
    out.append(r)
    T.write_generated("C15RunSrc", (st["run"] if r["ok"] else RUN_FALLBACK) + "\nend Mouette.Generated.C15Src\n", RUN_HEADER)
    return out


# ----------------------------------------------------------------------------------------------------------------------
# features.py
# ----------------------------------------------------------------------------------------------------------------------
FEAT_HEADER = ("import Mouette.Model.FeatSource\nset_option linter.unusedVariables false\nnamespace Mouette.Generated.C15Src\n"
               "open Mouette.PySrc Mouette.Features Mouette.FeatSource\n\n")
FEAT_EXPRS = [
    ("self.only_border", "onlyBorder", "Bool"),
    ("mesh.boundary_edges", "env.boundaryEdges", "List Nat"),
    ("mesh.edges.has_attribute('hard_edges')", "env.hasHard", "Bool"),
    ("mesh.edges.get_attribute('hard_edges')", "env.hardIds", "List Nat"),
    ("enumerate(mesh.edges)", "((List.range env.nEdges).map fun e => (e, env.edge e))", "List (Nat × Nat × Nat)"),
    ("mesh.is_edge_on_border(*mesh.edges[M_e])", "(env.isEdgeOnBorder (env.edge {e}).1 (env.edge {e}).2)", "Bool"),
    ("mesh.edges[M_e]", "(env.edge {e})", "(Nat × Nat)"),
    ("mesh.connectivity.edge_to_faces(M_a, M_b)", "(env.edgeToFaces {a} {b})", "(Option Nat × Option Nat)"),
    ("self.fnormals[M_t]", "{t}", "Nat"),
    ("geometry.dot(M_a, M_b) < M_t", "(env.dotLt {a} {b} {t})", "Bool"),
    ("M_t > geometry.dot(M_a, M_b)", "(env.dotLt {a} {b} {t})", "Bool"),
]
FEAT_SUBS = {"BoolMap": {"get": ("(boolGet {x} {k})", "Bool", False), "set": "boolSet {x} {k} {v}"},
             "IntMap": {"set": "({k}, (({v} : {T_v}) : Int)) :: {x}"},
             "AngleAttr": {"get": ("(cenv.angle {k})", "Rat", False)}}
CORNER_EXPRS = [
    ("corner_angles(mesh, persistent=False)", "()", "AngleAttr"),
    ("self.feature_vertices", "fv", "List Nat"),
    ("self.corner_order", "order", "Nat"),
    ("mesh.connectivity.vertex_to_faces(M_v)", "(cenv.vertexToFaces {v})", "List Nat"),
    ("mesh.connectivity.vertex_to_corner_in_face(M_v, M_f)", "(cenv.cornerInFace {v} {f})", "Nat"),
    ("2 * pi", "twoPi", "Rat"),
    ("pi", "(twoPi / 2)", "Rat"),
    ("abs(M_x)", "(ratAbs {x})", "Rat"),
    ("round(M_x)", "(roundHalfEven {x})", "Int"),
]


def _corners_attr(c, b, env, nxt, ind, exits):
    """`if has_attribute("corners"): self.corners = get_attribute(..) else: self.corners = create_attribute(.., int)`:
    the attribute as found on the mesh (`corners0`; empty when it is created)"""
    env2 = dict(env); env2["p0.corners"] = "IntMap"
    return f"{ind}let p0_corners : IntMap := corners0\n" + nxt(env2)


CORNER_STMTS = [
    ("if mesh.vertices.has_attribute('corners'):\n    self.corners = mesh.vertices.get_attribute('corners')\n"
     "else:\n    self.corners = mesh.vertices.create_attribute('corners', int)", _corners_attr),
]


# ---- run() / clear() -------------------------------------------------------------------------------------------------
def _loc_append(c, b, env, nxt, ind, exits):
    pre = []
    k, _ = c.E(b["M_k"], env, pre); i, ti = c.E(b["M_i"], env, pre)
    if pre or ti != "Nat" or env.get("p0.local_feat_edges") != "LocDict": raise c.err("unsupported append into local_feat_edges")
    return f"{ind}let p0_local_feat_edges : LocDict := locAppend p0_local_feat_edges {k} {i}\n" + nxt(env)


def _self_clear(c, b, env, nxt, ind, exits):
    env2 = dict(env)
    env2.update({"p0.feature_vertices": "List Nat", "p0.feature_edges": "List Nat", "p0.feature_degrees": "DegMap", "p0.local_feat_edges": "LocDict"})
    return (f"{ind}let (p0_feature_vertices, p0_feature_edges, p0_feature_degrees, p0_local_feat_edges) : "
            f"(List Nat × List Nat × DegMap × LocDict) := clear\n") + nxt(env2)


def _flag_corners_call(c, b, env, nxt, ind, exits):
    """`self._flag_corners(mesh)`: the translated `_flag_corners` on the feature vertices found so far; it rebinds `self.corners` to the
    mesh attribute `corners` (its content before the call is `cornersMesh`)"""
    if env.get("p0.feature_vertices") != "List Nat" or env.get("p0.corners") != "IntMap": raise c.err("unsupported call of _flag_corners")
    return f"{ind}let p0_corners : IntMap := flagCorners cenv twoPi order p0_feature_vertices cornersMesh\n" + nxt(env)


RUN_EXPRS = [
    ("self.flag_corners", "flagC", "Bool"),
    ("set()", "([] : List Nat)", "List Nat"),
    ("Attribute(int)", "([] : DegMap)", "DegMap"),
    ("dict()", "([] : LocDict)", "LocDict"),
    ("mesh.vertices.has_attribute('feature')", "featV0.isSome", "Bool"),
    ("mesh.vertices.get_attribute('feature')", "(featV0.getD [])", "BoolMap"),
    ("mesh.vertices.create_attribute('feature', bool)", "([] : BoolMap)", "BoolMap"),
    ("mesh.edges.has_attribute('feature')", "featE0.isSome", "Bool"),
    ("mesh.edges.get_attribute('feature')", "(featE0.getD [])", "BoolMap"),
    ("mesh.edges.create_attribute('feature', bool)", "([] : BoolMap)", "BoolMap"),
    ("self._add_hard_edges_to_features(mesh, M_f)", "(addHardEdgesToFeatures env onlyBorder {f})", "BoolMap"),
    ("self._add_sharp_angles_to_features(mesh, M_f)", "(addSharpAnglesToFeatures env onlyBorder {f})", "BoolMap"),
    ("self._add_border_to_features(mesh, M_f)", "(addBorderToFeatures env onlyBorder {f})", "BoolMap"),
    ("mesh.edges[M_e]", "(env.edge {e})", "(Nat × Nat)"),
    ("enumerate(mesh.connectivity.vertex_to_edges(M_v))", "((v2e {v}).zipIdx.map fun p => (p.2, p.1))", "List (Nat × Nat)"),
]
RUN_SUBS = {"BoolMap": {"get": ("(boolGet {x} {k})", "Bool", False), "set": "boolSet {x} {k} {v}"},
            "LocDict": {"set": "({k}, {v}) :: {x}"},
            "DegMap": {"set": "({k}, {v}) :: {x}", "aug": "bump {x} {k}"}}
RUN_METHODS = {"List": {"add": "setAdd {x} {a}"}}
# statements of run() that are recognised and left out of the translated text (they must be there, in this shape)
RUN_REQUIRED = [
    "if mesh.faces.has_attribute('normals'):\n    self.fnormals = mesh.faces.get_attribute('normals')\nelse:\n    self.fnormals = face_normals(mesh, persistent=False)",
    "if self.compute_feature_graph:\n    self._compute_feature_graph(mesh)\n    if self.flag_corners:\n        self._compute_corner_point_cloud(mesh)",
]


def _bool_clear(c, b, env, nxt, ind, exits):
    x = b["M_x"]
    if not (isinstance(x, ast.Name) and env.get(x.id) == "BoolMap"): return None
    return f"{ind}let {x.id} : BoolMap := []\n" + nxt(env)


def run_defs():
    tree, _ = T.load(FEAT_FILE)
    out = []
    v = PL.Vocab(["self"], [None], exprs=RUN_EXPRS, ret="(List Nat × List Nat × DegMap × LocDict)",
                 fall="(p0_feature_vertices, p0_feature_edges, p0_feature_degrees, p0_local_feat_edges)")
    out.append(PL.compile_function("clear", T.find_def(tree, "FeatureEdgeDetector.clear"), v,
                                   "`FeatureEdgeDetector.clear`: (`feature_vertices`, `feature_edges`, `feature_degrees`, `local_feat_edges`) re-created"))
    fn = T.find_def(tree, "FeatureEdgeDetector.run")
    stripped = PL._strip_calls(fn, ["self.log"])
    for req in RUN_REQUIRED:
        want = ast.unparse(ast.parse(req).body[0])
        if sum(1 for st in stripped.body if ast.unparse(st) == want) != 1:
            raise TranslateError(f"run: the statement `{req.splitlines()[0]} …` is not there (once, at top level, in the expected shape)")
    v = PL.Vocab(["self", "mesh"], [None, None], exprs=RUN_EXPRS, subs=RUN_SUBS, methods=RUN_METHODS, empties=["List Nat"],
                 stmts=[("self.clear()", _self_clear), ("self.local_feat_edges[M_k].append(M_i)", _loc_append), ("M_x.clear()", _bool_clear),
                        ("self._flag_corners(mesh)", _flag_corners_call)],
                 init_env={"self.corners": "IntMap"},
                 drop=RUN_REQUIRED,
                 ctx=("(env : FeatEnv) (v2e : Nat → List Nat) (onlyBorder : Bool) (featV0 featE0 : Option BoolMap) (flagC : Bool) (cenv : CornerEnv) "
                      "(twoPi : Rat) (order : Nat) (p0_corners cornersMesh : IntMap)"),
                 ctxargs="env v2e onlyBorder featV0 featE0 flagC cenv twoPi order p0_corners cornersMesh",
                 ret="(List Nat × List Nat × DegMap × LocDict × BoolMap × BoolMap × IntMap)",
                 fall="(p0_feature_vertices, p0_feature_edges, p0_feature_degrees, p0_local_feat_edges, v0, v1, p0_corners)")
    v.iters = {"BoolMap": ("(boolKeys {x})", "Nat")}
    v.effects = [("self._flag_corners(mesh)", ["self.corners"])]
    v.drop_calls = ["self.log"]
    out.append(PL.compile_function("run", fn, v,
                                   "`FeatureEdgeDetector.run`: (`feature_vertices`, `feature_edges`, `feature_degrees`, `local_feat_edges`, vertex attribute "
                                   "`feature`, edge attribute `feature`, `corners`) at the end; the normals branch and the feature-graph outputs are "
                                   "recognised and left out (they write none of these)"))
    return "\n".join(out)


def feature_defs():
    tree, _ = T.load(FEAT_FILE)
    out = []
    ctx, ctxa = "(env : FeatEnv) (onlyBorder : Bool)", "env onlyBorder"
    for lean, py, doc in [("addHardEdgesToFeatures", "_add_hard_edges_to_features", "pass 1: declared hard edges, filtered by their angle"),
                          ("addSharpAnglesToFeatures", "_add_sharp_angles_to_features", "pass 2: crease edges"),
                          ("addBorderToFeatures", "_add_border_to_features", "pass 3: border edges")]:
        v = PL.Vocab(["self", "mesh", "feature_attr"], [None, None, "BoolMap"], ctx=ctx, ctxargs=ctxa, exprs=FEAT_EXPRS, subs=FEAT_SUBS,
                     ret="BoolMap", raising=False)
        out.append(PL.compile_function(lean, T.find_def(tree, "FeatureEdgeDetector." + py), v, f"`FeatureEdgeDetector.{py}` ({doc})"))
    v = PL.Vocab(["self", "mesh"], [None, None], ctx="(cenv : CornerEnv) (twoPi : Rat) (order : Nat) (fv : List Nat) (corners0 : IntMap)",
                 ctxargs="cenv twoPi order fv corners0", exprs=CORNER_EXPRS, stmts=CORNER_STMTS, subs=FEAT_SUBS, ret="IntMap", raising=False,
                 fall="p0_corners")
    out.append(PL.compile_function("flagCorners", T.find_def(tree, "FeatureEdgeDetector._flag_corners"), v,
                                   "`FeatureEdgeDetector._flag_corners`: the `corners` attribute after the loop over the feature vertices"))
    return "\n".join(out)
